#!/bin/bash
# Offline setup: nothing is installed; creates scratch dirs and runs the machinery self-checks.
set -e
cd "$(dirname "$0")"
mkdir -p build evidence replays
/venv/bin/python -c "import sys; sys.path.insert(0,'/repo'); import ppci; print('ppci from', ppci.__file__)"
for t in gcc llvm-mc llvm-objdump llvm-objcopy llvm-readobj objdump readelf node python3-vt; do
  command -v $t >/dev/null || echo "WARNING: oracle tool $t missing"
done
if [ -d tests ] && ls tests/test_*.py >/dev/null 2>&1; then
  PYTHONHASHSEED=0 /venv/bin/python -m pytest -q -p no:cacheprovider tests -x 2>&1 | tail -3
fi
