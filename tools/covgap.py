#!/venv/bin/python
"""Coverage gap report for one property: run the quick check single-process under coverage.py (branch coverage, anchor files of the
property only) and list the functions of the anchor files with lines the check never executed.
usage: tools/covgap.py <ID> [--tier quick]      -> build/covgap/<ID>.txt
This is a review aid (which shortcuts of the code does the enumerated bound not reach?), not a check."""
import os, sys, json, subprocess, ast

VERIF = os.path.dirname(os.path.dirname(os.path.abspath(__file__)))
pid = sys.argv[1]
tier = sys.argv[3] if len(sys.argv) > 3 and sys.argv[2] == "--tier" else "quick"
repo = os.environ.get("VF_REPO", "/repo")
props = {}
for l in open(os.path.join(VERIF, "properties.jsonl")):
    l = l.strip()
    if l:
        d = json.loads(l)
        props[d["id"]] = d
a = props[pid]["anchors"]
files = a["files"] if isinstance(a, dict) else a
files = [f.split(":")[0] for f in files]
files = [f for f in files if f.endswith(".py")]
out = os.path.join(VERIF, "build", "covgap")
os.makedirs(out, exist_ok=True)
data = os.path.join(out, pid + ".coverage")
env = dict(os.environ, VF_NPROC="1", COVERAGE_CORE="sysmon", COVERAGE_FILE=data, PYTHONHASHSEED="0", PYTHONDONTWRITEBYTECODE="1")
inc = ",".join(os.path.join(repo, f) for f in files)
r = subprocess.run(["/venv/bin/python", "-m", "coverage", "run", "--branch", "--include=" + inc, "-m", "vf.run", pid, "--tier", tier], cwd=VERIF, env=env,
                   capture_output=True, text=True)
tail = (r.stdout + r.stderr).strip().splitlines()[-1:]
js = os.path.join(out, pid + ".json")
subprocess.run(["/venv/bin/python", "-m", "coverage", "json", "-o", js, "--include=" + inc], cwd=VERIF, env=env, capture_output=True, text=True)
rep = ["covgap %s tier=%s  check said: %s" % (pid, tier, tail)]
try:
    cov = json.load(open(js))
except Exception as ex:  # noqa
    rep.append("no coverage data: %r" % ex)
    cov = {"files": {}}
for f in files:
    path = os.path.join(repo, f)
    fc = cov["files"].get(path)
    if fc is None:
        rep.append("\n== %s: never imported / no data" % f)
        continue
    missing = set(fc["missing_lines"])
    src = open(path).read()
    tree = ast.parse(src)
    lines = src.splitlines()
    rep.append("\n== %s: %d of %d statements not executed (%.0f%% covered)" % (f, len(missing), fc["summary"]["num_statements"], fc["summary"]["percent_covered"]))
    funcs = []
    for node in ast.walk(tree):
        if isinstance(node, (ast.FunctionDef, ast.AsyncFunctionDef)):
            body = set(range(node.lineno, node.end_lineno + 1))
            miss = sorted(body & missing)
            if miss:
                funcs.append((node.lineno, node.name, miss, len(body)))
    for ln, name, miss, n in sorted(funcs):
        whole = len(miss) >= 0.9 * max(1, sum(1 for i in range(ln, ln + n) if lines[i - 1].strip() and not lines[i - 1].strip().startswith(("#", '"""'))) - 1)
        rep.append("  %s:%d %s  missing %d line(s)%s" % (f, ln, name, len(miss), "  [never entered]" if whole else ""))
        if not whole:
            for m in miss[:12]:
                rep.append("      %5d  %s" % (m, lines[m - 1].strip()[:130]))
open(os.path.join(out, pid + ".txt"), "w").write("\n".join(rep) + "\n")
print("\n".join(rep[:3]))
