#!/bin/bash
# End-of-session regeneration: every claimed check, quick tier, on /repo's working tree; evidence and replay files are rewritten.
# usage: tools/finalize.sh [seed]   (results in build/final/<ID>.txt; prints a summary)
cd "$(dirname "$0")/.."
seed=${1:-0}
mkdir -p build/final
[ "$seed" = 0 ] && rm -rf replays/*
for id in $(cat tools/ready.txt); do
  VERIF_SEED=$seed VF_NPROC=${VF_NPROC:-14} ./check $id --tier quick > build/final/$id.s$seed.txt 2>&1
  echo "rc=$?" >> build/final/$id.s$seed.txt
  echo "$id $(grep -v '^KNOWN' build/final/$id.s$seed.txt | tail -2 | tr '\n' ' ' | cut -c1-200)"
done
