#!/venv/bin/python
"""Merge a first seedcheck result (with --tests) and a later re-run of the check only.  usage: seedmerge.py first.json second.json ID > merged.json"""
import sys, json
a = json.load(open(sys.argv[1])); b = json.load(open(sys.argv[2])); pid = sys.argv[3]
for k in ("demo_clean_rc", "demo_mutant_rc", "patch_applies", "demo_mutant_out"):
    if k in b:
        a[k] = b[k]
a["first_result"] = {"exit": a.get(pid, {}).get("rc"), "keys": a.get(pid, {}).get("violations", [])[:4]}
a[pid] = b[pid]
print(json.dumps(a, indent=1))
