#!/venv/bin/python
"""Regenerate the generated tables of DESIGN.md section 11 (between the AUTOGEN markers) from known_findings.txt, seeded/*/meta.json
and evidence/*.json."""
import os, re, json, glob
os.chdir(os.path.dirname(os.path.dirname(os.path.abspath(__file__))))
props = {json.loads(l)["id"]: json.loads(l) for l in open("properties.jsonl")}
fixed, known = {}, {}
for line in open("known_findings.txt"):
    line = line.strip()
    m = re.match(r"(fixed|known): property=(C\d+) (.*)", line)
    if not m:
        continue
    kind, pid, rest = m.groups()
    what = rest.split("::", 1)[1].strip() if "::" in rest else rest
    if kind == "fixed":
        commit = rest.split()[0]
        fixed.setdefault(pid, []).append((commit, what))
    else:
        key = rest.split("key=", 1)[1].split("::")[0].strip()
        known.setdefault(pid, []).append((key, what))
out = []
out.append("### 11.4 Defects found in ppci (generated from known_findings.txt)\n")
out.append("Every entry was reproduced outside the harness before it was fixed or listed.  `fixed` = one unguarded `fix:` commit in /repo "
           "(the baseline suite, unedited, still gives 1400 passed); `known` = recorded finding (KNOWN-FINDING line, exit 0).\n")
out.append("| Property | fixed (commits) | known findings | examples |")
out.append("|---|---|---|---|")
for pid in sorted(props):
    f, k = fixed.get(pid, []), known.get(pid, [])
    if not f and not k:
        continue
    ex = "; ".join(w[:90] for _, w in (f[:2] + k[:1]))
    out.append("| %s | %d | %d | %s |" % (pid, len(f), len(k), ex.replace("|", "\\|")))
out.append("")
out.append("Total: %d fixed, %d known.\n" % (sum(len(v) for v in fixed.values()), sum(len(v) for v in known.values())))
out.append("Known findings that stay listed and why they were not repaired:\n")
for pid in sorted(known):
    for key, what in known[pid]:
        out.append("* **%s** `%s` — %s" % (pid, key, what[:260].replace("|", "\\|")))
out.append("")
out.append("### 11.5 Seeded changes and which checks catch them (generated from seeded/*/meta.json)\n")
out.append("Each change was written by a fresh sub-agent that saw only the property text and a scratch worktree; it was kept only after "
           "`tools/seedcheck.py` confirmed in another scratch worktree that the patch applies, the demonstration exits 0 without and 1 with it, "
           "and the baseline suite still reports 1400 passed.  `caught` = the property's quick check, run with VF_REPO pointing at the changed "
           "worktree, printed a VIOLATION; the replay file reproduces it on the change and holds on the clean tree unless noted.\n")
out.append("| Seed | change (file / mechanism) | caught by quick check | keys reported | note |")
out.append("|---|---|---|---|---|")
for d in sorted(glob.glob("seeded/*/meta.json")):
    m = json.load(open(d))
    name = os.path.basename(os.path.dirname(d))
    first = m.get("needs_to_manifest", "").strip().splitlines()
    desc = " ".join(l.strip("# ").strip() for l in first[:3])[:170]
    cr = m.get("check_result", {})
    note = m.get("note", "")
    out.append("| %s | %s | %s | %s | %s |" % (name, desc.replace("|", "\\|"), "yes" if cr.get("caught") else "**no**",
                                              ", ".join("`%s`" % k for k in cr.get("keys", [])[:3]).replace("|", "\\|"), note))
out.append("")
out.append("### 11.6 What the quick tier explored on the last run (generated from evidence/*.json)\n")
out.append("| Property | level | evaluations | distinct non-trivial | states / transitions | known findings hit | exhaustive in bound | wall s (this machine, shared) |")
out.append("|---|---|---|---|---|---|---|---|")
for f in sorted(glob.glob("evidence/C*.json")):
    try:
        e = json.load(open(f))
    except Exception:
        continue
    c = e["coverage"]
    out.append("| %s | %s | %s | %s | %s | %d | %s | %s |" % (e["property_id"], e["level"], c.get("evaluations"), c.get("distinct_nontrivial"),
               ("%s / %s" % (c.get("states"), c.get("transitions"))) if "states" in c else "-", len(c.get("known_findings_hit", [])),
               c.get("exhaustive"), e.get("wall_s")))
out.append("")
# thorough tier: results of the last thorough run of each check are kept in thorough_log.json (committed); new logs under build/thorough/ update it
tlog = json.load(open("thorough_log.json")) if os.path.exists("thorough_log.json") else {}
for f in sorted(glob.glob("build/thorough/C*.json")):
    try:
        e = json.load(open(f))
    except Exception:
        continue
    if e.get("tier") != "thorough":
        continue
    pid = e["property_id"]
    c = e["coverage"]
    txt = open(f[:-5] + ".txt").read() if os.path.exists(f[:-5] + ".txt") else ""
    cpu = open(f[:-5] + ".time").read().split() if os.path.exists(f[:-5] + ".time") else []
    tlog[pid] = {"evaluations": c.get("evaluations"), "distinct": c.get("distinct_nontrivial"), "states": c.get("states"), "transitions": c.get("transitions"),
                 "exhaustive": c.get("exhaustive"), "caps": c.get("caps") or c.get("capped") or [], "violations": e.get("violations"),
                 "known_hit": len(c.get("known_findings_hit", [])), "wall_s": e.get("wall_s"), "cpu_user_s": (cpu[1] if len(cpu) > 1 else ""),
                 "exit": ("rc=0" in txt and 0) if "rc=" in txt else None, "bounds": str(c.get("bounds", ""))[:300]}
json.dump(tlog, open("thorough_log.json", "w"), indent=1, sort_keys=True)
out.append("### 11.7 Thorough tier: last complete run of each check (generated from thorough_log.json)\n")
out.append("Runs were made with VF_NPROC=8 on the shared, heavily loaded sandbox (load average 40-60), so wall times are several times those of an idle 16-core machine; CPU seconds are the better measure.\n")
out.append("| Property | evaluations | distinct non-trivial | states / transitions | new violations | known findings hit | exhaustive in bound | wall s | user CPU |")
out.append("|---|---|---|---|---|---|---|---|---|")
for pid in sorted(tlog):
    t = tlog[pid]
    out.append("| %s | %s | %s | %s | %s | %s | %s | %s | %s |" % (pid, t["evaluations"], t["distinct"], ("%s / %s" % (t["states"], t["transitions"])) if t.get("states") else "-",
               t["violations"], t["known_hit"], t["exhaustive"], t["wall_s"], t["cpu_user_s"]))
out.append("")
# as-built summary per property from the check modules themselves
import importlib, sys
sys.path.insert(0, os.getcwd())
ready = set(open("tools/ready.txt").read().split())
out.append("### 11.8 As built, per property (generated from the check modules: LEVEL, CLAIM, RULE)\n")
out.append("`claimed` = listed in MANIFEST.checks; the bound text is the module's RULE (what exactly is enumerated, quick/thorough), truncated here — the full text, the assumptions and the trusted base are in evidence/<id>.json.\n")
out.append("| Property | claimed | level | explorer | deciding technique | enumerated bound (RULE, truncated) |")
out.append("|---|---|---|---|---|---|")
for n in range(1, 41):
    pid = "C%02d" % n
    try:
        m = importlib.import_module("vf.checks.c%02d" % n)
    except Exception as ex:  # noqa
        out.append("| %s | no | - | - | - | check module missing (%s) |" % (pid, type(ex).__name__))
        continue
    claim = getattr(m, "CLAIM", {})
    rule = " ".join(str(getattr(m, "RULE", "")).split())
    out.append("| %s | %s | %s | %s | %s | %s |" % (pid, "yes" if pid in ready else "no", getattr(m, "LEVEL", "-"), str(claim.get("engine", "-")).replace("|", "/"),
               str(claim.get("technique", "-")).replace("|", "/"), (rule[:420] + (" …" if len(rule) > 420 else "")).replace("|", "/")))
out.append("")
text = "\n".join(out)
s = open("DESIGN.md").read()
a, b = "<!-- AUTOGEN-BEGIN -->", "<!-- AUTOGEN-END -->"
if a in s:
    s = s[:s.index(a) + len(a)] + "\n" + text + "\n" + s[s.index(b):]
else:
    s += "\n" + a + "\n" + text + "\n" + b + "\n"
open("DESIGN.md", "w").write(s)
print("tables written:", sum(len(v) for v in fixed.values()), "fixed", sum(len(v) for v in known.values()), "known", len(glob.glob("seeded/*/meta.json")), "seeds")
