#!/venv/bin/python
"""Keep a validated seeded change: copy patch.diff, demo.py, notes.md to /verif/seeded/<ID>-<x>/ and write meta.json
from the seedcheck result JSON.   usage: tools/seedstore.py <seed dir> <result.json> <ID> <x>"""
import os, sys, json, shutil
seed, res, pid, x = sys.argv[1:5]
d = json.load(open(res))
r = d.get(pid, {})
ok_demo = d.get("demo_clean_rc") == 0 and d.get("demo_mutant_rc") == 1
ok_tests = "1400 passed" in d.get("tests", "")
if not (d.get("patch_applies") and ok_demo and ok_tests):
    print("NOT KEPT %s-%s: applies=%s demo=%s/%s tests=%r" % (pid, x, d.get("patch_applies"), d.get("demo_clean_rc"), d.get("demo_mutant_rc"), d.get("tests")))
    sys.exit(1)
dst = os.path.join(os.path.dirname(os.path.dirname(os.path.abspath(__file__))), "seeded", "%s-%s" % (pid, x))
os.makedirs(dst, exist_ok=True)
for f in ("patch.diff", "demo.py", "notes.md"):
    if os.path.exists(os.path.join(seed, f)):
        shutil.copy(os.path.join(seed, f), dst)
notes = open(os.path.join(seed, "notes.md")).read() if os.path.exists(os.path.join(seed, "notes.md")) else ""
keys = [v.strip().split(" :: ")[0].replace("key=", "") for v in r.get("violations", []) if v.strip().startswith("key=")]
meta = {
    "note": json.load(open(os.path.join(os.path.dirname(os.path.abspath(__file__)), "seednotes.json"))).get("%s-%s" % (pid, x), ""),
    "property": pid,
    "origin": "independent sub-agent given only the property text and a scratch worktree (nothing from /verif)",
    "needs_to_manifest": notes.strip()[:1200],
    "validated": {
        "patch_applies_to": "/repo HEAD at validation time (scratch worktree)",
        "demo_exit_clean": d.get("demo_clean_rc"), "demo_exit_with_change": d.get("demo_mutant_rc"),
        "baseline_suite_with_change": d.get("tests"),
        "command": "tools/seedcheck.py <seed dir> %s --tests" % pid,
    },
    "check_result": {"check": "./check %s --tier quick (VF_REPO=<worktree with the change>)" % pid, "exit": r.get("rc"), "caught": r.get("rc") == 1,
                     "keys": keys[:8], "wall_s": r.get("wall_s"), "replay_on_change_exit": r.get("replay_mutant_rc"), "replay_on_clean_exit": r.get("replay_clean_rc")},
}
if d.get("first_result"):
    meta["first_version_of_the_check"] = {"exit": d["first_result"].get("exit"), "caught": d["first_result"].get("exit") == 1}
json.dump(meta, open(os.path.join(dst, "meta.json"), "w"), indent=1)
print("kept %s-%s caught=%s keys=%s" % (pid, x, meta["check_result"]["caught"], keys[:3]))
