#!/venv/bin/python
"""Validate a seeded change and run the property's check against it.

usage: tools/seedcheck.py <seed dir with patch.diff, demo.py> <property id> [more property ids] [--tests] [--tier quick]

Works in a scratch worktree of /repo (HEAD) under /tmp/vf-mut-<pid>, never in /repo itself:
  1. demo.py on the clean worktree must exit 0;  2. patch applies;  3. demo.py must exit 1;
  4. (--tests) the baseline suite must still give the baseline counts;  5. VF_REPO=<worktree> ./check <ID> for each id.
Prints a JSON summary and removes the worktree."""
import os
import sys
import json
import time
import shutil
import subprocess

VERIF = os.path.dirname(os.path.dirname(os.path.abspath(__file__)))


def sh(cmd, cwd=None, env=None, timeout=3600):
    r = subprocess.run(cmd, shell=True, cwd=cwd, env=env, capture_output=True, text=True, timeout=timeout)
    return r.returncode, (r.stdout + r.stderr)


def main():
    args = [a for a in sys.argv[1:] if not a.startswith("--")]
    seed = os.path.abspath(args[0])
    pids = args[1:]
    tests = "--tests" in sys.argv
    tier = "thorough" if "--thorough" in sys.argv else "quick"
    wt = "/tmp/vf-mut-%d" % os.getpid()
    sh("git -C /repo worktree add -q %s HEAD" % wt)
    out = {"seed": seed, "properties": pids}
    try:
        env = dict(os.environ, PYTHONPATH=wt, PYTHONHASHSEED="0")
        rc0, o0 = sh("/venv/bin/python %s/demo.py" % seed, cwd=wt, env=env, timeout=600)
        out["demo_clean_rc"] = rc0
        rc, o = sh("git -C %s apply %s/patch.diff" % (wt, seed))
        out["patch_applies"] = rc == 0
        if rc != 0:
            out["apply_error"] = o[-300:]
            return out
        rc1, o1 = sh("/venv/bin/python %s/demo.py" % seed, cwd=wt, env=env, timeout=600)
        out["demo_mutant_rc"] = rc1
        out["demo_mutant_out"] = o1[-400:]
        if tests:
            t = time.time()
            rc, o = sh("/venv/bin/python -m pytest -q -p no:cacheprovider --timeout=900 -n 4 test 2>&1 | tail -3", cwd=wt, env=env, timeout=3000)
            out["tests"] = o.strip().splitlines()[-1] if o.strip() else ""
            out["tests_s"] = round(time.time() - t)
        for pid in pids:
            ev = os.path.join(VERIF, "evidence", pid + ".json")
            bak = ev + ".bak"
            if os.path.exists(ev):
                shutil.copy(ev, bak)
            t = time.time()
            rc, o = sh("./check %s --tier %s" % (pid, tier), cwd=VERIF, env=dict(os.environ, VF_REPO=wt), timeout=7200)
            viol = [l for l in o.splitlines() if l.startswith("VIOLATION") or l.strip().startswith("key=")]
            out[pid] = {"rc": rc, "wall_s": round(time.time() - t), "violations": viol[:12], "tail": o.strip().splitlines()[-1:]}
            # replay the first violation against the mutant and against the clean tree
            reps = [l.split("replay=")[1].strip() for l in o.splitlines() if l.startswith("VIOLATION")]
            if reps:
                rcm, om = sh("./check %s --replay %s" % (pid, reps[0]), cwd=VERIF, env=dict(os.environ, VF_REPO=wt))
                rcc, oc = sh("./check %s --replay %s" % (pid, reps[0]), cwd=VERIF)
                out[pid]["replay_mutant_rc"] = rcm
                out[pid]["replay_clean_rc"] = rcc
                for r in reps:
                    try:
                        os.unlink(r)
                    except OSError:
                        pass
            if os.path.exists(bak):
                shutil.move(bak, ev)
    finally:
        sh("git -C /repo worktree remove --force %s" % wt)
    return out


if __name__ == "__main__":
    print(json.dumps(main(), indent=1))
