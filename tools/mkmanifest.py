#!/venv/bin/python
"""Regenerate MANIFEST.json from the check modules present in vf/checks (run from /verif)."""
import os
import sys
import json
import glob
import importlib

sys.path.insert(0, os.path.dirname(os.path.dirname(os.path.abspath(__file__))))
os.chdir(os.path.dirname(os.path.dirname(os.path.abspath(__file__))))

props = [json.loads(l) for l in open("properties.jsonl")]
checks, na = [], []
READY = set(open("tools/ready.txt").read().split())
PENDING = {}
if os.path.exists("tools/pending.json"):
    PENDING = json.load(open("tools/pending.json"))
for p in props:
    pid = p["id"]
    path = "vf/checks/%s.py" % pid.lower()
    if not os.path.exists(path) or pid not in READY:
        na.append({"property_id": pid, "reason": PENDING.get(pid, "check not built yet in this tree (design in DESIGN.md section 4); nothing is claimed")})
        continue
    m = importlib.import_module("vf.checks." + pid.lower())
    if getattr(m, "NOT_CLAIMED", None):
        na.append({"property_id": pid, "reason": m.NOT_CLAIMED})
        continue
    c = getattr(m, "CLAIM", {})
    checks.append({
        "property_id": pid,
        "quick_cmd": "./check %s --tier quick" % pid,
        "thorough_cmd": "./check %s --tier thorough" % pid,
        "evidence_file": "/verif/evidence/%s.json" % pid,
        "replay_cmd_template": "./check %s --replay {path}" % pid,
        "engine": c.get("engine", "K1 bounded-exhaustive input exploration" if m.LEVEL == "exploration" else "K2 explicit-state search"),
        "level_claimed": {
            "category": m.LEVEL,
            "text": c.get("text", m.RULE),
            "design_ref": "DESIGN.md section 4, " + pid,
        },
        "level_note": c.get("note", "; ".join(getattr(m, "ASSUMPTIONS", []))),
        "technique": c.get("technique", "bounded exhaustive enumeration of inputs on the real code against a reference model (model checking family, K1)"
                           if m.LEVEL == "exploration" else "explicit-state model checking over the real transition functions (K2)"),
    })
man = {
    "version": 1,
    "setup_cmd": "./setup.sh",
    "hooks": {
        "guard": "PPCI_VERIF",
        "enable": "no source hooks are needed: checks import ppci from /repo's working tree (sys.path[0]=/repo) and wrap seams by monkeypatching from /verif",
        "baseline_off_cmd": "cd /repo && /venv/bin/python -m pytest -ra -q -p no:cacheprovider --timeout=900 --continue-on-collection-errors",
        "source_commits": [],
        "add_only": True,
    },
    "engines": [
        {"name": "K1", "path": "vf/core.py", "kind_free_text": "bounded-exhaustive input enumeration against a reference model, sharded over 16 processes"},
        {"name": "K2", "path": "vf/core.py", "kind_free_text": "explicit-state breadth-first search over real transition functions with canonical-state dedup"},
        {"name": "K3", "path": "vf/sched.py", "kind_free_text": "stateless schedule exploration of real threads under a baton scheduler, iterative preemption/deviation bounding"},
        {"name": "K4", "path": "vf/flow.py", "kind_free_text": "abstract-state reachability fixpoint on the post-allocation instruction graph"},
    ],
    "checks": checks,
    "not_applicable": na,
    "notes": "All checks: ./check <ID> --tier quick|thorough; exit 0 held (KNOWN-FINDING lines possible), 1 VIOLATION, 2 harness error. Known findings: /verif/known_findings.txt.",
}
json.dump(man, open("MANIFEST.json", "w"), indent=1)
print("claimed:", " ".join(c["property_id"] for c in checks))
print("not claimed:", len(na))
