"""Validation of the reference ARM/Thumb emulator vf/sem/arm32.py against independent references.

(a) decode: systematic lattices of encodings - A32: every (bits 27:20, bits 7:4) x register/immediate field patterns x conditions
    plus immediate sweeps; T16: every halfword below 0xE800; T32: every opcode pattern of the first halfword x register patterns x a
    lattice of second halfwords plus immediate/branch sweeps - are decoded by arm32.decode_* and by
    `llvm-mc-14 --disassemble -triple=armv7a|thumbv7a`.  Wherever the emulator decodes, its text() must equal LLVM's print (".w"
    suffix removed) and LLVM must not call the encoding invalid or potentially undefined; wherever it refuses although LLVM decodes
    cleanly, the refusal must fall in a named class (REFUSED_OK) - never a silent gap.
(b) execution: C kernels (vf/gen/ccorpus.py CORPUS + arithmetic/shift/compare/memory/division kernels) compiled by clang-14 for
    armv7-a (ARM state), armv7-m and armv6-m (Thumb) at -O0/-O1/-Os, relocations applied here, run on the emulator under AAPCS and
    compared with the same C compiled natively by gcc (return value, global/buffer memory, callee-saved registers, sp).
    __aeabi_idiv/uidiv/idivmod/uidivmod are host hooks.
(c) direct assertions on flag semantics / interworking / IT blocks / alignment / step limit.

Numbers (2026-09-22): A32 lattice 114014 words (56899 printed identically, the rest refused by both / LLVM soft-fails / named refusals), T16 all 59391
halfwords (57412 identical), T32 lattice 226542 words (95676 identical), 17252 16-bit encodings inside an IT block; 8784 function runs
(3 targets x 3 optimisation levels) agree with gcc.

Run:  /venv/bin/python -m pytest -q tests/test_arm32.py      (about 40 s on the loaded 16-core machine)
"""
import os
import re
import sys
import ctypes
import shutil
import itertools
import subprocess
from concurrent.futures import ThreadPoolExecutor

sys.path.insert(0, os.path.dirname(os.path.dirname(os.path.abspath(__file__))))

from vf.sem import arm32  # noqa: E402

LLVM_MC = shutil.which("llvm-mc-14") or "llvm-mc"
ARM_FLAGS = ["-triple=armv7a", "-mattr=+hwdiv-arm,+mp"]
THUMB_FLAGS = ["-triple=thumbv7a", "-mattr=+hwdiv,+mp"]
ARM_SENT, THUMB_SENT = bytes.fromhex("03f020e3"), bytes.fromhex("30bf")        # wfi: refused by the emulator, never in a lattice


def llvm_decode(blobs, flags, sent, pad_after=None):
    """-> [(text | None, softfail)] per blob.  Each blob is followed by a sentinel (wfi); pad_after(blob) -> n nops appended (Thumb IT)."""
    blk = lambda b: "[" + ",".join("0x%02x" % x for x in b) + "]\n"  # noqa
    src = []
    for b in blobs:
        n = pad_after(b) if pad_after else 0
        src.append(blk(b + bytes.fromhex("00bf") * n) + blk(sent))
    r = subprocess.run([LLVM_MC, "--disassemble"] + flags, input="".join(src), capture_output=True, text=True)
    bad, soft = set(), set()
    for m in re.finditer(r":(\d+):\d+: warning: (invalid|potentially undefined)", r.stderr):
        (bad if m.group(2) == "invalid" else soft).add((int(m.group(1)) - 1) // 2)
    chunks, cur = [], []
    for line in r.stdout.splitlines():
        if not line.startswith("\t") or line.startswith("\t."):
            continue
        t = re.sub(r"\s+@.*$", "", line).strip()
        t = re.sub(r"\s+", " ", t.replace("\t", " "))
        if t == "wfi":
            chunks.append(cur)
            cur = []
        else:
            cur.append(t)
    assert len(chunks) == len(blobs), (len(chunks), len(blobs), r.stderr[-300:])
    out = []
    for k, c in enumerate(chunks):
        n = 1 + (pad_after(blobs[k]) if pad_after else 0)
        if k in bad or len(c) != n:
            out.append((None, False))
        else:
            t = c[0]
            head, _, rest = t.partition(" ")
            if head.endswith(".w"):
                head = head[:-2]
            out.append((head + (" " + rest if rest else ""), k in soft))
    return out


# classes of encodings the emulator refuses on purpose although LLVM 14 decodes them without a warning:
# (regex on the emulator's refusal reason, regex on LLVM's text, explanation)
REFUSED_OK = [
    (r"unsupported: A32 unconditional", r".*", "cond=1111 space: blx imm, pld/pli, cps, setend, rfe/srs, clrex, barriers, SIMD"),
    (r"unsupported: coprocessor", r"(cdp|mcr|mrc|mcrr|mrrc|ldc|stc|v[a-z]|f[a-z])", "coprocessor / VFP / NEON"),
    (r"unsupported: SIMD", r"v(ld|st)", "NEON element load/store"),
    (r"unsupported: synchronisation", r"(swp|ldrex|strex|lda|stl|ldaex|stlex)", "swp, exclusive and acquire/release accesses"),
    (r"unsupported: load/store exclusive", r"(ldrex|strex|lda|stl|ldaex|stlex)", "exclusive and acquire/release accesses"),
    (r"unsupported: msr immediate", r"msr", "status register write"),
    (r"unsupported: msr/mrs/barriers", r"(msr|mrs|dmb|dsb|isb|clrex|cps|bxj|eret|subs pc|dbg|ssbb|pssbb|sb|csdb|esb|hint)", "system instructions"),
    (r"unsupported: mrs/msr/bxj", r"(mrs|msr|bxj|eret|hvc|smc|hlt|crc32)", "status registers, monitor calls"),
    (r"unsupported: hint", r"(wfe|wfi|sev|sevl|dbg|hint|esb|csdb|psb|tsb|bti|aut|pac|pacbti)", "wait/event hints"),
    (r"unsupported: unprivileged", r"(ldr|str)s?[bh]?t", "ldrt/strt family"),
    (r"unsupported: flag-setting data processing to pc", r"\w+s\w* pc,", "exception return"),
    (r"unsupported: ldm/stm of user registers", r"(ldm|stm)", "ldm/stm with ^"),
    (r"unsupported: stm of pc", r"(stm|push)", "stored pc value is implementation defined"),
    (r"unsupported: pc-relative store", r"str", "store relative to pc"),
    (r"unsupported: media", r"(s|u|q|sh|uh|uq)((add|sub)(8|16)|asx|sax)|pkh|sel|usada?8|[su]sat|[su]xta?b16|sml[as]l?dx?|smu[as]dx?|rev", "media instructions"),
    (r"unsupported: smlaw", r"smlaw|smulw|smlal[bt]", "word-by-halfword / long halfword multiplies"),
    (r"unsupported: dual/word-by-halfword", r"smlaw|smulw|sml[as]l?dx?|smu[as]dx?|usada?8", "dual multiplies"),
    (r"unsupported/UNDEFINED: long multiply", r"smlal[bt]|sml[as]ldx?", "halfword long multiplies"),
    (r"unsupported: parallel/saturating", r"(s|u|q|sh|uh|uq)((add|sub)(8|16)|asx|sax)|sel|crc32", "parallel arithmetic"),
    (r"unsupported: sxtab16", r"[su]xta?b16", "16-bit pair extends"),
    (r"unsupported: ssat16/usat16", r"[su]sat16", "16-bit saturation"),
    (r"UNDEFINED/unsupported: T32 data-processing opcode", r"pkh", "pack halfword"),
    (r"unsupported: blx immediate", r"(blx|hvc|smc|dcps)", "blx to ARM state, hypervisor/monitor calls"),
    (r"unsupported: srs/rfe", r"(srs|rfe)", "exception entry/return"),
    (r"unsupported/UNPREDICTABLE: pc as Rt", r"(pld|pli|pldw|(ldr|str)s?[bh]? pc)", "preload hints; byte/halfword load to pc and store of pc (LLVM does not flag)"),
    (r"unsupported/UNDEFINED: 16-bit misc", r"(cps|setend|hlt|setpan)", "cps, setend"),
    # UNPREDICTABLE encodings on which LLVM 14 stays silent (it follows the ARMv8 relaxations or simply does not check)
    (r"UNPREDICTABLE: .*\bsp\b", r".*\bsp\b", "sp where ARMv7 forbids it (allowed by ARMv8-A T32)"),
    (r"UNPREDICTABLE: (pc|sp/pc) ", r".*\b(pc|sp)\b", "pc operand LLVM does not flag"),
    (r"UNPREDICTABLE: .*writeback", r"(ldr|str|ldm|stm|pop|push)", "writeback hazards LLVM does not flag"),
    (r"UNPREDICTABLE: .*Rm == Rn", r"(ldr|str)", "ARMv5 writeback restriction (kept)"),
    (r"UNPREDICTABLE: .*pc", r".*\bpc\b", "pc operand LLVM does not flag"),
    (r"UNPREDICTABLE: ldm/stm with Rn == pc or", r"(ldm|stm|push|pop)", "single-register T32 ldm/stm"),
    (r"UNPREDICTABLE: compare/test with Rd", r"(tst|teq|cmp|cmn)", "should-be-zero Rd"),
    (r"UNPREDICTABLE: mov/mvn with Rn", r"(mov|mvn|lsl|lsr|asr|ror|rrx)", "should-be-zero Rn"),
    (r"UNPREDICTABLE: mul with Ra|UNPREDICTABLE: smulxy with Ra", r"(mul|smul)", "should-be-zero Ra"),
    (r"UNPREDICTABLE: cmp \(T2\)", r"cmp", "cmp T2 with two low registers"),
    (r"UNPREDICTABLE: bx/blx with bits", r"bl?x", "should-be-zero bits"),
    (r"UNPREDICTABLE: .*should-be", r".*", "should-be-one/zero fields"),
    (r"UNPREDICTABLE: extend with", r"[su]xt", "should-be-zero bits"),
    (r"UNPREDICTABLE: register-offset halfword", r"(ldr|str)", "should-be-zero bits"),
    (r"UNPREDICTABLE: rev/clz with the two Rm", r"(rev|clz|rbit)", "Rm fields differ"),
    (r"UNPREDICTABLE: bit-field|UNPREDICTABLE/UNDEFINED: bit-field", r"[su]bfx|bf[ic]", "bit-field bounds"),
    (r"UNPREDICTABLE: modified immediate", r".*", "00xx modified immediate with a zero byte"),
    (r"UNPREDICTABLE: bit 15 of the second", r".*", "should-be-zero bit"),
    (r"UNPREDICTABLE: it with", r"it", "it with al + else / condition 1111"),
    (r"UNPREDICTABLE: ldm with both lr and pc", r"(ldm|pop)", "lr and pc together"),
    (r"UNPREDICTABLE/UNDEFINED: ldrd/strd with odd", r"(ldrd|strd)", "odd Rt"),
    (r"UNPREDICTABLE: ldrd", r"ldrd", "ldrd operand overlap"),
    (r"UNPREDICTABLE: pc in long multiply or RdHi == RdLo|UNPREDICTABLE: sp/pc in long multiply or RdHi == RdLo", r"[us]m(ull|lal|aal)", "RdHi == RdLo"),
    (r"UNPREDICTABLE: conditional bkpt|UNDEFINED: conditional udf", r"(bkpt|udf)", "conditional bkpt/udf"),
]


# encodings LLVM 14 flags as potentially undefined although the manual defines them (the emulator accepts them)
LLVM_SOFTFAIL_QUIRKS = [
    (r"strd\w* r\d+, r\d+, \[\w+(\], #-?\d+|, #-?\d+\]!?)$", lambda t: int(re.search(r"#-?(\d+)", t).group(1)) & 15 == 15,
     "A32 strd immediate: LLVM tests the low immediate nibble as if it were Rm == pc"),
    (r"(ldrd|strd) \w+, \w+, \[sp, #-?\d+\]!$", lambda t: True, "T32 ldrd/strd pre-indexed with base sp: flagged by LLVM 14, defined by the manual (only Rn == pc, Rn == Rt/Rt2 are UNPREDICTABLE)"),
]


def softfail_quirk(t):
    return any(re.match(p, t) and f(t) for p, f, _ in LLVM_SOFTFAIL_QUIRKS)


def refused_reason(why, t):
    for wpat, tpat, expl in REFUSED_OK:
        if re.match(wpat, why) and re.match(tpat, t):
            return expl
    return None


def compare(items, ref):
    """items: [(label, decode thunk)] ; ref: llvm results -> stats, bad"""
    stats = {"same": 0, "both_refuse": 0, "llvm_softfail_emulator_refuses": 0, "refused_by_design": 0}
    classes = {}
    bad = []
    for (label, dec), (lt, soft) in zip(items, ref):
        try:
            mine, why = arm32.text(dec()), None
        except arm32.IllegalInstruction as e:
            mine, why = None, e.why
        if mine is None and lt is None:
            stats["both_refuse"] += 1
        elif mine is None:
            if soft:
                stats["llvm_softfail_emulator_refuses"] += 1
            else:
                expl = refused_reason(why, lt)
                if expl is None:
                    bad.append((label, "emulator refuses: " + why, lt))
                else:
                    stats["refused_by_design"] += 1
                    classes[expl] = classes.get(expl, 0) + 1
        elif lt is None:
            bad.append((label, mine, "LLVM: invalid"))
        elif soft and not (mine == lt and softfail_quirk(lt)):
            bad.append((label, mine, "LLVM: potentially undefined: " + lt))
        elif mine != lt:
            bad.append((label, mine, lt))
        else:
            stats["same"] += 1
    return stats, bad, classes


# ------------------------------------------------------------------------------------------------ lattices

def lattice_arm():
    ws = set()
    fields = [(0, 0, 0, 0), (1, 2, 3, 4), (2, 1, 0, 3), (15, 0, 0, 1), (0, 15, 0, 1), (0, 1, 15, 2), (0, 1, 2, 15), (13, 13, 0, 1), (3, 3, 0, 3), (5, 5, 15, 5),
              (15, 1, 15, 2), (14, 12, 1, 0), (1, 0, 8, 9), (15, 15, 15, 15), (4, 2, 15, 15), (13, 0, 0, 4), (2, 3, 4, 2), (1, 1, 0, 0)]
    for op8 in range(256):
        for lo in range(16):
            for k, (a, b, c, d) in enumerate(fields):
                for cond in ((14, 1) if k < 5 else (14,)):
                    ws.add((cond << 28) | (op8 << 20) | (a << 16) | (b << 12) | (c << 8) | (lo << 4) | d)
            ws.add((15 << 28) | (op8 << 20) | (1 << 16) | (2 << 12) | (lo << 4) | 3)
    for imm in range(4096):                                  # every modified immediate / every imm12 offset / shift amounts
        ws.add(0xE3A00000 | imm)
        ws.add(0xE2912000 | imm)
        ws.add(0xE5912000 | imm)
        ws.add(0xE0832000 | ((imm & 0xFF) << 4) | 4)
    for k in range(16):
        for cond in range(15):
            ws.add((cond << 28) | 0x03A01001 | (k << 21))
    for regs in [1 << k for k in range(16)] + [0xFFFF, 0x8001, 0x4010, 0x00F0, 0x5555, 0xAAAA, 0x2000, 0xA000, 0x6000, 3]:
        for op in range(32):
            for rn in (0, 13, 4):
                ws.add(0xE8000000 | (op << 20) | (rn << 16) | regs)
    for imm in [0, 1, 2, 0x7FFFFF, 0x800000, 0xFFFFFF, 0xFFFFFE, 0x555555, 0xAAAAAA] + [1 << k for k in range(24)]:
        ws.update((0xEA000000 | imm, 0xEB000000 | imm, 0x1A000000 | imm, 0xEF000000 | imm))
    for imm in [0, 1, 0xFFFF, 0x8000, 0x7FFF, 0x1234, 0xF000, 0x0FFF, 0xFDEE]:
        ws.update((0xE3000000 | ((imm >> 12) << 16) | (imm & 0xFFF) | 0x3000, 0xE3400000 | ((imm >> 12) << 16) | (imm & 0xFFF) | 0x3000,
                   0xE1200070 | ((imm >> 4) << 8) | (imm & 15), 0xE7F000F0 | ((imm >> 4) << 8) | (imm & 15)))
    for lsb in range(32):
        for x in (0, 1, 7, 15, 16, 30, 31):
            for base in (0xE7A00050, 0xE7E00050, 0xE7C00010, 0xE7C0001F):
                ws.add(base | (x << 16) | (1 << 12) | (lsb << 7) | (2 if base & 0xF != 0xF else 0))
    ws.discard(int.from_bytes(ARM_SENT, "little"))
    return sorted(ws)


def lattice_t32():
    ws = set()
    n3, n2, n1, n0 = (0, 1, 0xD, 0xF, 0xA), (0, 2, 0xF, 9), (0, 1, 8, 0xF, 4), (0, 3, 0xF)
    h2s = [(a << 12) | (b << 8) | (c << 4) | d for a in n3 for b in n2 for c in n1 for d in n0]
    slim = [h for k, h in enumerate(h2s) if k % 5 == 0]
    for op in range(0xE80, 0x1000):
        for rn in (0, 1, 13, 15):
            h1 = (op << 4) | rn
            copro = h1 & 0x0400 and (h1 >> 11) & 3 != 2            # coprocessor / SIMD space: refused wholesale, thin sample
            for h2 in (slim[::4] if copro else h2s if rn in (1, 15) else slim):
                ws.add((h1 << 16) | h2)
    for imm in range(4096):                                  # every modified immediate, every imm12 / imm8 offset form
        ws.add(0xF04F0000 | ((imm >> 11) << 26) | (((imm >> 8) & 7) << 12) | (imm & 0xFF) | 0x0100)
        ws.add(0xF1120300 | ((imm >> 11) << 26) | (((imm >> 8) & 7) << 12) | (imm & 0xFF))
        ws.add(0xF8D12000 | imm)
        ws.add(0xF8512000 | imm)
        ws.add(0xF8312000 | imm)
        ws.add(0xF2400000 | ((imm >> 11) << 26) | (((imm >> 8) & 7) << 12) | (imm & 0xFF) | 0x0500 | ((imm & 15) << 16))
    for sh in range(128):
        ws.add(0xEB010002 | ((sh >> 4) << 12) | ((sh & 12) << 4) | ((sh & 3) << 4))
        ws.add(0xEA4F0002 | ((sh >> 4) << 12) | ((sh & 12) << 4) | ((sh & 3) << 4) | 0x0100)
    for lsb in range(32):
        for x in (0, 1, 7, 15, 16, 30, 31):
            for base in (0xF3400000, 0xF3C00000, 0xF3600000, 0xF36F0000):
                ws.add(base | (2 << 16 if base & 0xF0000 == 0 else 0) | ((lsb >> 2) << 12) | ((lsb & 3) << 6) | (1 << 8) | x)
    bits = [0, 1, 2, 0x3FF, 0x200, 0x155, 0x2AA] + [1 << k for k in range(10)]
    bits11 = [0, 1, 0x7FF, 0x400, 0x555] + [1 << k for k in range(11)]
    for s in (0, 1):
        for j in range(4):
            for hi in bits:
                for lo in bits11:
                    for base in (0xF0009000, 0xF000D000, 0xF0008000, 0xF000C000):
                        ws.add(base | (s << 26) | (hi << 16) | ((j >> 1) << 13) | ((j & 1) << 11) | lo)
    for regs in [1 << k for k in range(16)] + [0xFFFF, 0x8001, 0x4010, 0x00F0, 0x5555, 0xAAAA, 0x2000, 0xA000, 0xC000, 0x6000, 3, 0x8100, 0x4002]:
        for op in range(32):
            for rn in (0, 13, 4):
                ws.add(0xE8000000 | ((op >> 1) << 21) | ((op & 1) << 20) | (rn << 16) | regs)
    for it in range(256):
        ws.add(0xF3AF8000 | it)
    return sorted(ws)


def _is_it(b):
    h = int.from_bytes(b[:2], "little")
    return len(b) == 2 and h & 0xFF00 == 0xBF00 and h & 15


def test_decode_arm_lattice():
    words = lattice_arm()
    parts = [words[k::3] for k in range(3)]
    with ThreadPoolExecutor(3) as ex:
        refs = list(ex.map(lambda p: llvm_decode([w.to_bytes(4, "little") for w in p], ARM_FLAGS, ARM_SENT), parts))
    stats = {}
    bad, classes = [], {}
    for p, ref in zip(parts, refs):
        s, b, c = compare([("%#010x" % w, (lambda w=w: arm32.decode_arm(w))) for w in p], ref)
        for k, v in s.items():
            stats[k] = stats.get(k, 0) + v
        for k, v in c.items():
            classes[k] = classes.get(k, 0) + v
        bad += b
    print("A32:", len(words), stats)
    print("A32 refused by design:", classes)
    assert not bad, (len(bad), bad[:40])
    assert stats["same"] > 40000


def test_decode_thumb16_all():
    hs = [h for h in range(0xE800) if h != int.from_bytes(THUMB_SENT, "little")]
    parts = [hs[k::3] for k in range(3)]
    pad = lambda b: 4 if _is_it(b) else 0  # noqa
    with ThreadPoolExecutor(3) as ex:
        refs = list(ex.map(lambda p: llvm_decode([h.to_bytes(2, "little") for h in p], THUMB_FLAGS, THUMB_SENT, pad), parts))
    stats, bad, classes = {}, [], {}
    for p, ref in zip(parts, refs):
        s, b, c = compare([("%#06x" % h, (lambda h=h: arm32.decode_thumb(h))) for h in p], ref)
        for k, v in s.items():
            stats[k] = stats.get(k, 0) + v
        for k, v in c.items():
            classes[k] = classes.get(k, 0) + v
        bad += b
    print("T16:", len(hs), stats)
    print("T16 refused by design:", classes)
    assert not bad, (len(bad), bad[:40])
    assert stats["same"] > 55000


def test_decode_thumb32_lattice():
    words = lattice_t32()
    parts = [words[k::3] for k in range(3)]
    blob = lambda w: (w >> 16).to_bytes(2, "little") + (w & 0xFFFF).to_bytes(2, "little")  # noqa
    with ThreadPoolExecutor(3) as ex:
        refs = list(ex.map(lambda p: llvm_decode([blob(w) for w in p], THUMB_FLAGS, THUMB_SENT), parts))
    stats, bad, classes = {}, [], {}
    for p, ref in zip(parts, refs):
        s, b, c = compare([("%#010x" % w, (lambda w=w: arm32.decode_thumb(w >> 16, w & 0xFFFF))) for w in p], ref)
        for k, v in s.items():
            stats[k] = stats.get(k, 0) + v
        for k, v in c.items():
            classes[k] = classes.get(k, 0) + v
        bad += b
    print("T32:", len(words), stats)
    print("T32 refused by design:", classes)
    assert not bad, (len(bad), bad[:40])
    assert stats["same"] > 30000


# ------------------------------------------------------------------------------------------------ (b) execution vs gcc

import struct  # noqa: E402


def read_elf32(path):
    """minimal ELF32 little-endian relocatable reader -> (sections, symbols, rels{section index: [(offset, type, symbol index)]})"""
    d = open(path, "rb").read()
    assert d[:6] == b"\x7fELF\x01\x01"
    shoff, = struct.unpack_from("<I", d, 0x20)
    shentsize, shnum, shstrndx = struct.unpack_from("<HHH", d, 0x2E)
    secs = []
    for k in range(shnum):
        name, ty, flags, addr, off, size, link, info, align, entsize = struct.unpack_from("<10I", d, shoff + k * shentsize)
        secs.append({"name_off": name, "type": ty, "flags": flags, "off": off, "size": size, "link": link, "info": info, "align": max(align, 1),
                     "data": b"" if ty == 8 else d[off:off + size]})

    def cstr(tab, o):
        return tab[o:tab.index(b"\0", o)].decode()
    for s in secs:
        s["name"] = cstr(secs[shstrndx]["data"], s["name_off"])
    syms, rels = [], {}
    for s in secs:
        if s["type"] == 2:
            strtab = secs[s["link"]]["data"]
            for k in range(s["size"] // 16):
                name, value, size, info, other, shndx = struct.unpack_from("<IIIBBH", s["data"], 16 * k)
                syms.append({"name": cstr(strtab, name), "value": value, "size": size, "type": info & 15, "bind": info >> 4, "shndx": shndx})
    for s in secs:
        if s["type"] == 9:
            rels[s["info"]] = [(o, i & 0xFF, i >> 8) for o, i in struct.iter_unpack("<II", s["data"])]
        assert s["type"] != 4, "RELA not expected on ARM"
    return secs, syms, rels


R_ABS32, R_REL32, R_THM_CALL, R_CALL, R_JUMP24, R_THM_JUMP24, R_TARGET1, R_V4BX, R_PREL31 = 2, 3, 10, 28, 29, 30, 38, 40, 42
R_MOVW, R_MOVT, R_THM_MOVW, R_THM_MOVT = 43, 44, 47, 48


def link_object(path, base, stub_base, thumb):
    """-> (image bytes at `base`, {symbol: address (bit 0 = Thumb function)}, {undefined symbol: stub address})"""
    secs, syms, rels = read_elf32(path)
    addr, cur = {}, base
    for k, s in enumerate(secs):
        if s["flags"] & 2 and s["type"] in (1, 8) and s["size"]:
            cur = (cur + s["align"] - 1) & -s["align"]
            addr[k] = cur
            cur += s["size"]
    img = bytearray(cur - base)
    for k, a in addr.items():
        if secs[k]["type"] == 1:
            img[a - base:a - base + secs[k]["size"]] = secs[k]["data"]
    stubs, symaddr = {}, {}
    val = []
    for sy in syms:
        if sy["shndx"] == 0:
            if sy["name"]:
                stubs.setdefault(sy["name"], stub_base + 8 * len(stubs))
                val.append(stubs[sy["name"]] | (1 if thumb else 0))
            else:
                val.append(0)
        elif sy["shndx"] in addr:
            v = addr[sy["shndx"]] + sy["value"]
            val.append(v)
            if sy["name"] and sy["type"] in (1, 2):
                symaddr[sy["name"]] = (v, sy["size"])
        else:
            val.append(None)
    for k, rl in rels.items():
        if k not in addr:
            continue
        for off, ty, si in rl:
            P = addr[k] + off
            o = P - base
            SV = val[si]
            assert SV is not None, (secs[k]["name"], syms[si])
            T, S = (SV & 1 if syms[si]["type"] == 2 or syms[si]["shndx"] == 0 else 0), SV & ~1 if (syms[si]["type"] == 2 or syms[si]["shndx"] == 0) else SV
            if ty in (R_ABS32, R_TARGET1):
                A, = struct.unpack_from("<i", img, o)
                struct.pack_into("<I", img, o, ((S + A) | T) & 0xFFFFFFFF)
            elif ty == R_REL32:
                A, = struct.unpack_from("<i", img, o)
                struct.pack_into("<I", img, o, (((S + A) | T) - P) & 0xFFFFFFFF)
            elif ty in (R_CALL, R_JUMP24):
                w, = struct.unpack_from("<I", img, o)
                A = arm32.sx((w & 0xFFFFFF) << 2, 26)
                X = S + A - P
                assert T == 0 and X % 4 == 0 and -(1 << 25) <= X < (1 << 25)
                struct.pack_into("<I", img, o, (w & 0xFF000000) | ((X >> 2) & 0xFFFFFF))
            elif ty in (R_THM_CALL, R_THM_JUMP24):
                h1, h2 = struct.unpack_from("<HH", img, o)
                s_, j1, j2 = (h1 >> 10) & 1, (h2 >> 13) & 1, (h2 >> 11) & 1
                i1, i2 = 1 - (j1 ^ s_), 1 - (j2 ^ s_)
                A = arm32.sx((s_ << 24) | (i1 << 23) | (i2 << 22) | ((h1 & 0x3FF) << 12) | ((h2 & 0x7FF) << 1), 25)
                X = S + A - P
                assert T == 1 and -(1 << 24) <= X < (1 << 24)
                s_ = (X >> 24) & 1
                i1, i2 = (X >> 23) & 1, (X >> 22) & 1
                j1, j2 = (1 - i1) ^ s_, (1 - i2) ^ s_
                struct.pack_into("<HH", img, o, (h1 & 0xF800) | (s_ << 10) | ((X >> 12) & 0x3FF), (h2 & 0xD000) | (j1 << 13) | (j2 << 11) | ((X >> 1) & 0x7FF))
            elif ty in (R_MOVW, R_MOVT):
                w, = struct.unpack_from("<I", img, o)
                A = arm32.sx(((w >> 4) & 0xF000) | (w & 0xFFF), 16)
                X = (S + A) | T
                v = (X if ty == R_MOVW else X >> 16) & 0xFFFF
                struct.pack_into("<I", img, o, (w & 0xFFF0F000) | ((v >> 12) << 16) | (v & 0xFFF))
            elif ty in (R_THM_MOVW, R_THM_MOVT):
                h1, h2 = struct.unpack_from("<HH", img, o)
                A = arm32.sx(((h1 & 15) << 12) | (((h1 >> 10) & 1) << 11) | (((h2 >> 12) & 7) << 8) | (h2 & 0xFF), 16)
                X = (S + A) | T
                v = (X if ty == R_THM_MOVW else X >> 16) & 0xFFFF
                struct.pack_into("<HH", img, o, (h1 & 0xFBF0) | (v >> 12) | (((v >> 11) & 1) << 10), (h2 & 0x8F00) | (((v >> 8) & 7) << 12) | (v & 0xFF))
            elif ty in (0, R_V4BX):
                pass
            else:
                raise AssertionError("relocation type %d in %s not handled" % (ty, secs[k]["name"]))
    return bytes(img), symaddr, stubs


I, U, L, P, FN = "int32_t", "uint32_t", "int64_t", "buf", "fn"
KERNELS = [
    ("k_adc64", L, [I, I], "int64_t x = ((int64_t)a << 31) + (uint32_t)b; int64_t y = ((int64_t)b << 29) - a; return x + y - (x > y) + (x == y);"),
    ("k_cmp64", I, [I, I], "int64_t x = (int64_t)a * 3, y = (int64_t)b * 5 + a; uint64_t ux = x, uy = y; return (x < y) + 2 * (ux < uy) + 4 * (x >= y) + 8 * (ux <= uy);"),
    ("k_shift64", L, [I, I], "uint64_t x = ((uint64_t)(uint32_t)a << 32) | (uint32_t)b; int n = b & 63; return (int64_t)((x << n) ^ (x >> n) ^ (uint64_t)((int64_t)x >> (a & 63)));"),
    ("k_shreg", U, [U, U], "uint32_t n = b & 63; uint32_t r = 0; if (n < 32) r = (a << n) + (a >> n) + (uint32_t)((int32_t)a >> n); return r + (b & 255);"),
    ("k_condsel", I, [I, I], "int r = a > b ? a : b; r += (a < 0) ? -a : a; r ^= (b & 1) ? 0x55 : 0xAA00; if (a == b) r++; if ((unsigned)a > (unsigned)b) r += 7; if ((unsigned)a <= 100u) r -= 3; return r;"),
    ("k_flags", I, [I, I], "int r = 0; if (a + b < 0) r |= 1; if (a - b == 0) r |= 2; if ((a & b) != 0) r |= 4; if ((a ^ b) < 0) r |= 8; if (a > 0 && b > 0 && a + b < 0) r |= 16; if ((unsigned)(a + b) < (unsigned)a) r |= 32; return r;"),
    ("k_bitfield", I, [I, I], "struct { unsigned x : 5; int y : 7; unsigned z : 12; int w : 8; } s; s.x = a; s.y = b; s.z = a ^ b; s.w = a + b; s.y += 3; s.z >>= 2; return s.x + s.y * 3 + s.z * 5 + s.w * 7;"),
    ("k_bits", U, [U, U], "return __builtin_bswap32(a) ^ (uint32_t)__builtin_clz(b | 1) ^ ((a >> 7) & 0x1ff) ^ ((b << 11) | (a >> 21)) ^ (uint32_t)__builtin_bswap16((uint16_t)b);"),
    ("k_ext", I, [I, I], "int8_t x = (int8_t)a; int16_t y = (int16_t)b; uint8_t u = (uint8_t)(a >> 8); uint16_t v = (uint16_t)(b >> 8); return x * y + u - v + (int8_t)(a >> 16) + (int16_t)(a >> 12) + b;"),
    ("k_mulhi", I, [I, I], "int64_t p = (int64_t)a * b; uint64_t q = (uint64_t)(uint32_t)a * (uint32_t)b; return (int32_t)(p >> 32) ^ (int32_t)(q >> 32) ^ (int32_t)(q >> 7);"),
    ("k_mla", I, [I, I], "int s = a; for (int i = 0; i < 5; i++) s = s * b + i * a - (s >> 3) * i; return s;"),
    ("k_mac16", I, [I, I], "int16_t x = (int16_t)a, y = (int16_t)b, z = (int16_t)(a >> 16), w = (int16_t)(b >> 16); return x * y + z * w + x * w;"),
    ("k_divc", I, [I, I], "return a / 7 + b / -3 + a % 10 + (int)((uint32_t)a / 10u) + (int)((uint32_t)b % 1000u) + a / 16 + b % 8;"),
    ("k_divv", I, [I, I], "int d = (b & 0xffff) + 1; unsigned e = ((unsigned)a >> 20) + 3; return a / d + a % d + (int)((unsigned)b / e) + (int)((unsigned)b % e);"),
    ("k_switch", I, [I, I], "switch (a & 7) { case 0: return b; case 1: return b + 10; case 2: return b * 3; case 3: return -b; case 4: return b ^ 0x55; case 5: return b >> 2; case 6: return b << 3; default: return 99; }"),
    ("k_bytes", I, [P, I], "int s = 0; for (int i = 0; i < 12; i++) { s += (int8_t)a[i] * (i + 1) + a[i + 1]; a[i] = (uint8_t)(s ^ b); } return s;"),
    ("k_halfs", I, [P, I], "int16_t *h = (int16_t *)a; uint16_t *g = (uint16_t *)a; int s = 0; for (int i = 0; i < 8; i++) { s += h[i] - g[7 - i] / 3; h[i] = (int16_t)(s + b); } return s;"),
    ("k_words", I, [P, I], "uint32_t *w = (uint32_t *)a; uint32_t s = b; for (int i = 0; i < 6; i++) { s = s * 31 + w[i]; w[i + 1] ^= s >> (i + 1); } return (int)s;"),
    ("k_struct", I, [P, I], "struct Q { int32_t a; int16_t b; int8_t c; uint8_t d; int64_t e; } *q = (struct Q *)a; q->e += (int64_t)q->a * b; q->b = (int16_t)(q->b + q->c); q->d ^= (uint8_t)b; return (int)(q->e >> 16) + q->b + q->d;"),
    ("k_stack", I, [I, I], "volatile int t[12]; volatile short u[6]; for (int i = 0; i < 12; i++) t[i] = a * i + b; for (int i = 0; i < 6; i++) u[i] = (short)(t[i] ^ t[11 - i]); int s = 0; for (int i = 0; i < 6; i++) s += u[i] * (i + 1); return s;"),
    ("k_manyargs", I, [I, I, I, I, I, I], "return k_leaf6(f, e, d, c, b, a) + k_leaf6(a, b, c, d, e, f) * 3;"),
    ("k_rec", I, [I, I], "if ((a & 7) == 0) return b; return k_rec((a & 7) - 1, b * 3 + a) + 1;"),
    ("k_sat", I, [I, I], "int64_t x = (int64_t)a + b; if (x > 32767) x = 32767; if (x < -32768) x = -32768; unsigned u = (unsigned)(a ^ b); if (u > 255) u = 255; return (int)x * 256 + (int)u;"),
    ("k_abs", I, [I, I], "int x = a < 0 ? -a : a; int y = b < 0 ? -b : b; int m = x < y ? x : y; unsigned d = a > b ? (unsigned)a - (unsigned)b : (unsigned)b - (unsigned)a; return (int)(m + d);"),
    ("k_carry", U, [U, U], "uint32_t lo = a + b; uint32_t c = lo < a; uint32_t hi = a - b; uint32_t d = a < b; return (lo ^ hi) + c * 3 + d * 5 + ((a + b + c) >> 1);"),
    ("k_rot", U, [U, U], "return ((a >> 8) | (a << 24)) + ((b << 5) | (b >> 27)) ^ (~a & b) ^ (a | ~b);"),
    ("k_cmn", I, [I, I], "int r = 0; if (a == -5) r += 1; if (b > -100) r += 2; if (a + 1000 < b) r += 4; if ((a & 0xff00) == 0) r += 8; if ((b & 0x80000001) != 0) r += 16; return r * 7 - (a == -b);"),
    ("k_const", I, [I, I], "return a * 100000 + b * 255 + 0x12345678 - (a & 0x00ff00ff) + (b | 0xff00ff00) - 0x101 + (a ^ 0x80000000) + 65537 * b;"),
]
KPRELUDE = """
static __attribute__((noinline)) int32_t k_leaf6(int32_t a, int32_t b, int32_t c, int32_t d, int32_t e, int32_t f) { return a + 2 * b - 3 * c + 4 * d - 5 * e + 6 * f; }
int32_t k_rec(int32_t a, int32_t b);
"""
V7 = [0, 1, -1, -2147483648, 2147483647, 2, 2147483646]
BUF0 = bytes((i * 37 + 11) & 0xFF for i in range(64))
NAMES = "abcdefgh"
RENAME = re.compile(r"\b(f|g|h|t|set|S|fact|inc|dec)\b")
BUILDS = [("a32", ["-target", "armv7a-none-eabi", "-marm"], False, False), ("v7m", ["-target", "armv7m-none-eabi", "-mthumb"], True, False),
          ("v6m", ["-target", "armv6m-none-eabi", "-mthumb"], True, True)]
OPTS = ("-O0", "-O1", "-Os")


def exec_functions():
    """-> (C source, [(name, ret, params, globals-prefix | None)])"""
    sys.path.insert(0, os.path.dirname(os.path.abspath(__file__)))
    import test_rv32
    from vf.gen import ccorpus
    out = [test_rv32.PRELUDE, KPRELUDE, "int ext(int);\n"]
    fns = []
    for name, ret, params, body in list(test_rv32.LEAVES) + KERNELS:
        ps = ", ".join("%s %s" % ("unsigned char *" if t == P else t, NAMES[k]) for k, t in enumerate(params))
        out.append("%s %s(%s) { %s }\n" % (ret, name, ps, body))
        fns.append((name, ret, params, None))
    for k, (name, src) in enumerate(ccorpus.CORPUS):
        if name == "float_mix":
            continue                                    # needs the soft-float library
        src = RENAME.sub(lambda m: "%s_%d" % (m.group(1), k), src).replace("int ext(int);", "")
        out.append(src + "\n")
        nargs = src[src.index("f_%d(" % k):].split(")")[0].count("int ")
        fns.append(("f_%d" % k, I, [I] * nargs, "_%d" % k))
    return "".join(out), fns


def vectors(params, salt):
    n = sum(1 for t in params if t not in (P, FN))
    if n <= 2:
        vs = list(itertools.product(V7, repeat=n))
        if len(vs) > 9:
            vs = [vs[(5 * j + 11 * salt) % len(vs)] for j in range(9)] + [(3, 5)[:n] + (0,) * 0]
    else:
        vs = [tuple(V7[(k * 3 + j + salt) % 7] for k in range(n)) for j in range(4)] + [tuple(range(1, n + 1))]
    return vs


def aeabi_hooks(stubs, trace):
    S = arm32._sgn
    M = 0xFFFFFFFF

    def r64(m, lo):
        return m.r[lo] | (m.r[lo + 1] << 32)

    def w64(m, v):
        m.r[0], m.r[1] = v & M, (v >> 32) & M

    def idiv(m):
        m.r[0] = arm32._divq(S(m.r[0]), S(m.r[1])) & M

    def uidiv(m):
        m.r[0] = m.r[0] // m.r[1]

    def idivmod(m):
        a, b = S(m.r[0]), S(m.r[1])
        q = arm32._divq(a, b)
        m.r[0], m.r[1] = q & M, (a - q * b) & M

    def uidivmod(m):
        m.r[0], m.r[1] = m.r[0] // m.r[1], m.r[0] % m.r[1]

    def ext(m):
        trace.append(S(m.r[0]))
        m.r[0] = (3 * m.r[0] + 1) & M
    table = {"__aeabi_idiv": idiv, "__aeabi_uidiv": uidiv, "__aeabi_idivmod": idivmod, "__aeabi_uidivmod": uidivmod, "ext": ext,
             "__clzsi2": lambda m: m.r.__setitem__(0, 32 - m.r[0].bit_length()),
             "__bswapsi2": lambda m: m.r.__setitem__(0, int.from_bytes(m.r[0].to_bytes(4, "little"), "big")),
             "__aeabi_lmul": lambda m: w64(m, r64(m, 0) * r64(m, 2)), "__aeabi_llsl": lambda m: w64(m, r64(m, 0) << (m.r[2] & 63) if m.r[2] < 64 else 0),
             "__aeabi_llsr": lambda m: w64(m, r64(m, 0) >> m.r[2] if m.r[2] < 64 else 0),
             "__aeabi_lasr": lambda m: w64(m, arm32.sx(r64(m, 0), 64) >> min(m.r[2], 63))}
    missing = set(stubs) - set(table)
    assert not missing, "no host implementation for %s" % sorted(missing)
    return {a: table[n] for n, a in stubs.items()}


def test_clang_functions_against_gcc(tmp_path=None):
    d = str(tmp_path) if tmp_path is not None else os.path.join(os.path.dirname(os.path.dirname(os.path.abspath(__file__))), "build", "test_arm32.%d" % os.getpid())
    os.makedirs(d, exist_ok=True)
    try:
        _run_exec(d)
    finally:
        if tmp_path is None:
            shutil.rmtree(d, ignore_errors=True)


def _run_exec(d):
    csrc, fns = exec_functions()
    src = os.path.join(d, "k.c")
    open(src, "w").write(csrc)
    nat = os.path.join(d, "nat.c")
    open(nat, "w").write(csrc + "\nint ext_trace[64]; int ext_n; int ext(int x) { if (ext_n < 64) ext_trace[ext_n++] = x; return 3 * x + 1; }\n")
    so = os.path.join(d, "k.so")
    procs = [subprocess.Popen(["gcc", "-O1", "-shared", "-fPIC", "-fwrapv", "-fno-strict-aliasing", "-funsigned-char", "-w", "-o", so, nat])]
    for tag, flags, thumb, strict in BUILDS:
        for opt in OPTS:
            procs.append(subprocess.Popen(["clang-14"] + flags + [opt, "-ffreestanding", "-fno-builtin", "-fwrapv", "-fno-strict-aliasing", "-w", "-c", src, "-o",
                                           os.path.join(d, "k_%s%s.o" % (tag, opt))]))
    for pr in procs:
        assert pr.wait() == 0
    lib = ctypes.CDLL(so)
    CT = {I: ctypes.c_int32, U: ctypes.c_uint32, L: ctypes.c_int64, P: ctypes.c_char_p, FN: ctypes.c_void_p}
    LOAD, STUBS, BUF, MEM = 0x1000, 0x800, 0x30000, 1 << 18
    total, salt = 0, 0
    executed = {}
    for tag, flags, thumb, strict in BUILDS:
        for opt in OPTS:
            salt += 1
            img, syms, stubs = link_object(os.path.join(d, "k_%s%s.o" % (tag, opt)), LOAD, STUBS, thumb)
            assert LOAD + len(img) < BUF
            trace = []
            hooks = aeabi_hooks(stubs, trace)
            globs = sorted(n for n, (a, sz) in syms.items() if sz and not (a & 1 if thumb else False) and re.search(r"_\d+$", n)
                           and hasattr(lib, n) and not n.startswith(("f_", "h_", "set_", "fact_", "inc_", "dec_")))
            init = {n: bytes(img[syms[n][0] - LOAD:syms[n][0] - LOAD + syms[n][1]]) for n in globs}
            names = executed.setdefault(tag, set())
            for name, ret, params, gsuffix in fns:
                fn = getattr(lib, name)
                fn.restype = CT[ret]
                fn.argtypes = [CT[t] for t in params]
                mine = [n for n in globs if gsuffix and n.endswith(gsuffix)]
                for vec in vectors(params, salt):
                    nat_buf = ctypes.create_string_buffer(BUF0, len(BUF0))
                    for n in mine:
                        ctypes.memmove(ctypes.addressof((ctypes.c_char * len(init[n])).in_dll(lib, n)), init[n], len(init[n]))
                    ctypes.c_int.in_dll(lib, "ext_n").value = 0
                    it = iter(vec)
                    nat_args, emu_args = [], []
                    for t in params:
                        if t == P:
                            nat_args.append(nat_buf)
                            emu_args.append(BUF)
                        elif t == FN:
                            nat_args.append(ctypes.cast(lib.helper2, ctypes.c_void_p))
                            emu_args.append(syms["helper2"][0])
                        else:
                            v = next(it)
                            nat_args.append(v & 0xFFFFFFFF if t == U else v)
                            emu_args.append(v)
                    want = fn(*nat_args)
                    want_trace = list((ctypes.c_int * 64).in_dll(lib, "ext_trace")[:ctypes.c_int.in_dll(lib, "ext_n").value])
                    del trace[:]
                    regs0 = {r: 0xA5000000 + 0x1111 * r for r in range(4, 13)}
                    res = arm32.run(img, LOAD, syms[name][0], emu_args[:4], max_steps=40000, mem_size=MEM, extra_images=[(BUF, BUF0)], strict_align=strict,
                                    trace=True, hooks=hooks, thumb=thumb, stack_args=emu_args[4:], init_regs=regs0)
                    m = res.machine
                    for pc, th in set(m.trace):
                        i = m.fetch(pc, th)
                        names.add(i.name + ("<c>" if i.cond != 14 and i.k != "b" else ""))
                        if th and i.k == "it":
                            names.add("it")
                    if ret == L:
                        got = arm32.sx(res.r0 | (res.r1 << 32), 64)
                    elif ret == U:
                        got = res.r0
                    else:
                        got = arm32.sx(res.r0, 32)
                    ident = (tag, opt, name, vec)
                    assert got == want, (ident, got, want)
                    assert trace == want_trace, (ident, "ext calls", trace, want_trace)
                    o = BUF - m.base
                    assert bytes(m.mem[o:o + len(BUF0)]) == nat_buf.raw, (ident, "buffer differs")
                    for n in mine:
                        a, sz = syms[n]
                        assert bytes(m.mem[a - m.base:a - m.base + sz]) == bytes((ctypes.c_char * sz).in_dll(lib, n)), (ident, "global", n)
                    want_sp = (m.base + len(m.mem) - 16 - 4 * len(emu_args[4:])) & 0xFFFFFFF8 if emu_args[4:] else m.base + len(m.mem) - 16
                    assert res.regs[13] == want_sp, (ident, "sp not restored")
                    assert all(res.regs[r] == regs0[r] for r in range(4, 12)), (ident, "callee-saved register clobbered")
                    total += 1
    print("function runs:", total)
    for tag in executed:
        print(tag, len(executed[tag]), sorted(executed[tag]))
    common = {"adc", "add", "and", "b", "bic", "bl", "blx", "bx", "cmn", "cmp", "eor", "ldm", "ldr", "ldrb", "ldrh", "ldrsb", "ldrsh", "mov", "mul", "mvn", "orr", "rev",
              "rsb", "sbc", "stm", "str", "strb", "strh", "sub", "sxtb", "sxth", "tst", "uxtb"}
    need = {"a32": common | {"add<c>", "mov<c>", "bx<c>", "mla", "mls", "smull", "umull", "smlal", "movw", "movt", "clz", "ubfx", "sbfx", "bfi", "smulbb", "qadd"},
            "v7m": common | {"it", "cbz", "cbnz", "sdiv", "udiv", "tbb", "ldrd", "strd", "mla", "mls", "smull", "umull", "movw", "movt", "clz", "ubfx", "bfi", "orn", "uxth"},
            "v6m": common | {"adr", "uxth"}}
    for tag in need:
        assert need[tag] <= executed[tag], (tag, sorted(need[tag] - executed[tag]))
    return executed


# ------------------------------------------------------------------------------------------------ (c) direct assertions

def assemble(src, thumb, d):
    """assemble with llvm-mc (independent encoder) -> bytes of .text"""
    o, b = os.path.join(d, "s.o"), os.path.join(d, "s.bin")
    flags = THUMB_FLAGS if thumb else ARM_FLAGS
    r = subprocess.run([LLVM_MC, "-filetype=obj", "-o", o] + flags, input=".syntax unified\n.text\n" + src + "\n", capture_output=True, text=True)
    assert r.returncode == 0, r.stderr
    subprocess.run(["llvm-objcopy", "-O", "binary", "--only-section=.text", o, b], check=True)
    return open(b, "rb").read()


MARK = bytes.fromhex("deadbeeffeed")


def assemble_all(fn, d):
    """assemble every string literal passed to A(...) / T(...) / asm(...) in the source of `fn` with two llvm-mc runs -> {(thumb, src): bytes}"""
    import ast
    import inspect
    src = inspect.getsource(fn)
    lit = lambda tag: [ast.literal_eval('"%s"' % m) for m in re.findall(tag + r'\("((?:[^"\\]|\\.)*)"\)', src)]  # noqa
    out = {}
    for thumb, tag in ((False, "A"), (True, "T")):
        ss = sorted(set(lit(r"\b" + tag) + lit(r"\basm")))
        body = "".join(".org %d\n%s\n.byte 0xde,0xad,0xbe,0xef,0xfe,0xed\n" % (256 * k, re.sub(r"\bl\b", "l%d" % k, s)) for k, s in enumerate(ss))
        data = assemble(body, thumb, d)
        for k, s in enumerate(ss):
            slot = data[256 * k:256 * (k + 1)]
            out[(thumb, s)] = slot[:slot.rindex(MARK)]
    return out


def _scratch():
    d = os.path.join(os.path.dirname(os.path.dirname(os.path.abspath(__file__))), "build", "test_arm32c.%d" % os.getpid())
    os.makedirs(d, exist_ok=True)
    return d


def test_thumb16_spelling_inside_it_blocks():
    """16-bit instructions as members of an IT block: LLVM prints them with the condition and without the 's' the encoding shows
    outside an IT block; the emulator's text(insn, 'eq') must agree (this pins which encodings set flags only outside IT blocks)."""
    hs = []
    for h in range(0, 0xE800, 3):
        try:
            i = arm32.decode_thumb(h)
        except arm32.IllegalInstruction:
            continue
        if i.k in ("it", "cbz", "trap") or i.aux in ("bcond", "movs-t2") or (i.k == "nop" and i.name != "nop"):
            continue
        hs.append(h)
    blobs = [bytes.fromhex("08bf") + h.to_bytes(2, "little") for h in hs]        # it eq ; insn
    blk = lambda b: "[" + ",".join("0x%02x" % x for x in b) + "]\n"  # noqa
    r = subprocess.run([LLVM_MC, "--disassemble"] + THUMB_FLAGS, input="".join(blk(b) + blk(THUMB_SENT) for b in blobs), capture_output=True, text=True)
    lines = [re.sub(r"\s+", " ", re.sub(r"\s+@.*$", "", x).strip()) for x in r.stdout.splitlines() if x.startswith("\t") and not x.startswith("\t.")]
    chunks, cur = [], []
    for x in lines:
        if x == "wfi":
            chunks.append(cur)
            cur = []
        else:
            cur.append(x)
    assert len(chunks) == len(hs)
    same, bad = 0, []
    for h, c in zip(hs, chunks):
        mine = arm32.text(arm32.decode_thumb(h), "eq")
        if len(c) == 2 and c[0] == "it eq" and c[1].replace(".w", "") == mine:
            same += 1
        else:
            bad.append((hex(h), mine, c))
    print("T16 inside IT:", len(hs), "same", same)
    assert not bad, (len(bad), bad[:20])


def test_flags_it_interworking_alignment():
    d = _scratch()
    try:
        pre = assemble_all(test_flags_it_interworking_alignment, d)
        A = lambda s: pre[(False, s)]  # noqa
        T = lambda s: pre[(True, s)]  # noqa

        def flags(code, args, thumb=False):
            m = arm32.run(code, 0x100, 0x100, args, thumb=thumb).machine
            return (m.n, m.z, m.c, m.v)
        for thumb, asm in ((False, A), (True, T)):
            adds, subs = asm("adds r0, r0, r1\nbx lr"), asm("subs r0, r0, r1\nbx lr")
            assert flags(adds, [0x7FFFFFFF, 1], thumb) == (1, 0, 0, 1)
            assert flags(adds, [0xFFFFFFFF, 1], thumb) == (0, 1, 1, 0)
            assert flags(adds, [0x80000000, 0x80000000], thumb) == (0, 1, 1, 1)
            assert flags(subs, [0, 1], thumb) == (1, 0, 0, 0)
            assert flags(subs, [5, 5], thumb) == (0, 1, 1, 0)
            assert flags(subs, [0x80000000, 1], thumb) == (0, 0, 1, 1)
            lsls = asm("lsls r0, r0, r1\nbx lr")
            for a, n, res, c in ((1, 32, 0, 1), (1, 33, 0, 0), (0x80000001, 1, 2, 1), (3, 0, 3, None), (1, 256, 1, None), (1, 0x120, 0, 1)):
                r = arm32.run(lsls, 0x100, 0x100, [a, n], thumb=thumb)
                assert r.r0 == res and (c is None or r.machine.c == c), (thumb, a, n, r.r0, r.machine.c)
            asrs = asm("asrs r0, r0, r1\nbx lr")
            r = arm32.run(asrs, 0x100, 0x100, [0x80000000, 40], thumb=thumb)
            assert r.r0 == 0xFFFFFFFF and r.machine.c == 1
            rors = asm("rors r0, r0, r1\nbx lr")
            r = arm32.run(rors, 0x100, 0x100, [0x80000001, 32], thumb=thumb)
            assert r.r0 == 0x80000001 and r.machine.c == 1
            r = arm32.run(asm("adds r0, r0, r1\nadcs r0, r0, r0\nsbcs r0, r0, r1\nbx lr"), 0x100, 0x100, [0xFFFFFFFF, 2], thumb=thumb)
            assert r.r0 == 0 and r.machine.z == 1, hex(r.r0)
        # carry out of the A32 shifter operand / modified immediate, rrx
        r = arm32.run(A("movs r2, r1, lsr #1\nadc r0, r0, #0\nmov r3, r1, rrx\nmovs r2, #0xf0000000\nadc r0, r0, r3\nbx lr"), 0x100, 0x100, [10, 3])
        assert r.r0 == (10 + 1 + (0x80000001) + 1) & 0xFFFFFFFF, hex(r.r0)
        # pc reads: A32 pc+8, Thumb pc+4 word-aligned for adr / literal loads
        assert arm32.run(A("mov r0, pc\nbx lr"), 0x100, 0x100).r0 == 0x108
        assert arm32.run(T("mov r0, pc\nbx lr"), 0x100, 0x100, thumb=True).r0 == 0x104
        assert arm32.run(T("nop\nadr r0, l\nbx lr\n.balign 4\nl: .word 7"), 0x100, 0x100, thumb=True).r0 == 0x108
        assert arm32.run(T("nop\nldr r0, l\nbx lr\n.balign 4\nl: .word 0x12345678"), 0x100, 0x100, thumb=True).r0 == 0x12345678
        assert arm32.run(A("ldr r0, l\nbx lr\nl: .word 0x12345678"), 0x100, 0x100).r0 == 0x12345678
        # IT blocks: conditions are evaluated per instruction; 16-bit adds does not set flags inside
        it = T("cmp r0, r1\nitt eq\naddeq r2, #1\naddeq r2, #1\nite lt\nmovlt r0, #1\nmovge r0, #2\nadd r0, r0, r2, lsl #4\nbx lr")
        assert arm32.run(it, 0x100, 0x100, [5, 5, 0], thumb=True).r0 == 2 + 32
        assert arm32.run(it, 0x100, 0x100, [4, 5, 0], thumb=True).r0 == 1
        assert arm32.run(it, 0x100, 0x100, [6, 5, 0], thumb=True).r0 == 2
        try:
            arm32.run(T(".short 0xbf08, 0xd001\nbx lr"), 0x100, 0x100, thumb=True)           # conditional branch inside an IT block
            raise AssertionError
        except arm32.IllegalInstruction:
            pass
        # interworking: ARM -> Thumb via bx, Thumb return via bx lr to the (ARM) sentinel; blx links with the Thumb bit
        code = A("bx r1") + T("movs r0, #7\nbx lr")
        assert arm32.run(code, 0x100, 0x100, [0, 0x105]).r0 == 7
        code = T("push {r4, lr}\nblx r1\nadds r0, #1\npop {r4, pc}\n.balign 4") + A("mov r0, lr\nbx lr")
        assert arm32.run(code, 0x100, 0x100, [0, 0x108], thumb=True).r0 == 0x105 + 1
        # push/pop order and writeback, ldm/stm modes
        r = arm32.run(A("push {r0, r1, r2}\npop {r2, r3}\npop {r1}\nstmib sp, {r0, r3}\nldmib sp, {r0, r12}\nadd r0, r0, r12\nbx lr"), 0x100, 0x100, [1, 2, 3])
        assert (r.r0, r.regs[1], r.regs[2], r.regs[3]) == (1 + 2, 3, 1, 2) and r.regs[13] == (1 << 18) - 16
        r = arm32.run(A("stmda r1, {r2, r3}\nldmdb r1!, {r0}\nbx lr"), 0x100, 0x100, [0, 0x1000, 5, 6])
        assert r.r0 == 5 and r.regs[1] == 0xFFC and r.machine.read(0x1000, 4) == 6
        # alignment
        un = A("ldr r0, [r1]\nbx lr")
        img = [(0x2000, bytes(range(16)))]
        assert arm32.run(un, 0x100, 0x100, [0, 0x2001], extra_images=img).r0 == 0x04030201
        for bad, kw in ((un, {"strict_align": True}), (A("ldm r1, {r0, r2}\nbx lr"), {}), (A("ldrd r2, r3, [r1]\nbx lr"), {})):
            try:
                arm32.run(bad, 0x100, 0x100, [0, 0x2001], extra_images=img, **kw)
                raise AssertionError("no alignment fault")
            except arm32.MisalignedAccess:
                pass
        # step limit, traps, refused encodings, hooks
        for code, exc, thumb in ((A("b ."), arm32.StepLimit, False), (T("b ."), arm32.StepLimit, True), (A("bkpt #1"), arm32.Trap, False), (T("udf #1"), arm32.Trap, True),
                                 (A("svc #0"), arm32.Trap, False), (A("vadd.f32 s0, s0, s1"), arm32.IllegalInstruction, False), (T("wfi"), arm32.IllegalInstruction, True),
                                 (A("mrs r0, apsr"), arm32.IllegalInstruction, False), (T("dmb"), arm32.IllegalInstruction, True)):
            try:
                arm32.run(code, 0x100, 0x100, max_steps=50, thumb=thumb)
                raise AssertionError("no %s" % exc.__name__)
            except exc:
                pass

        def host(m):
            m.r[0] = (m.r[0] * 10 + m.r[1]) & 0xFFFFFFFF
        for thumb, asm in ((False, A), (True, T)):
            code = asm("push {r4, lr}\nmov r4, r2\nblx r3\nadd r0, r0, r4\npop {r4, pc}")
            assert arm32.run(code, 0x100, 0x100, [4, 2, 100, 0x801 if thumb else 0x800], thumb=thumb, hooks={0x800: host}).r0 == 142
        # divide: truncation, division by zero gives 0 (no trap), INT_MIN / -1
        for thumb, asm in ((False, A), (True, T)):
            sd, ud = asm("sdiv r0, r0, r1\nbx lr"), asm("udiv r0, r0, r1\nbx lr")
            for a, b, q in ((-7, 2, -3), (7, -2, -3), (7, 0, 0), (-2147483648, -1, -2147483648)):
                assert arm32.sx(arm32.run(sd, 0x100, 0x100, [a, b], thumb=thumb).r0, 32) == q
            assert arm32.run(ud, 0x100, 0x100, [0xFFFFFFFF, 2], thumb=thumb).r0 == 0x7FFFFFFF
            assert arm32.run(ud, 0x100, 0x100, [5, 0], thumb=thumb).r0 == 0
    finally:
        shutil.rmtree(d, ignore_errors=True)


if __name__ == "__main__":
    import time
    t0 = time.time()
    for name, fn in sorted(globals().items()):
        if name.startswith("test_") and (len(sys.argv) < 2 or any(a in name for a in sys.argv[1:])):
            t1 = time.time()
            fn()
            print("  %s ok %.1fs" % (name, time.time() - t1))
    print("ok %.1fs" % (time.time() - t0))
