"""Self-checks of the K3 schedule explorer (vf/sched.py) on toy programs."""
import os
import sys
import time
import threading

import pytest

sys.path.insert(0, os.path.dirname(os.path.dirname(os.path.abspath(__file__))))

from vf import sched  # noqa: E402


def leftover():
    """Scheduler threads still alive (other pytest plugins may own unrelated threads)."""
    return [t for t in threading.enumerate() if t.name.startswith("vf-")]


class Counter:
    def __init__(self):
        self.x = 0


def lost_update(s):
    """Two threads do a non-atomic increment: read under the lock, write under the lock."""
    c = Counter()
    lock = sched.Lock()

    def worker():
        with lock:
            tmp = c.x
        with lock:
            c.x = tmp + 1

    s.spawn("a", worker)
    s.spawn("b", worker)
    return c


def finals(bound):
    ex = sched.Explorer(lost_update)
    out = []
    for e in ex.dfs(bound):
        assert e.end == "done"
        out.append((e.harness.x, e))
    return ex, out


def test_lost_update_not_at_bound_0():
    ex, out = finals(0)
    assert len(out) >= 2          # the free choice of the first thread still branches
    assert {x for x, _ in out} == {2}


def test_lost_update_found_at_bound_1_and_replays():
    t0 = time.time()
    ex, out = finals(1)
    bad = [e for x, e in out if x == 1]
    assert bad, "lost update must be reachable with one preemption"
    assert all(e.preemptions == 1 for e in bad)
    assert {x for x, _ in out} == {1, 2}
    # iterative bounding yields every schedule once, cheapest first
    seen = [(b, e.cost) for b, e in sched.Explorer(lost_update).explore(1)]
    assert all(b == c for b, c in seen) and len(seen) == len(out)
    # a failing schedule reproduces identically, twice, from its bare choice list
    e = bad[0]
    assert ex.confirm(e, lambda r: (r.harness.x, r.end, r.events))
    r = ex.replay(e.choices())
    assert r.harness.x == 1 and r.choices() == e.choices()
    assert time.time() - t0 < 5
    sched.shutdown_pool()
    assert not leftover()  # nothing left behind


def test_replay_divergence_is_a_hard_error():
    ex, out = finals(1)
    e = [e for x, e in out if x == 1][0]
    pre = e.prefix()
    i, fp = pre[-1]
    pre[-1] = (i, fp[:1] + (7,) + fp[2:])  # recorded option set that cannot be met
    with pytest.raises(sched.SchedError):
        ex.replay(pre)
    with pytest.raises(sched.SchedError):
        ex.replay(e.choices() + [0, 0, 0, 0, 0, 0, 0, 0])  # more decisions than the execution has
    sched.shutdown_pool()
    assert not leftover()


def test_deadlock_found_with_one_preemption():
    def prog(s):
        l1, l2 = sched.Lock(), sched.Lock()

        def a():
            with l1:
                with l2:
                    pass

        def b():
            with l2:
                with l1:
                    pass

        s.spawn("a", a)
        s.spawn("b", b)

    assert {e.end for e in sched.Explorer(prog).dfs(0)} == {"done"}
    assert {e.end for e in sched.Explorer(prog).dfs(1)} == {"done", "deadlock"}
    sched.shutdown_pool()
    assert not leftover()


def test_timeouts_are_virtual_and_only_fire_when_nothing_is_enabled():
    def prog(s):
        q = sched.Queue(maxsize=1)
        res = []

        def consumer():
            try:
                res.append(q.get(timeout=1000.0))
                res.append(q.get(timeout=1000.0))
            except sched.Empty:
                res.append("empty")

        def producer():
            q.put("x", timeout=1000.0)

        s.spawn("c", consumer)
        s.spawn("p", producer)
        return res

    t0 = time.time()
    exs = list(sched.Explorer(prog, timeout_cost=1).dfs(3))
    assert time.time() - t0 < 3
    # the first get is always served (the producer is enabled, so no timeout is offered);
    # the second can only time out
    assert {tuple(e.harness) for e in exs} == {("x", "empty")}
    assert all(e.timeouts == 1 and e.cost >= 1 and e.now == 1000.0 for e in exs)
    # with no budget for the deviation the execution is pruned, not misreported
    assert {e.end for e in sched.Explorer(prog, timeout_cost=1).dfs(0)} == {"pruned"}
    sched.shutdown_pool()
    assert not leftover()


def test_thread_death_and_service_threads():
    def prog(s):
        q = sched.Queue()
        s.idle_on(q)

        def service():
            while True:
                q.get()

        def user():
            q.put(1)
            raise KeyError("boom")

        s.spawn("user", user)
        s.spawn("svc", service, service=True)

    for e in sched.Explorer(prog).dfs(1):
        assert e.end == "done"
        names = {n: (fin, type(exc).__name__ if exc else None) for n, fin, exc, svc, lab in e.threads}
        assert names["user"] == (True, "KeyError")
        assert names["svc"] == (False, None)
    sched.shutdown_pool()
    assert not leftover()


def test_reading_queue_state_is_a_scheduling_point():
    def prog(s):
        q = sched.Queue()

        def worker():
            if q.empty():
                q.put(1)

        s.spawn("a", worker)
        s.spawn("b", worker)
        return q

    assert {len(e.harness._items) for e in sched.Explorer(prog).dfs(0)} == {1}
    assert {len(e.harness._items) for e in sched.Explorer(prog).dfs(1)} == {1, 2}
    sched.shutdown_pool()
    assert not leftover()


def racy_increment(c):
    tmp = c.x
    tmp = tmp + 1
    c.x = tmp


def test_line_granular_points_find_an_unsynchronised_race():
    def prog(s):
        c = Counter()
        s.spawn("a", lambda: racy_increment(c))
        s.spawn("b", lambda: racy_increment(c))
        return c

    # without line points the increments are atomic for the scheduler
    assert {e.harness.x for e in sched.Explorer(prog).dfs(2)} == {2}
    ex = sched.Explorer(prog, trace_files=(os.path.abspath(__file__).replace(".pyc", ".py"),))
    assert {e.harness.x for e in ex.dfs(0)} == {2}
    assert {e.harness.x for e in ex.dfs(1)} == {1, 2}
    sched.shutdown_pool()
    assert not leftover()
