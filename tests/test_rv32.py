"""Validation of the reference RV32IMC emulator vf/sem/rv32.py (DESIGN 3.3).

(a) decode: every 16-bit encoding (all 49152 halfwords whose low bits are not 11) and a boundary lattice of 32-bit encodings is
    decoded by rv32.decode and by `llvm-mc --disassemble -triple=riscv32 -mattr=+c,+m -M no-aliases`; wherever the emulator
    decodes, the printed instruction must be identical; wherever it refuses and LLVM decodes, the refusal must fall in a named,
    spec-justified class (never a silent gap).
(b) execution: leaf C functions compiled by `clang --target=riscv32 -march=rv32imc -mabi=ilp32 -O1 -c` (and -O0, -Os), .text
    extracted with llvm-objcopy, run on the emulator; results (a0 / a1:a0 and the argument buffer) must equal the same C
    compiled natively by gcc and called through ctypes.
(c) the M-extension corner cases of the manual's table (division by zero, overflow) as direct assertions.

Run:  /venv/bin/python -m pytest -q tests/test_rv32.py      (< 20 s)
"""
import os
import re
import sys
import ctypes
import shutil
import itertools
import subprocess

sys.path.insert(0, os.path.dirname(os.path.dirname(os.path.abspath(__file__))))

from vf.sem import rv32  # noqa: E402

FLAGS = ["-triple=riscv32", "-mattr=+c,+m", "-M", "no-aliases"]
SENT = bytes.fromhex("73005010")   # wfi: never produced by the lattice below


def llvm_decode(blobs):
    """one text (or None when LLVM reports an invalid encoding) per blob; each blob is followed by a sentinel"""
    base = ["llvm-mc", "--disassemble"] + FLAGS
    blk = lambda b: "[" + " ".join("0x%02x" % x for x in b) + "]\n"  # noqa
    src = "".join(blk(b) + blk(SENT) for b in blobs)
    r = subprocess.run(base, input=src, capture_output=True, text=True)
    bad = set((int(m.group(1)) - 1) // 2 for m in re.finditer(r":(\d+):\d+: warning", r.stderr))
    chunks, cur = [], []
    for line in r.stdout.splitlines():
        if not line.startswith("\t") or line.startswith("\t."):
            continue
        t = re.sub(r"\s+#.*$", "", line).strip().replace("\t", " ")
        if t == "wfi":
            chunks.append(cur)
            cur = []
        else:
            cur.append(t)
    assert len(chunks) == len(blobs), (len(chunks), len(blobs), r.stderr[-300:])
    return [None if (k in bad or len(c) != 1) else c[0] for k, c in enumerate(chunks)]


def lattice32():
    ws = set()
    L20 = {0, 1, 0xFFFFF, 0x80000, 0x7FFFF, 0x55555, 0xAAAAA, 0x800, 0x801, 0x7FF, 0x400, 0x100, 0xFF, 0x80100, 0xFFFFE}
    L20 |= {1 << k for k in range(20)} | {0xFFFFF ^ (1 << k) for k in range(20)}
    regs = [(0, 0, 0), (1, 2, 3), (10, 11, 12), (31, 31, 31), (8, 15, 5), (15, 8, 31), (2, 2, 1), (0, 1, 0)]
    f7s = [0, 1, 0x20, 0x21, 0x40, 0x7F, 2, 0x10]
    for opc in range(3, 128, 4):
        for hi in L20:
            for rd in (0, 1, 10, 31):
                ws.add((hi << 12) | (rd << 7) | opc)
        for f3 in range(8):
            for f7 in f7s:
                for rd, rs1, rs2 in regs:
                    ws.add((f7 << 25) | (rs2 << 20) | (rs1 << 15) | (f3 << 12) | (rd << 7) | opc)
            # 12-bit immediates (I-type) and split immediates (S/B-type): boundary values through every bit position
            for imm in [0, 1, 2, 0x7FF, 0x800, 0xFFF, 0xFFE, 0x555, 0xAAA, 0x400, 0x401, 0x3FF, 31, 32, 33, 0x41F, 0x420] + [1 << k for k in range(12)]:
                ws.add((imm << 20) | (11 << 15) | (f3 << 12) | (10 << 7) | opc)
                ws.add(((imm >> 5) << 25) | (12 << 20) | (11 << 15) | (f3 << 12) | ((imm & 31) << 7) | opc)
    ws.discard(int.from_bytes(SENT, "little"))
    return sorted(ws)


# classes of encodings the emulator refuses on purpose although LLVM 14 prints something: mnemonic prefix -> reason
REFUSED_OK = [
    (r"csrr|csrw|csrs|csrc|wfi|mret|sret|uret|sfence|dret|unimp|c\.unimp", "SYSTEM/Zicsr/privileged: not part of RV32IMC user code"),
    (r"fence\.i|fence\.tso|fence unknown|fence \w+, unknown", "Zifencei / fence.tso / fence with an empty predecessor or successor set"),
    (r"(slli|srli|srai) .*, (3[2-9]|[4-6][0-9])$", "shift amount >= 32 is reserved on RV32 (LLVM 14 is lenient)"),
    (r"c\.(slli|srli|srai) \w+, (3[2-9]|[4-6][0-9])$", "compressed shift amount >= 32 is reserved on RV32"),
    (r"c\.slli64|c\.srli64|c\.srai64", "RV128 forms"),
    (r"c\.lui \w+, 0$", "c.lui with nzimm=0 is reserved"),
    (r"c\.lui zero,", "c.lui with rd=0 is a hint (LLVM prints a signed immediate for it)"),
    (r"c\.addi16sp sp, 0$", "c.addi16sp with nzimm=0 is reserved"),
    (r"c\.addi4spn \w+, sp, 0$", "c.addi4spn with nzuimm=0 is reserved"),
    (r"c\.lwsp zero,", "c.lwsp with rd=0 is reserved"),
    (r"c\.jr zero$", "c.jr with rs1=0 is reserved"),
    (r"c\.f|f[a-z.]+ ", "F/D"),
]


def refused_reason(t):
    for pat, why in REFUSED_OK:
        if re.match(pat, t):
            return why
    return None


def check_decode(words, size):
    blobs = [w.to_bytes(size, "little") for w in words]
    ref = llvm_decode(blobs)
    stats = {"same": 0, "both_invalid": 0, "hint_llvm_invalid": 0, "refused_by_design": 0}
    bad = []
    for w, r in zip(words, ref):
        try:
            i = rv32.decode(w)
            assert i.size == size
            mine = rv32.text(i)
        except rv32.IllegalInstruction:
            i, mine = None, None
        if mine is None and r is None:
            stats["both_invalid"] += 1
        elif mine is None:
            if refused_reason(r) is None:
                bad.append((hex(w), "emulator refuses", r))
            else:
                stats["refused_by_design"] += 1
        elif r is None:
            if i.hint:
                stats["hint_llvm_invalid"] += 1
            else:
                bad.append((hex(w), mine, "LLVM: invalid"))
        elif mine != r:
            bad.append((hex(w), mine, r))
        else:
            stats["same"] += 1
    return stats, bad


def test_decode_all_16bit_encodings():
    words = [h for h in range(1 << 16) if h & 3 != 3]
    stats, bad = check_decode(words, 2)
    print("16-bit:", stats)
    assert not bad, bad[:20]
    assert stats["same"] > 28000


def test_decode_32bit_lattice():
    words = lattice32()
    stats, bad = check_decode(words, 4)
    print("32-bit:", len(words), stats)
    assert not bad, bad[:20]
    assert stats["same"] > 3000


def test_m_extension_corner_cases():
    A = rv32._alu
    m = 0x80000000
    assert A("div", 7, 0) == 0xFFFFFFFF and A("divu", 7, 0) == 0xFFFFFFFF
    assert A("rem", 7, 0) == 7 and A("remu", 7, 0) == 7
    assert A("div", m, 0xFFFFFFFF) == m and A("rem", m, 0xFFFFFFFF) == 0
    assert A("div", (-7) & 0xFFFFFFFF, 2) == (-3) & 0xFFFFFFFF and A("rem", (-7) & 0xFFFFFFFF, 2) == 0xFFFFFFFF
    assert A("div", 7, (-2) & 0xFFFFFFFF) == (-3) & 0xFFFFFFFF and A("rem", 7, (-2) & 0xFFFFFFFF) == 1
    assert A("mulh", m, m) == 0x40000000 and A("mulhu", m, m) == 0x40000000 and A("mulhsu", m, m) == 0xC0000000
    assert A("mulh", 0xFFFFFFFF, 0xFFFFFFFF) == 0 and A("mulhu", 0xFFFFFFFF, 0xFFFFFFFF) == 0xFFFFFFFE and A("mulhsu", 0xFFFFFFFF, 0xFFFFFFFF) == 0xFFFFFFFF
    assert A("sra", m, 31) == 0xFFFFFFFF and A("srl", m, 31) == 1 and A("sll", 1, 32 + 3) == 8
    assert A("slt", m, 0) == 1 and A("sltu", m, 0) == 0


def test_jumps_and_links():
    """jal / jalr / c.jal / c.jalr / auipc write pc+size of the *jump* to the link register and clear bit 0 of a jalr target"""
    def words(*ws):
        return b"".join(w.to_bytes(4 if w & 3 == 3 else 2, "little") for w in ws)
    # 0x100: jal t0, +8 ; 0x104: c.ebreak,c.ebreak ; 0x108: c.mv a0, t0 ; c.jr ra
    r = rv32.run(words(0x008002EF, 0x9002, 0x9002, 0x8516, 0x8082), 0x100, 0x100)
    assert r.a0 == 0x104
    # c.jal +6 (links ra = pc+2); c.ebreak x2; c.mv a0, ra; then return through the sentinel kept in a1
    r = rv32.run(words(0x2019, 0x9002, 0x9002, 0x8506, 0x8582), 0x100, 0x100, [0, rv32.SENTINEL])
    assert r.a0 == 0x102, hex(r.a0)
    # auipc a0, 1 ; c.jr ra
    assert rv32.run(words(0x00001517, 0x8082), 0x200, 0x200).a0 == 0x1200
    # a1 = odd address of the 'c.jr ra' ; jalr t1, 0(a1) must clear bit 0 and link t1 = pc + 4 ; c.mv a0, t1
    r = rv32.run(words(0x00058367, 0x9002, 0x851A, 0x8082), 0x300, 0x300, [0, 0x306 + 1])
    assert r.a0 == 0x304
    # c.jalr a1 links ra = pc + 2 ; target: c.mv a0, ra ; c.jr a2(sentinel)
    r = rv32.run(words(0x9582, 0x9002, 0x8506, 0x8602), 0x400, 0x400, [0, 0x404, rv32.SENTINEL])
    assert r.a0 == 0x402
    # x0 stays zero: addi zero, zero, 5 ; c.mv a0, zero(encoded as c.li a0,0 is different) -> add a0, zero, zero
    assert rv32.run(words(0x00500013, 0x00000533, 0x8082), 0x100, 0x100, [9]).a0 == 0
    for bad, exc in ((0x00000000, rv32.IllegalInstruction), (0x00100073, rv32.Trap), (0xFFFFFFFF, rv32.IllegalInstruction)):
        try:
            rv32.run(words(bad) if bad & 3 == 3 else bad.to_bytes(2, "little"), 0x100, 0x100)
            raise AssertionError("no exception for %#x" % bad)
        except exc:
            pass
    try:
        rv32.run(words(0x0000006F), 0x100, 0x100, max_steps=50)      # j .
        raise AssertionError
    except rv32.StepLimit:
        pass
    try:
        rv32.run(words(0x00152023, 0x8082), 0x100, 0x100, [0x2001], strict_align=True)     # sw ra, 0(a0) at an odd address
        raise AssertionError
    except rv32.MisalignedAccess:
        pass


# ------------------------------------------------------------------------------------------------ (b) execution vs gcc

I, U, L, P, FN = "int32_t", "uint32_t", "int64_t", "buf", "fn"
PRELUDE = """#include <stdint.h>
static __attribute__((noinline)) int32_t helper(int32_t x, int32_t y) { return x * 7 - y; }
__attribute__((noinline)) int32_t helper2(int32_t x, int32_t y) { return (x ^ y) + 3; }
typedef int32_t (*fn)(int32_t, int32_t);
"""
LEAVES = [
    ("caller", I, [I, I], "int32_t s = 0; for (int i = 0; i < 3; i++) s += helper(a + i, b); return s;"),          # call = auipc + jalr
    ("viaarg", I, [FN, I, I], "return a(b, c) * 2 + a(c, b);"),                                                      # c.jalr through a pointer argument
    ("add3", I, [I, I], "return a + b * 3 - (a ^ b);"),
    ("logic", U, [U, U], "return (a & b) | (a ^ ~b) | (a << 3) | (b >> 5);"),
    ("sdiv", I, [I, I], "if (b == 0 || (a == INT32_MIN && b == -1)) return 7; return a / b * 1000 + a % b;"),
    ("udiv", U, [U, U], "if (b == 0) return 9; return a / b + a % b * 3;"),
    ("shifts", I, [I, I], "return (a >> (b & 31)) ^ (int32_t)((uint32_t)a >> (b & 31)) ^ (a << (b & 7));"),
    ("cmp_s", I, [I, I], "return (a < b) + 2 * (a <= b) + 4 * (a > b) + 8 * (a >= b) + 16 * (a == b) + 32 * (a != b);"),
    ("cmp_u", I, [U, U], "return (a < b) + 2 * (a <= b) + 4 * (a > b) + 8 * (a >= b);"),
    ("branchy", I, [I, I], "int32_t r = 0; if (a < b) r += 1; if ((uint32_t)a < (uint32_t)b) r += 2; if (a == 0) r += 4; if (b != 0) r += 8; if (a >= 100) r -= b; return r;"),
    ("loop", I, [I, I], "int32_t s = b; for (int32_t i = 0; i < (a & 15); i++) { s = s * 3 + i; if (s & 1) s ^= a; } return s;"),
    ("collatz", I, [I, I], "uint32_t n = (a & 1023) + 1; int32_t k = 0; while (n != 1 && k < 200) { n = (n & 1) ? 3 * n + 1 : n / 2; k++; } return k + b;"),
    ("mul64", L, [I, I], "return (int64_t)a * b;"),
    ("mulu64", L, [U, U], "return (int64_t)((uint64_t)a * b);"),
    ("mulsu64", L, [I, U], "return (int64_t)a * (int64_t)(uint64_t)b;"),
    ("add64", L, [I, I], "int64_t x = ((int64_t)a << 20) + b; return x * 5 - (x >> 3);"),
    ("narrow", I, [I, I], "signed char c = (signed char)a; unsigned char u = (unsigned char)b; short s = (short)(a * b); unsigned short v = (unsigned short)(a - b); return c + u + s + v;"),
    ("consts", I, [I, I], "return a * 100000 + b + 0x12345678 - 2048 + 2047 - (a & 0x7ffff800);"),
    ("select", I, [I, I], "return a < 0 ? -a : (b > 5 ? b - 5 : a - b);"),
    ("bytes", I, [P, I], "for (int i = 0; i < 8; i++) a[i] = (unsigned char)(a[i] * 3 + b + i); return a[0] + (signed char)a[1] * 256;"),
    ("halves", I, [P, I], "short *h = (short *)a; unsigned short *g = (unsigned short *)a; h[1] = (short)(h[0] + b); g[3] = (unsigned short)(g[2] ^ b); return h[1] + g[3] + h[0];"),
    ("words", I, [P, I], "int32_t *w = (int32_t *)a; w[2] = w[0] + w[1] * b; w[3] = w[2] >> 3; int32_t s = 0; for (int i = 0; i < 4; i++) s ^= w[i]; return s;"),
    ("stackarr", I, [I, I], "volatile int32_t t[8]; for (int i = 0; i < 8; i++) t[i] = a + i * b; int32_t s = 0; for (int i = 7; i >= 0; i--) s = s * 2 + t[(i + a) & 7]; return s;"),
    ("memmix", I, [P, I], "signed char *c = (signed char *)a; int32_t s = 0; for (int i = 0; i < 16; i++) { s += c[i] * (i + 1); c[i] = (signed char)(s + b); } return s;"),
    ("sat", I, [I, I], "int64_t x = (int64_t)a + b; if (x > INT32_MAX) return INT32_MAX; if (x < INT32_MIN) return INT32_MIN; return (int32_t)x;"),
    ("popcount", I, [U, U], "int32_t n = 0; uint32_t x = a ^ b; while (x) { n += x & 1; x >>= 1; } return n;"),
    ("rot", U, [U, U], "uint32_t k = b & 31; return k ? (a << k) | (a >> (32 - k)) : a;"),
    ("args6", I, [I, I, I, I, I, I], "return a + 2 * b + 3 * c + 4 * d + 5 * e + 6 * f;"),
    ("args8", I, [I, I, I, I, I, I, I, I], "return a - b + c * d - e * f + (g ^ h);"),
]
V7 = [0, 1, -1, -2147483648, 2147483647, 2, 2147483646]
BUF0 = bytes((i * 37 + 11) & 0xFF for i in range(32))
NAMES = "abcdefgh"


def c_source():
    out = [PRELUDE]
    for name, ret, params, body in LEAVES:
        ps = ", ".join("%s %s" % ("unsigned char *" if t == P else t, NAMES[k]) for k, t in enumerate(params))
        out.append("%s %s(%s) { %s }\n" % (ret, name, ps, body))
    return "".join(out)


def vectors(params):
    n = sum(1 for t in params if t not in (P, FN))
    if n <= 2:
        vs = list(itertools.product(V7, repeat=n))
    else:
        vs = [tuple(V7[(k * 3 + j) % 7] for k in range(n)) for j in range(7)] + [tuple(range(1, n + 1))]
    return vs


def test_clang_leaf_functions_against_gcc(tmp_path=None):
    d = str(tmp_path) if tmp_path is not None else os.path.join(os.path.dirname(os.path.dirname(os.path.abspath(__file__))), "build", "test_rv32.%d" % os.getpid())
    os.makedirs(d, exist_ok=True)
    try:
        _run_leaves(d)
    finally:
        if tmp_path is None:
            shutil.rmtree(d, ignore_errors=True)


def _run_leaves(d):
    src = os.path.join(d, "leaf.c")
    with open(src, "w") as f:
        f.write(c_source())
    so = os.path.join(d, "leaf.so")
    OPTS = ("-O1", "-O0", "-Os")
    procs = [subprocess.Popen(["gcc", "-O1", "-shared", "-fPIC", "-fwrapv", "-o", so, src])]
    for opt in OPTS:     # the four compilers run concurrently
        procs.append(subprocess.Popen(["clang", "--target=riscv32", "-march=rv32imc", "-mabi=ilp32", "-mno-relax", "-fwrapv", "-fno-jump-tables", opt, "-c", src,
                                       "-o", os.path.join(d, "leaf%s.o" % opt)]))
    for pr in procs:
        assert pr.wait() == 0
    lib = ctypes.CDLL(so)
    CT = {I: ctypes.c_int32, U: ctypes.c_uint32, L: ctypes.c_int64, P: ctypes.c_char_p, FN: ctypes.c_void_p}
    total = 0
    executed = set()
    for opt in OPTS:
        obj = os.path.join(d, "leaf%s.o" % opt)
        rel = subprocess.run(["llvm-readobj", "-r", obj], capture_output=True, text=True, check=True).stdout
        assert "R_RISCV" not in rel, "leaf object has relocations:\n" + rel
        binf = os.path.join(d, "leaf%s.bin" % opt)
        subprocess.run(["llvm-objcopy", "-O", "binary", "--only-section=.text", obj, binf], check=True)
        code = open(binf, "rb").read()
        syms = {}
        for line in subprocess.run(["llvm-nm", obj], capture_output=True, text=True, check=True).stdout.splitlines():
            parts = line.split()
            if len(parts) == 3 and parts[1] in "Tt":
                syms[parts[2]] = int(parts[0], 16)
        LOAD, BUF = 0x1000, 0x8000
        for name, ret, params, body in LEAVES:
            fn = getattr(lib, name)
            fn.restype = CT[ret]
            fn.argtypes = [CT[t] for t in params]
            for vec in vectors(params):
                nat_buf = ctypes.create_string_buffer(BUF0, len(BUF0))
                it = iter(vec)
                nat_args, emu_args = [], []
                for t in params:
                    if t == P:
                        nat_args.append(nat_buf)
                        emu_args.append(BUF)
                    elif t == FN:
                        nat_args.append(ctypes.cast(lib.helper2, ctypes.c_void_p))
                        emu_args.append(LOAD + syms["helper2"])
                    else:
                        v = next(it)
                        nat_args.append(v & 0xFFFFFFFF if t == U else v)
                        emu_args.append(v)
                want = fn(*nat_args)
                res = rv32.run(code, LOAD, LOAD + syms[name], emu_args, max_steps=20000, extra_images=[(BUF, BUF0)], strict_align=True, trace=True)
                for pc in set(res.machine.trace):
                    executed.add(res.machine.fetch(pc).name)
                if ret == L:
                    got = rv32.sx(res.a0 | (res.a1 << 32), 64)
                elif ret == U:
                    got = res.a0
                else:
                    got = rv32.sx(res.a0, 32)
                assert got == want, (opt, name, vec, got, want)
                o = BUF - res.machine.base
                assert bytes(res.machine.mem[o:o + len(BUF0)]) == nat_buf.raw, (opt, name, vec, "buffer differs")
                assert res.regs[2] == res.machine.base + len(res.machine.mem) - 16, (opt, name, "sp not restored")
                total += 1
    print("leaf runs:", total, "distinct instructions executed:", len(executed), sorted(executed))
    need = {"add", "sub", "mul", "mulh", "mulhu", "div", "divu", "rem", "remu", "sll", "srl", "sra", "slt", "sltu", "lb", "lbu", "lh", "lhu", "lw", "sb", "sh", "sw",
            "beq", "bne", "blt", "bge", "bltu", "bgeu", "lui", "addi", "andi", "xori", "jalr", "auipc", "c.jalr", "jal", "c.lw", "c.sw", "c.lwsp", "c.swsp", "c.addi", "c.li", "c.mv", "c.add",
            "c.j", "c.beqz", "c.bnez", "c.jr", "c.slli", "c.srli", "c.srai", "c.andi", "c.addi16sp", "c.addi4spn", "c.sub", "c.xor", "c.or", "c.and"}
    assert need <= executed, sorted(need - executed)


if __name__ == "__main__":
    import time
    t0 = time.time()
    test_decode_all_16bit_encodings()
    test_decode_32bit_lattice()
    test_m_extension_corner_cases()
    test_jumps_and_links()
    test_clang_leaf_functions_against_gcc()
    print("ok %.1fs" % (time.time() - t0))
