"""C25 - dominators, dominator-tree intervals, dominance frontiers, post-dominators and reachability vs their
path-based definitions, on every small control-flow graph."""

ID = "C25"
LEVEL = "exploration"
RULE = ("every labelled digraph with entry 0 and all nodes reachable: n<=4 with self loops (39178 graphs, each built in two node "
        "creation orders), n=5 without self loops (all 745472); n=5 ordered-out-degree<=2 BFS-canonical family with self loops "
        "(24544); the 8-node chain 0>1>..>7 plus every set of <=3 further edges (30914; thorough: 10 nodes, 125672); thorough adds n=5 (loop-free) in reversed creation order, n=5 with the complete slice {self-loop mask % 4 == VERIF_SEED % 4} of "
        "self-loop masks, and the out-degree<=2 family for n=6 (558712); per graph: LengauerTarjan idoms (iterative, recursive and "
        "naive link-eval), ControlFlowGraph idom / dominates / strictly_dominates (interval test) on all ordered pairs, dominance "
        "frontier, can_reach on all pairs, fixed-point dominators + immediate dominators, post_dominates / immediate post-dominator "
        "with every sink node in turn as exit, and the same CFG shape as an IR procedure through ir_function_to_graph / CfgInfo "
        "(out-degree<=2 only, both yes/no orders); one evaluation = one (graph, analysis[, exit]) comparison; distinct non-trivial "
        "= distinct (n, idom vector, frontier vector) with a non-empty frontier, resp. (n, exit, immediate-post-dominator vector) "
        "with >=2 nodes reaching the exit; VERIF_SEED is not used by the quick tier (its bound is explored completely)")
ASSUMPTIONS = [
    "oracle: definitions by brute force on bitmasks written in /verif: a dom b <=> b not reachable from entry with a deleted (or a = b); "
    "idom = the strict dominator dominated by all other strict dominators; DF(x) = {y: x dom some pred of y and not x sdom y}; "
    "a pdom b <=> b cannot reach the exit with a deleted (or a = b); reach = transitive closure (paths of >= 1 edge)",
    "post-dominance is only demanded for nodes b that can reach the exit (for the others the definition is vacuous; counted as unclassified)",
    "an exit node that has successors is not judged (ppci's own CFGs always use an artificial sink exit and the API does not say what such an "
    "exit means); counted as unclassified, one observation is recorded in the note pdom_exit_with_successor",
    "can_reach(a, a) for a node that is on no cycle is not judged (reflexive or not is a convention; counted as unclassified)",
    "graphs with 6 nodes only from the out-degree<=2 family, 8/10 nodes only from the chain-plus-3-edges family (no random larger CFGs: the framework forbids sampling); unreachable nodes are outside the property",
    "object-identity hash order of ppci's successor sets is fixed by PYTHONHASHSEED=0 / no ASLR; role permutations are covered by "
    "enumerating all labellings and two node creation orders",
]
CLAIM = {
    "text": "On every control-flow graph inside the bound, every dominator / post-dominator / frontier / reachability query of "
            "ppci.graph answers exactly what the path-based definition says.",
    "note": "Trusted: the brute-force definitions in vf/checks/c25.py (node deletion + reachability on bitmasks), the enumerator "
            "vf/gen/graphs.py (counts cross-checked against a closed form).",
    "technique": "bounded-exhaustive graph enumeration vs brute-force definitions",
    "engine": "K1",
}

LOOP_SLICES = 4


# ------------------------------------------------------------------------------------------------ oracle

class Ref:
    """Everything the definitions say about one graph (entry 0)."""

    def __init__(self, n, adj):
        from vf.gen.graphs import closure, reverse
        self.n, self.adj = n, adj
        full = (1 << n) - 1
        self.full = full
        self.pre = reverse(n, adj)
        # dominated[a] = mask of b with a dom b
        self.dominated = []
        for a in range(n):
            r = closure(adj, 1, 1 << a)  # reachable from the entry without entering a
            self.dominated.append(full & ~r)
        # doms[b] = mask of a with a dom b
        self.doms = [sum(1 << a for a in range(n) if self.dominated[a] >> b & 1) for b in range(n)]
        self.idom = [None] * n
        for b in range(1, n):
            sd = self.doms[b] & ~(1 << b)
            cands = [a for a in range(n) if sd >> a & 1 and (self.doms[a] & sd) == sd]
            assert len(cands) == 1, (n, adj, b, cands)  # the definition yields exactly one
            self.idom[b] = cands[0]
        assert self.doms[0] == 1
        # dominance frontier by definition
        self.df = []
        for x in range(n):
            m = 0
            for y in range(n):
                strictly = x != y and self.dominated[x] >> y & 1
                if not strictly and (self.pre[y] & self.dominated[x]):
                    m |= 1 << y
            self.df.append(m)
        # reach: paths of length >= 1
        self.reach = [closure(adj, adj[a]) for a in range(n)]

    def post(self, e):
        """(reaches_exit mask, pdoms list: pdoms[b] = mask of a with a pdom b, ipdom list) for exit e."""
        from vf.gen.graphs import closure
        n, pre = self.n, self.pre
        reaches = closure(pre, 1 << e)
        pdominated = []
        for a in range(n):
            r = closure(pre, 1 << e, 1 << a)  # nodes that reach e without entering a
            pdominated.append(self.full & ~r)
        pdoms = [sum(1 << a for a in range(n) if pdominated[a] >> b & 1) for b in range(n)]
        ipdom = [None] * n
        for b in range(n):
            if b == e or not reaches >> b & 1:
                continue
            sp = pdoms[b] & ~(1 << b)
            cands = [a for a in range(n) if sp >> a & 1 and (pdoms[a] & sp) == sp]
            assert len(cands) == 1, (n, self.adj, e, b, cands)
            ipdom[b] = cands[0]
        return reaches, pdoms, ipdom


def bits(m):
    return [i for i in range(m.bit_length()) if m >> i & 1]


# ------------------------------------------------------------------------------------------------ construction

def build_cfg(n, adj, order, exit_index):
    from ppci.graph.cfg import ControlFlowGraph, ControlFlowNode
    g = ControlFlowGraph()
    nodes = [None] * n
    for i in order:
        nodes[i] = ControlFlowNode(g, name="n%d" % i)
    for i in order:
        for j in order:
            if adj[i] >> j & 1:
                nodes[i].add_edge(nodes[j])
    g.entry_node = nodes[0]
    g.exit_node = nodes[exit_index]
    return g, nodes


def build_ir(n, adj, order, swap):
    """The same shape as an IR procedure; None if some node has more than two successors."""
    from ppci import ir
    if any(bin(m).count("1") > 2 for m in adj):
        return None
    f = ir.Procedure("f", ir.Binding.GLOBAL)
    blocks = [ir.Block("b%d" % i) for i in range(n)]
    for i in order:
        f.add_block(blocks[i])
    f.entry = blocks[0]
    for i in range(n):
        succ = bits(adj[i])
        if swap:
            succ.reverse()
        if not succ:
            blocks[i].add_instruction(ir.Exit())
        elif len(succ) == 1:
            blocks[i].add_instruction(ir.Jump(blocks[succ[0]]))
        else:
            c = ir.Const(1, "c", ir.i32)
            blocks[i].add_instruction(c)
            blocks[i].add_instruction(ir.CJump(c, "==", c, blocks[succ[0]], blocks[succ[1]]))
    return f, blocks


# ------------------------------------------------------------------------------------------------ the check of one graph

def fmt(n, adj):
    from vf.gen.graphs import edges
    return "n=%d edges=%s" % (n, ",".join("%d>%d" % e for e in edges(n, adj)))


class Case:
    def __init__(self, p, n, adj, variant):
        from vf.gen.graphs import rank
        self.p, self.n, self.adj, self.variant = p, n, adj, variant
        self.order = list(range(n)) if variant == 0 else list(range(n - 1, -1, -1))
        self.rank = rank(n, adj) * 2 + variant
        self.desc = fmt(n, adj) + (" (nodes created in reverse order)" if variant else "")

    def wit(self, **kw):
        w = {"n": self.n, "adj": list(self.adj), "variant": self.variant}
        w.update(kw)
        return w

    def bad(self, key, what, **kw):
        self.p.violation(key, "%s: %s" % (self.desc, what), self.wit(**kw), order=self.rank)

    def crash(self, prefix, ex, **kw):
        from vf.core import exc_key
        self.p.violation(exc_key(prefix, ex), "%s: %s raised %r" % (self.desc, prefix, ex), self.wit(**kw), order=self.rank)


def idom_vector(n, nodes, idom_map):
    """ppci idom dict -> list of indices (None for absent), plus set of foreign keys."""
    index = {nd: i for i, nd in enumerate(nodes)}
    vec = [None] * n
    extra = []
    for k, v in idom_map.items():
        if k not in index:
            extra.append(repr(k))
            continue
        vec[index[k]] = index.get(v, "?") if v is not None else None
    return vec, extra


class Diverged(Exception):
    pass


class Rounds:
    """The `nodes` argument of the fixed-point functions: the same nodes in the same order, but iterating it more than
    `limit` + 2 times (two initial passes + one per round) raises Diverged instead of looping for ever."""

    def __init__(self, nodes, limit):
        self.nodes, self.left = list(nodes), limit + 2

    def __iter__(self):
        self.left -= 1
        if self.left < 0:
            raise Diverged()
        return iter(self.nodes)

    def __len__(self):
        return len(self.nodes)


def check_lt(c, ref, g, nodes, wk, variants=True):
    """Lengauer-Tarjan on graph g (nodes[i] = node of index i; nodes beyond ref.n are ignored).  Returns True if the
    production implementation gives the definition's idoms.  The two alternative link-eval implementations in lt.py
    (naive, recursive) are only reported when the production one is right, so that one defect gives one key."""
    from ppci.graph import lt
    p, n = c.p, ref.n
    entry = nodes[0]
    real = nodes[:n]

    def one(impl):
        p.add()
        name = "lt.compute" + ("[" + impl + "]" if impl else "")
        try:
            x = lt.LengauerTarjan(False)
            if impl:
                x.ancestor_with_lowest_semi = getattr(x, "ancestor_with_lowest_semi_" + impl)
            res = x.compute(g, entry)
        except Exception as ex:  # noqa
            c.crash(name, ex, **wk)
            return False
        res = {k: v for k, v in res.items() if k in real}  # (IR path: the artificial exit node is not judged)
        vec, extra = idom_vector(n, real, res)
        if extra or entry in res or vec != ref.idom:
            c.bad(name + "/idom", "immediate dominators %r, definition gives %r" % (vec, ref.idom), **wk)
            return False
        return True

    if not one(""):
        return False
    if variants:
        one("naive")
        one("fast")
        p.add()
        try:
            res = lt.calculate_idom(g, entry)
            vec, extra = idom_vector(n, real, {k: v for k, v in res.items() if k in real})
            if extra or vec != ref.idom:
                c.bad("lt.calculate_idom/idom", "immediate dominators %r, definition gives %r" % (vec, ref.idom), **wk)
        except Exception as ex:  # noqa
            c.crash("lt.calculate_idom", ex, **wk)
    return True


def check_tree_queries(c, ref, g, nodes, wk):
    """ControlFlowGraph idom / dominates / strictly_dominates / dominance frontier on g, judged on nodes[:ref.n].
    Only called when Lengauer-Tarjan is right on this very graph object."""
    p, n = c.p, ref.n
    real = nodes[:n]
    p.add()
    try:
        got = [g.get_immediate_dominator(nd) for nd in real]
        vec = [None if v is None else (real.index(v) if v in real else "?") for v in got]
        if vec != ref.idom:
            c.bad("cfg.get_immediate_dominator", "returns %r, definition gives %r" % (vec, ref.idom), **wk)
            return
    except Exception as ex:  # noqa
        c.crash("cfg.get_immediate_dominator", ex, **wk)
        return
    p.add(2)
    try:
        for a in range(n):
            for b in range(n):
                exp = bool(ref.dominated[a] >> b & 1)
                d = g.dominates(real[a], real[b])
                if bool(d) != exp or real[a].dominates(real[b]) != d:
                    c.bad("cfg.dominates/interval", "dominates(n%d, n%d) = %r, definition gives %r (intervals %r, %r)" % (
                        a, b, d, exp, g.tree_map[real[a]].interval, g.tree_map[real[b]].interval), **wk)
                    return
                sd = g.strictly_dominates(real[a], real[b])
                if bool(sd) != (exp and a != b):
                    c.bad("cfg.strictly_dominates/interval", "strictly_dominates(n%d, n%d) = %r, definition gives %r (intervals %r, %r)" % (
                        a, b, sd, exp and a != b, g.tree_map[real[a]].interval, g.tree_map[real[b]].interval), **wk)
                    return
    except Exception as ex:  # noqa
        c.crash("cfg.dominates", ex, **wk)
        return
    p.add()
    try:
        g.calculate_dominance_frontier()
        df = []
        for nd in real:
            df.append(sum(1 << real.index(y) for y in g.df[nd] if y in real))
        if df != ref.df:
            x = [i for i in range(n) if df[i] != ref.df[i]][0]
            kind = "missing" if ref.df[x] & ~df[x] else "extra"
            c.bad("cfg.dominance_frontier/" + kind, "DF(n%d) = %r, definition gives %r (idoms %r)" % (
                x, bits(df[x]), bits(ref.df[x]), ref.idom), **wk)
        elif any(ref.df):
            p.outcome(("dom", n, tuple(ref.idom), tuple(ref.df)))
    except Exception as ex:  # noqa
        c.crash("cfg.calculate_dominance_frontier", ex, **wk)


def check_dominators(c, ref):
    from ppci.graph.algorithm import fixed_point_dominator as fp
    p, n, adj = c.p, c.n, c.adj
    g, nodes = build_cfg(n, adj, c.order, n - 1)
    entry = nodes[0]
    wk = {"part": "dom"}
    if check_lt(c, ref, g, nodes, wk):
        check_tree_queries(c, ref, g, nodes, wk)
    else:
        p.count("graphs_where_lt_is_wrong_tree_queries_skipped")

    # --- reachability
    p.add()
    try:
        for a in range(n):
            for b in range(n):
                exp = bool(ref.reach[a] >> b & 1)
                if a == b and not exp:
                    p.count("unclassified_can_reach_self_off_cycle")
                    continue
                r = g.can_reach(nodes[a], nodes[b])
                if bool(r) != exp:
                    c.bad("cfg.can_reach", "can_reach(n%d, n%d) = %r, transitive closure gives %r" % (a, b, r, exp), part="dom")
    except Exception as ex:  # noqa
        c.crash("cfg.can_reach", ex, part="dom")

    # --- fixed point dominators
    p.add()
    entry_has_pred = bool(ref.pre[0])
    suffix = "/entry-has-predecessor" if entry_has_pred else ""
    try:
        dom = fp.calculate_dominators(Rounds(g.nodes, n * n + 2), entry)
        got = [sum(1 << nodes.index(a) for a in dom[nd]) for nd in nodes]
        if got != ref.doms:
            b = [i for i in range(n) if got[i] != ref.doms[i]][0]
            c.bad("fixed_point.calculate_dominators" + suffix, "dom(n%d) = %r, definition gives %r" % (b, bits(got[b]), bits(ref.doms[b])), part="dom")
        else:
            p.add()
            sdom = {nd: dom[nd] - {nd} for nd in nodes}
            idom = fp.calculate_immediate_dominators(g.nodes, dom, sdom)
            vec, extra = idom_vector(n, nodes, idom)
            if extra or vec != ref.idom:
                c.bad("fixed_point.calculate_immediate_dominators", "gives %r, definition gives %r" % (vec, ref.idom), part="dom")
    except Diverged:
        c.bad("fixed_point.calculate_dominators" + suffix, "no fixed point after %d rounds over the nodes (a decreasing iteration needs at most n*n+1): "
              "does not terminate" % (n * n + 2), part="dom")
    except Exception as ex:  # noqa
        c.crash("fixed_point.calculate_dominators" + suffix, ex, part="dom")


def check_post(c, ref, e, g=None, nodes=None, prefix="cfg", real=None, wk=None):
    """Post-dominators towards exit index e.  (g, nodes) may be supplied (IR path: nodes[0..real) are judged)."""
    p, n = c.p, ref.n
    real = n if real is None else real
    wk = {"part": "post", "exit": e} if wk is None else wk
    if ref.adj[e] != 0:
        # an exit with successors: ppci's own CFGs (ir_function_to_graph) never have one and the API does not say what it means
        p.count("unclassified_pdom_exit_has_successor")
        return
    p.add()
    p.count("pdom_exits_judged")
    reaches, pdoms, ipdom = ref.post(e)
    suffix = ""
    if g is None:
        g, nodes = build_cfg(n, ref.adj, c.order, e)
    try:
        for b in range(real):
            if not reaches >> b & 1:
                p.count("unclassified_pdom_node_cannot_reach_exit")
                continue
            for a in range(real):
                exp = bool(pdoms[b] >> a & 1)
                r = g.post_dominates(nodes[a], nodes[b])
                if bool(r) != exp or nodes[a].post_dominates(nodes[b]) != r:
                    c.bad(prefix + ".post_dominates" + suffix, "exit n%d: post_dominates(n%d, n%d) = %r, definition gives %r" % (e, a, b, r, exp),
                          **wk)
                    return
        for b in range(real):
            if not reaches >> b & 1:
                continue
            r = g.get_immediate_post_dominator(nodes[b])
            r = None if r is None else nodes.index(r)
            if r != ipdom[b]:
                c.bad(prefix + ".get_immediate_post_dominator" + suffix, "exit n%d: immediate post dominator of n%d = %r, definition gives %r" % (
                    e, b, r, ipdom[b]), **wk)
                return
    except Exception as ex:  # noqa
        c.crash(prefix + ".post_dominates" + suffix, ex, **wk)
        return
    if bin(reaches).count("1") >= 2:
        p.outcome(("pdom", n, e, tuple(ipdom), reaches))


def check_ir(c, ref, swap):
    """The same shape as an IR procedure: ir_function_to_graph numbers the blocks breadth first and adds an artificial exit
    node behind every block without successors.  Shared code is reported under the same keys as on the direct path;
    only what is specific to this path (graph construction, CfgInfo's block maps) has keys of its own."""
    from ppci.graph.cfg import ir_function_to_graph
    from ppci.graph.domtree import CfgInfo
    p, n, adj = c.p, c.n, c.adj
    wk = {"part": "ir", "swap": swap}
    built = build_ir(n, adj, c.order, swap)
    if built is None:
        p.count("ir_not_representable_outdegree_gt_2")
        return
    f, blocks = built
    sinks = [i for i in range(n) if adj[i] == 0]
    p.add()
    try:
        cfg, block_map = ir_function_to_graph(f)
        nodes = [block_map[b] for b in blocks]
        ok = set(block_map) == set(blocks) and cfg.entry_node is nodes[0] and len(cfg.nodes) == n + 1
        for i in range(n):
            exp = {nodes[j] for j in range(n) if adj[i] >> j & 1} or {cfg.exit_node}
            ok = ok and set(cfg.successors(nodes[i])) == exp
        ok = ok and not cfg.successors(cfg.exit_node)
        if not ok:
            c.bad("ir_function_to_graph/shape", "the CFG built from the IR procedure does not have the blocks' edges", **wk)
            return
    except Exception as ex:  # noqa
        c.crash("ir_function_to_graph", ex, **wk)
        return
    if not check_lt(c, ref, cfg, nodes + [cfg.exit_node], wk, variants=False):
        return
    p.add()
    try:
        info = CfgInfo(f)
    except Exception as ex:  # noqa
        c.crash("domtree.CfgInfo", ex, **wk)
        return
    try:
        nodes = [info.get_node(b) for b in blocks]
        if [info.get_block(nd) for nd in nodes] != blocks or not all(info.has_block(nd) for nd in nodes) or info.has_block(info.cfg.exit_node):
            c.bad("domtree.CfgInfo/block-maps", "get_block(get_node(b)) is not b, or has_block is wrong", **wk)
            return
        if set(info.df) != set(blocks):
            c.bad("domtree.CfgInfo/df-keys", "df has keys %r" % (sorted(map(str, info.df)),), **wk)
            return
        got = [sum(1 << blocks.index(y) for y in info.df[b]) for b in blocks]
        direct = [sum(1 << nodes.index(y) for y in info.cfg.df[nd] if y in nodes) for nd in nodes]
        if got != direct:
            c.bad("domtree.CfgInfo/df-translation", "df by blocks %r differs from cfg.df by nodes %r" % (got, direct), **wk)
            return
    except Exception as ex:  # noqa
        c.crash("domtree.CfgInfo/query", ex, **wk)
        return
    cfg = info.cfg
    # (info.cfg is another graph object than the one probed above: identity-hashed successor sets may iterate differently)
    if not check_lt(c, ref, cfg, nodes + [cfg.exit_node], wk, variants=False):
        return
    check_tree_queries(c, ref, cfg, nodes + [cfg.exit_node], wk)
    # post dominators towards the artificial exit: oracle on the graph extended by node n
    from vf.gen.graphs import reverse
    ext = tuple((m | (1 << n)) if m == 0 else m for m in adj) + (0,)
    xref = Ref.__new__(Ref)
    xref.n, xref.adj, xref.full, xref.pre = n + 1, ext, (1 << (n + 1)) - 1, reverse(n + 1, ext)
    check_post(c, xref, n, g=cfg, nodes=nodes + [cfg.exit_node], real=n + 1 if sinks else n, wk=wk)


def check_graph(p, n, adj, variant, parts=("dom", "post", "ir"), budget=20):
    from vf.core import cpu_limit, CpuTimeout
    c = Case(p, n, adj, variant)
    try:
        with cpu_limit(budget):
            ref = Ref(n, adj)
            if "dom" in parts:
                check_dominators(c, ref)
            if "post" in parts:
                for e in range(n):
                    check_post(c, ref, e)
            if "ir" in parts:
                check_ir(c, ref, False)
                if any(bin(m).count("1") == 2 for m in adj):
                    check_ir(c, ref, True)
    except CpuTimeout:
        if budget == 20:
            # a watchdog expiry must reproduce before it is believed (a collector pause in a long-lived worker has tripped it once in
            # 10^8 evaluations): decide with a fresh run of the same graph and a budget three times as large
            p.count("watchdog_expiries_retried")
            return check_graph(p, n, adj, variant, parts, budget=60)
        c.bad("hang", "analysis did not finish within 60 CPU seconds (second run; the first was stopped after 20)", part="all")


# ------------------------------------------------------------------------------------------------ workers / run

def full_worker(p, shard, n, nparts, variants, loopmasks):
    """Every rooted loop-free graph whose code is in one of the shard's residue classes, times every self-loop mask given."""
    from vf.gen.graphs import rooted_codes
    for part in shard:
        for code, adj in rooted_codes(n, False, part, nparts):
            for lm in loopmasks:
                adj2 = tuple(adj[i] | (1 << i) if lm >> i & 1 else adj[i] for i in range(n)) if lm else adj
                p.count("graphs_n%d" % n)
                for v in (variants if lm == 0 or n < 5 else variants[:1]):  # n = 5: reversed creation order only for loop-free graphs
                    check_graph(p, n, adj2, v)


def family_worker(p, shard, n, name="outdeg2"):
    for adj in shard:
        p.count("graphs_%s_n%d" % (name, n))
        check_graph(p, n, adj, 0)


def lt_reverse_probe(ctx):
    """lt.calculate_idom(graph, entry, reverse=True): the flag is stored and never used.  Not judged (undocumented), only recorded."""
    from ppci.graph import lt
    g, nodes = build_cfg(3, (0b010, 0b100, 0), [0, 1, 2], 2)  # 0 -> 1 -> 2
    try:
        res = lt.calculate_idom(g, nodes[2], reverse=True)
        vec, _ = idom_vector(3, nodes, res)
    except Exception as ex:  # noqa
        vec = "raised %r" % ex
    ctx.note("lt_reverse_flag", "calculate_idom(chain 0>1>2, entry=n2, reverse=True) -> %r; immediate post-dominators would be [1, 2, None]; "
             "the reverse argument is ignored by LengauerTarjan (not judged: undocumented)" % (vec,))


def nonsink_exit_probe(ctx):
    """Exit node with successors (0 -> 1, 1 -> 2, 2 -> 1, exit = 1): recorded, not judged."""
    g, nodes = build_cfg(3, (0b010, 0b100, 0b010), [0, 1, 2], 1)
    try:
        obs = "post_dominates(n2, n0) = %r" % g.post_dominates(nodes[2], nodes[0])
    except Exception as ex:  # noqa
        obs = "raised %r" % ex
    ctx.note("pdom_exit_with_successor", "edges 0>1,1>2,2>1 exit n1: %s; by the path definition n2 does not post-dominate n0 (0>1 ends at the "
             "exit).  calculate_post_dominators also iterates the exit node itself, so an exit with successors is polluted by them "
             "(mirror image of the calculate_dominators finding); not judged because ppci's CFGs always use a sink exit" % obs)


def run(ctx):
    from vf.gen import graphs
    from vf.core import HarnessError
    d4 = (0b0110, 0b1000, 0b1000, 0b0001)
    ctx.sample({"graph": "n=3 edges 0>1,0>2,1>2", "idom": Ref(3, (0b110, 0b100, 0)).idom, "DF": [bits(m) for m in Ref(3, (0b110, 0b100, 0)).df]})
    ctx.sample({"graph": "n=4 diamond 0>1,0>2,1>3,2>3 with back edge 3>0", "idom": Ref(4, d4).idom, "DF": [bits(m) for m in Ref(4, d4).df]})
    ctx.sample({"graph": "n=3 edges 0>1,0>2,1>2 exit n2", "reaches_exit,pdom_sets,ipdom": list(Ref(3, (0b110, 0b100, 0)).post(2))})
    lt_reverse_probe(ctx)
    nonsink_exit_probe(ctx)
    expected = {}
    # n <= 4: all self-loop masks, two node creation orders
    for n in (1, 2, 3, 4):
        nparts = 1 if n < 4 else 61  # prime: residue classes mix all edge bits, so shards balance
        ctx.pmap(full_worker, list(range(nparts)), extra=(n, nparts, (0, 1) if n > 1 else (0,), list(range(1 << n))))
        expected[n] = graphs.rooted_count(n, True)
    # n = 5: loop-free complete; thorough adds the reversed creation order and a seed-selected complete slice of the self-loop masks
    if ctx.quick:
        masks, variants = [0], (0,)
    else:
        sel = ctx.seed % LOOP_SLICES
        masks = [0] + [m for m in range(1, 32) if m % LOOP_SLICES == sel]
        variants = (0, 1)
        ctx.note("n5_selfloop_slice", "self-loop masks %r (mask %% %d == VERIF_SEED %% %d, plus the loop-free graphs), each with all 745472 "
                 "loop-free rooted graphs; the %d seeds together give every 5-node graph with self loops" % (masks, LOOP_SLICES, LOOP_SLICES, LOOP_SLICES))
    ctx.pmap(full_worker, list(range(251)), extra=(5, 251, variants, masks))
    expected[5] = graphs.rooted_count(5, False) * len(masks)
    for n, e in expected.items():
        got = ctx.counters.get("graphs_n%d" % n, 0)
        if got != e:
            raise HarnessError("enumerator produced %d graphs for n=%d, closed form says %d" % (got, n, e))
    # ordered out-degree <= 2 BFS-canonical family with self loops
    for n in ((5,) if ctx.quick else (5, 6)):
        fam = graphs.outdeg2_canonical(n)
        ctx.note("outdeg2_family_n%d" % n, len(fam))
        ctx.pmap(family_worker, fam, extra=(n,))
    # larger structured CFGs (deep dominator trees: longer link-eval paths): chain + every set of <= 3 further edges
    n = 8 if ctx.quick else 10
    fam = graphs.chain_plus(n, 3)
    ctx.note("chain_plus_family", "chain of %d nodes + every set of <=3 further edges: %d graphs" % (n, len(fam)))
    ctx.pmap(family_worker, fam, extra=(n, "chain_plus3"))
    if "fixed_point.calculate_dominators/entry-has-predecessor" in ctx.violations:
        ctx.note("fixed_point_note", "calculate_dominators also iterates the entry node: with an edge into the entry its set grows to all nodes "
                 "(and for some node orders the iteration never reaches a fixed point)")


def replay(w):
    from vf.core import Partial
    p = Partial()
    part = w.get("part", "all")
    parts = ("dom", "post", "ir") if part == "all" else (part,)
    check_graph(p, w["n"], tuple(w["adj"]), w.get("variant", 0), parts)
    if p.violations:
        ks = sorted(p.violations)
        return True, "; ".join(k + ": " + p.violations[k][1] for k in ks[:3])
    return False, "all analyses agree with the definitions on " + fmt(w["n"], tuple(w["adj"]))
