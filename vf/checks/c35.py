"""C35 - GDB remote-serial-protocol framing (F, K1) and acknowledgement protocol under a controlled scheduler (A, K3)."""
import itertools
import logging

ID = "C35"
LEVEL = "model_checking"
RULE = ("(F) every payload of length <= 4 over {a } # $ * ' + - :} packed by rsp_pack and fed byte by byte to a fresh RspHandler, "
        "alone and between every (prefix, suffix) in {nothing, +, -, junk byte, another packet}^2, plus every single-byte "
        "corruption of its body/checksum; (A) the real RspHandler/GdbDebugDriver run as threads {users, rx, peer, stop handler} "
        "under the stateless schedule explorer vf/sched.py: every peer script of length <= 3 over {+, -, -+, +reply, "
        "+badreply+reply, ++, +++, +stop, silence} x retries {1,2,3} x {one user sending len(script) packets, two users sending one "
        "each}, every schedule with preemptions + environment deviations <= 2 (quick) / 3 (thorough; also line-granular "
        "preemption points in rsp.py at bound <= 1); distinct non-trivial = distinct (script, user outcomes, wire transcript, "
        "delivered messages, end state) of an execution, or (framing context class, decoder result) for F")
ASSUMPTIONS = [
    "reference: an RSP encoder/decoder and a sequential stop-and-wait sender model written in /verif from the GDB remote protocol description",
    "scheduler model: only Lock/Queue/Event operations, transport sends, byte deliveries and thread start/exit (thorough: also source lines of rsp.py) are preemption points",
    "virtual time: a timed wait fires only when no thread is enabled (timeouts are long compared with scheduling delays); real time never runs",
    "the peer answers each received transmission with its script symbol, then '+' for every further transmission; peer bytes are delivered one at a time in order",
    "retry budget: a sender may give up after r or r+1 transmissions (both readings of `retries` accepted); raising although the last permitted retransmission was acknowledged is counted, not flagged",
    "clause (3) is evaluated per sendpkt call: not when one of its transmissions met silence, and not when a surplus acknowledgement reached the handler while the call was in progress (ambiguous without sequence numbers); surplus acknowledgements completely delivered before the call began must not count as its acknowledgement",
    "run-length encoding of replies and payloads longer than 4 characters are not explored",
]
CLAIM = {
    "text": "Within the bounds, every packed payload is framed, checksummed and unescaped correctly in every surrounding "
            "byte context, corrupt packets are nacked, and in every explored interleaving of users, receiver and peer "
            "a nack leads to an identical retransmission until ack or exhausted budget, no message is lost or duplicated, "
            "no protocol thread dies and nothing deadlocks.",
    "note": "trusted: vf/sched.py cooperative primitives model queue.Queue/threading.Lock semantics; reference codec in this file",
    "technique": "bounded-exhaustive framing inputs + stateless schedule exploration with preemption/deviation bounding",
    "engine": "K1 + K3",
}

ALPHABET = "a}#$*'+-:"
ESCAPED = "}#$*"

# ---------------------------------------------------------------------------------------------------------------
# reference codec (independent of ppci)


def ref_pack(payload):
    body = bytearray()
    for ch in payload:
        c = ord(ch)
        if ch in "}#$*":
            body.append(0x7D)
            body.append(c ^ 0x20)
        else:
            body.append(c)
    return b"$" + bytes(body) + b"#" + ("%02x" % (sum(body) % 256)).encode()


def ref_unescape(body):
    out = []
    i = 0
    while i < len(body):
        c = body[i]
        if c == 0x7D and i + 1 < len(body):
            out.append(chr(body[i + 1] ^ 0x20))
            i += 2
        else:
            out.append(chr(c))
            i += 1
    return "".join(out)


class RefDecoder:
    """Incremental reference decoder: feed(byte) -> None | ('ack', '+'/'-') | ('pkt', raw, ok, payload)."""

    def __init__(self):
        self.state = 0
        self.body = bytearray()
        self.cs = b""

    def feed(self, b):
        if self.state == 0:
            if b == 0x24:
                self.state = 1
                self.body = bytearray()
            elif b == 0x2B:
                return ("ack", "+")
            elif b == 0x2D:
                return ("ack", "-")
            return None
        if self.state == 1:
            if b == 0x23:
                self.state = 2
                self.cs = b""
            else:
                self.body.append(b)
            return None
        self.cs += bytes([b])
        if len(self.cs) < 2:
            return None
        self.state = 0
        raw = b"$" + bytes(self.body) + b"#" + self.cs
        try:
            ok = int(self.cs.decode("ascii"), 16) == sum(self.body) % 256
        except ValueError:
            ok = False
        return ("pkt", raw, ok, ref_unescape(self.body) if ok else None)


def ref_decode_stream(data):
    d = RefDecoder()
    return [r for r in (d.feed(b) for b in data) if r is not None]


# ---------------------------------------------------------------------------------------------------------------
# module preparation


def prepare(kind):
    """Rebind the synchronisation names of rsp/client to cooperative versions (no edits in /repo) and silence logging."""
    from vf import sched
    from vf.core import HarnessError
    from ppci.binutils.dbg.gdb import rsp, client
    logging.disable(logging.CRITICAL)
    try:
        sched.rebind(rsp)
        sched.rebind(client)
    except sched.SchedError as e:
        raise HarnessError(str(e))
    if kind == "F":
        class Unbounded(sched.Queue):
            """F observes only on_message and the transport: acknowledgements are consumed by nobody there."""

            def __init__(self, maxsize=0):
                super().__init__(0)

        for name, val in list(vars(rsp).items()):
            if val is sched.Queue:
                setattr(rsp, name, Unbounded)
            elif isinstance(val, sched.ModuleShim) and "Queue" in vars(val):
                val.__dict__["Queue"] = Unbounded
    else:
        for name, val in list(vars(rsp).items()):
            if isinstance(val, type) and issubclass(val, sched.Queue) and val is not sched.Queue:
                setattr(rsp, name, sched.Queue)
            elif isinstance(val, sched.ModuleShim) and "Queue" in vars(val):
                val.__dict__["Queue"] = sched.Queue
    return rsp, client


# ---------------------------------------------------------------------------------------------------------------
# part F: framing (K1)

OTHER = b"$OK#9a"
JUNKS = ["x", "#", "\x03", "}", "'", "*", ":", "0"]      # the junk byte between packets is selected by VERIF_SEED


def contexts_for(junk):
    cs = [("none", b""), ("ack", b"+"), ("nack", b"-"), ("junk", junk.encode("latin-1")), ("packet", OTHER)]
    return [(a, b) for a in cs for b in cs]


class FakeTransport:
    def __init__(self, log):
        self.log = log
        self.on_byte = None

    def send(self, data):
        self.log.append(("tx", bytes(data)))


def feature(payload):
    """Fixed vocabulary naming the discriminating feature of a payload (first match wins)."""
    if payload.endswith("'"):
        return "quote-before-terminator"
    if any(c in ESCAPED for c in payload):
        return "escaped-char"
    if any(c in "+-" for c in payload):
        return "ack-char-in-payload"
    return "plain"


def feed_fresh(rsp, stream):
    """Feed `stream` byte by byte to a fresh handler; returns (event log, exception or None)."""
    log = []
    t = FakeTransport(log)
    h = rsp.RspHandler(t)
    h.on_message = lambda m: log.append(("msg", m))
    try:
        for b in stream:
            t.on_byte(bytes([b]))
    except Exception as e:  # noqa
        return log, e
    return log, None


def judge_stream(log, expect):
    """expect: list of (good, payload) frames in stream order.  Returns None or a symptom class."""
    msgs = [e[1] for e in log if e[0] == "msg"]
    acks = b"".join(e[1] for e in log if e[0] == "tx")
    want_msgs = [p for good, p in expect if good]
    want_acks = b"".join(b"+" if good else b"-" for good, p in expect)
    if msgs == want_msgs and acks == want_acks:
        return None
    if len(acks) < len(want_acks) and len(msgs) <= len(want_msgs):
        return "frame-lost"
    if len(msgs) > len(want_msgs):
        return "bad-accepted" if any(not g for g, _ in expect) and len(acks) == len(want_acks) else "extra-delivery"
    if len(msgs) < len(want_msgs):
        return "good-rejected"
    if msgs != want_msgs:
        return "payload-wrong"
    return "ack-wrong"


def fkey(sym, feat, efeat):
    """Locus of a framing failure: the symptom, refined by the payload feature where the feature is the cause."""
    if sym == "frame-lost":
        return "F/framing/frame-lost/" + feat
    if sym == "payload-wrong":
        return "F/framing/payload-wrong/" + efeat
    return "F/framing/" + sym


def check_payload(p, rsp, payload, contexts, order0, junk="x"):
    from vf.core import exc_key
    feat = feature(payload)
    w = {"part": "F", "payload": payload, "junk": junk}
    # the sender side: the packet must decode (reference decoder) to exactly the original payload
    p.add()
    try:
        wire = rsp.RspHandler.rsp_pack(payload).encode("ascii")
    except Exception as e:  # noqa
        p.violation(exc_key("F/pack/raises", e), "rsp_pack(%r) raised %r" % (payload, e), w, order=order0)
        return
    dec = ref_decode_stream(wire)
    if dec != [("pkt", wire, True, payload)]:
        p.violation("F/pack/" + feat, "rsp_pack(%r) = %r does not decode (reference RSP decoder) to one packet with that payload: %r"
                    % (payload, wire, dec), w, order=order0)
        return
    # static unpack
    p.add()
    try:
        back = rsp.RspHandler.rsp_unpack(wire.decode("ascii"))
    except Exception as e:  # noqa
        back = e
    efeat = "escaped-char" if any(c in ESCAPED for c in payload) else feat
    if back != payload:
        p.violation("F/framing/payload-wrong/" + efeat, "rsp_unpack(rsp_pack(%r)) = %r, expected the original payload" % (payload, back), w, order=order0)
    # receiver side, every context
    for (pn, pre), (sn, suf) in contexts:
        p.add()
        stream = pre + wire + suf
        expect = ([(True, "OK")] if pn == "packet" else []) + [(True, payload)] + ([(True, "OK")] if sn == "packet" else [])
        log, exc = feed_fresh(rsp, stream)
        wc = dict(w, kind="context", pre=pn, suf=sn)
        if exc is not None:
            p.violation(exc_key("F/framing/raises", exc), "feeding %r byte by byte raised %r" % (stream, exc), wc, order=order0)
            continue
        sym = judge_stream(log, expect)
        p.outcome(("F", feat, pn, sn, sym, len(log)))
        if sym:
            p.violation(fkey(sym, feat, efeat),
                        "stream %r: handler delivered %r and answered %r; expected messages %r and one '+' per packet"
                        % (stream, [e[1] for e in log if e[0] == "msg"], b"".join(e[1] for e in log if e[0] == "tx"),
                           [q for g, q in expect if g]), wc, order=order0)
    # corruption of every body / checksum position, followed by the intact packet
    n = len(wire)
    for pos in list(range(1, n - 3)) + [n - 2, n - 1]:
        p.add()
        old = wire[pos]
        if pos >= n - 2:
            new = ord("0") if old != ord("0") else ord("1")
        else:
            new = ord("b") if old != ord("b") else ord("c")
        bad = wire[:pos] + bytes([new]) + wire[pos + 1:]
        if ref_decode_stream(bad) != [("pkt", bad, False, None)]:
            p.count("F_corruptions_unclassified")  # the corruption changed the framing itself: not judged
            continue
        stream = bad + wire
        log, exc = feed_fresh(rsp, stream)
        wc = dict(w, kind="corrupt", pos=pos)
        if exc is not None:
            p.violation(exc_key("F/framing/raises", exc), "feeding %r byte by byte raised %r" % (stream, exc), wc, order=order0)
            continue
        sym = judge_stream(log, [(False, None), (True, payload)])
        p.outcome(("Fc", feat, pos >= n - 2, sym))
        if sym:
            p.violation(fkey(sym, feat, efeat),
                        "corrupt packet %r then intact %r: handler delivered %r and answered %r; expected only %r delivered and '-+'"
                        % (bad, wire, [e[1] for e in log if e[0] == "msg"], b"".join(e[1] for e in log if e[0] == "tx"), payload),
                        wc, order=order0)


def f_worker(p, shard, full_len, junk):
    from vf.core import cpu_limit, CpuTimeout
    rsp, _ = prepare("F")
    ctxs = contexts_for(junk)
    for order0, payload in shard:
        try:
            with cpu_limit(60):
                check_payload(p, rsp, payload, ctxs if len(payload) <= full_len else ctxs[:1], order0, junk)
        except CpuTimeout:
            p.violation("F/framing/hang", "packing/feeding payload %r did not finish within 60 CPU seconds" % payload,
                        {"part": "F", "payload": payload, "junk": junk}, order=order0)


def payloads(maxlen):
    out = []
    for n in range(maxlen + 1):
        for t in itertools.product(ALPHABET, repeat=n):
            out.append("".join(t))
    return out


# ---------------------------------------------------------------------------------------------------------------
# part A: acknowledgement protocol under the controlled scheduler (K3)

REPLY = ref_pack("OK")
BADREPLY = REPLY[:-1] + (b"0" if REPLY[-1:] != b"0" else b"1")
STOP = ref_pack("T05")
REGS = ref_pack("0" * 24)          # reply to 'g' for the 3 x 32-bit registers of the example architecture
BADREGS = REGS[:-1] + (b"f" if REGS[-1:] != b"f" else b"e")

# symbol -> (bytes for the rsp harness, deviation cost, number of ack symbols, description)
SYMBOLS = {
    "A": (b"+", 0, 1, "ack"),
    "N": (b"-", 1, 1, "nack"),
    "NA": (b"-+", 1, 2, "nack then ack for the same transmission"),
    "AR": (b"+" + REPLY, 0, 1, "ack then reply packet"),
    "ABR": (b"+" + BADREPLY + REPLY, 1, 1, "ack, reply with bad checksum, reply again"),
    "AA": (b"++", 1, 2, "ack plus a stale extra ack"),
    "AAA": (b"+++", 1, 3, "ack plus two stale extra acks"),
    "AT": (b"+" + STOP, 1, 1, "ack then unsolicited stop packet"),
    "S": (b"", 1, 0, "silence"),
}
RSP_SYMS = ["A", "N", "AR", "NA", "ABR", "AA", "AAA", "S"]           # AT == AR for a bare RspHandler
CLIENT_SYMS = ["AR", "N", "AT", "ABR", "AA", "AAA", "S"]
NEEDS_RETRIES = {"N", "NA", "S"}


def script_cost(script):
    return sum(SYMBOLS[x][1] for x in script)


def user_payload(i, esc="#"):
    return esc + "abc"[i]           # one escaped character (chosen by VERIF_SEED), so a re-packed retransmission would show


class Harness:
    """Builds one program (threads + fake wire) on a fresh scheduler."""

    def __init__(self, s, cfg, rsp, client):
        from vf import sched
        self.s = s
        self.cfg = cfg
        self.kind = cfg["harness"]
        self.script = cfg["script"]
        self.c2p = sched.Queue()
        self.p2c = sched.Queue()
        s.idle_on(self.c2p)
        s.idle_on(self.p2c)
        self.on_byte = None
        self.names = {}
        log = s.events
        if self.kind == "rsp":
            self.h = rsp.RspHandler(self)
            self.h.on_message = lambda m: log.append(("msg", m))
            sendpkt = self.h.sendpkt
        else:
            from ppci.api import get_arch
            from ppci.binutils.dbg.debug_driver import DebugState
            self.drv = client.GdbDebugDriver(get_arch("example"), transport=self)
            self.drv.status = DebugState.STOPPED
            self.h = self.drv._rsp
            inner = self.h.on_message

            def on_message(m):
                log.append(("msg", m))
                inner(m)

            self.h.on_message = on_message
            orig = self.h.sendpkt
            cnt = [0]

            def sendpkt(data, *a, **kw):      # observation wrapper on the instance (call boundaries per thread)
                me = s.current.name
                i = cnt[0]
                cnt[0] += 1
                log.append(("call", me, i, data, kw.get("retries", a[0] if a else 10)))
                try:
                    orig(data, *a, **kw)
                except Exception as e:  # noqa
                    log.append(("raise", me, i, type(e).__name__))
                    raise
                log.append(("ret", me, i))

            self.h.sendpkt = sendpkt
            s.idle_on(self.drv._stop_msg_queue)
            s.dynamic_service = True
        r = cfg["retries"]
        if self.kind == "rsp":
            if cfg["mode"] == "seq":
                progs = [[(i, user_payload(i, cfg.get("esc", "#"))) for i in range(len(self.script))]]
            else:
                progs = [[(i, user_payload(i, cfg.get("esc", "#")))] for i in range(max(2, len(self.script)))]
            for ui, prog in enumerate(progs):
                s.spawn("user%d" % ui, self._rsp_user("user%d" % ui, prog, r, sendpkt))
        else:
            s.spawn("user0", self._client_user("user0", len(self.script) if cfg["mode"] == "seq" else 1))
        s.spawn("rx", self._rx, service=True)
        s.spawn("peer", self._peer, service=True)
        if self.kind == "client":
            self.drv.connect()   # starts the stop-queue handler thread (cooperative Thread, service)

    # -- the Transport interface seen by ppci
    def connect(self):
        pass

    def disconnect(self):
        pass

    def send(self, data):
        data = bytes(data)
        self.c2p.put(data)               # scheduling point "transport.send"
        self.s.events.append(("tx", self.s.current.name, data))

    # -- threads
    def _rsp_user(self, name, prog, retries, sendpkt):
        log = self.s.events

        def run():
            for i, payload in prog:
                log.append(("call", name, i, payload, retries))
                try:
                    sendpkt(payload, retries=retries)
                except Exception as e:  # noqa - the outcome
                    log.append(("raise", name, i, type(e).__name__))
                    return
                log.append(("ret", name, i))
        return run

    def _client_user(self, name, n):
        log = self.s.events

        def run():
            for i in range(n):
                try:
                    res = self.drv._send_command("g")
                except Exception as e:  # noqa - the outcome
                    log.append(("cmd-raise", name, type(e).__name__))
                    return
                log.append(("cmd-ret", name, res))
        return run

    def _rx(self):
        log = self.s.events
        get = self.p2c.get
        while True:
            b = get()                      # one scheduling point per delivered byte; idle point
            log.append(("rx", b))
            self.on_byte(bytes([b]))       # like TCP.recv_thread: an exception ends the receiver
            log.append(("rxd", b))

    def _peer(self):
        from vf.sched import K_ALWAYS
        log = self.s.events
        dec = RefDecoder()
        k = 0
        client_mode = self.kind == "client"
        while True:
            data = self.c2p.get()          # idle point
            for b in data:
                r = dec.feed(b)
                if r is None:
                    continue
                if r[0] == "ack":
                    log.append(("peer-ack", r[1]))
                    continue
                sym = self.script[k] if k < len(self.script) else ("AR" if client_mode else "A")
                out = _peer_bytes(self.cfg, sym)
                log.append(("peer", k, r[1], r[2], r[3], sym))
                k += 1
                if out:
                    self.s.point(K_ALWAYS, None, "peer.send")
                    self.p2c._items.extend(out)


def make_program(cfg, rsp, client):
    def program(s):
        return Harness(s, cfg, rsp, client)
    return program


# ---------------------------------------------------------------------------------------------------------------
# oracle for one complete execution (sequential reference: a list of packets and a counter)


def judge(ex, cfg):
    """Returns (violations [(key, what)], unclassified [names], summary tuple)."""
    from vf.core import exc_key, HarnessError
    ev = ex.events
    script = cfg["script"]
    out = []
    uncl = []
    threads = {n: (fin, exc, svc, label) for n, fin, exc, svc, label in ex.threads}
    # ---- harness sanity
    for n in ("peer",) + tuple(x for x in threads if x.startswith("user")):
        if threads[n][1] is not None:
            raise HarnessError("harness thread %s died: %r" % (n, threads[n][1]))
    # ---- (4) no protocol thread terminates with an exception
    dead = [n for n, (fin, exc, svc, label) in threads.items() if exc is not None]
    for n in list(dead):
        exc = threads[n][1]
        role = "rx" if n == "rx" else "stop-handler"
        if role == "stop-handler" and type(exc).__name__ == "Empty" and any(e[0] == "timeout" and e[1] == n for e in ev):
            # the peer stayed silent towards the stop handler's own command: the timeout propagates (not a protocol-layer claim)
            uncl.append("stop_handler_ended_by_timeout")
            continue
        out.append((exc_key("A/thread-dies/" + role, exc),
                    "%s thread terminated with %s: %r (incoming bytes are no longer processed)" % (role, type(exc).__name__, exc)))
    # ---- (5) no deadlock / livelock
    if ex.end == "deadlock":
        blocked = sorted("%s:%s" % (n.rstrip("0123456789"), label) for n, (fin, exc, svc, label) in threads.items() if not fin and not svc)
        out.append(("A/deadlock/" + ",".join(sorted(set(blocked))), "no thread enabled and no timeout pending; blocked: %s" % blocked))
    elif ex.end == "stuck":
        blocked = sorted("%s:%s" % (n, label) for n, (fin, exc, svc, label) in threads.items() if not fin and svc and n != "peer")
        out.append(("A/stuck/" + ",".join(b for b in blocked if not b.endswith("queue.get")) ,
                    "service thread blocked forever inside the protocol code: %s" % blocked))
    elif ex.end == "horizon":
        out.append(("A/livelock/horizon", "execution did not finish within the scheduling-point horizon"))
    elif ex.end != "done":
        raise HarnessError("unexpected end state %r" % ex.end)
    complete = ex.end == "done" and not dead
    # ---- collect the history
    peer_pkts = []            # (k, raw, ok, payload, sym) transmissions as seen by the peer
    sent_frames = []          # frames the peer emitted, in order: (good, payload)
    for e in ev:
        if e[0] == "peer":
            peer_pkts.append(e[1:])
            for r in ref_decode_stream(_peer_bytes(cfg, e[5])):
                if r[0] == "pkt":
                    sent_frames.append((r[2], r[3]))
    msgs = [e[1] for e in ev if e[0] == "msg"]
    client_acks = [e[2] for e in ev if e[0] == "tx" and e[2] in (b"+", b"-")]
    # ---- (1), (2): every good frame delivered exactly once, in order, acked '+'; every corrupt frame nacked, not delivered
    if complete:
        want_msgs = [p for g, p in sent_frames if g]
        want_acks = [b"+" if g else b"-" for g, p in sent_frames]
        if msgs != want_msgs:
            if len(msgs) < len(want_msgs):
                k = "A/recv/message-lost"
            elif len(msgs) > len(want_msgs):
                k = "A/recv/bad-accepted" if any(not g for g, _ in sent_frames) and len(msgs) == len(sent_frames) else "A/recv/message-duplicated"
            else:
                k = "A/recv/message-wrong"
            out.append((k, "peer sent frames %r; on_message got %r, expected %r" % (sent_frames, msgs, want_msgs)))
        elif client_acks != want_acks:
            out.append(("A/recv/ack-wrong", "peer sent frames %r; client answered %r, expected %r" % (sent_frames, client_acks, want_acks)))
    # ---- per sendpkt call
    calls = {}
    order = []
    open_call = {}
    plus_delivered = 0
    ok_returns = 0
    txi = 0
    rxdec = RefDecoder()
    delivered = []            # acknowledgement symbols as handed to the client: [index of 'rx', index of 'rxd' or None, symbol]
    for ei, e in enumerate(ev):
        t = e[0]
        if t == "rx":
            r_ = rxdec.feed(e[1])
            if r_ is not None and r_[0] == "ack":
                delivered.append([ei, None, r_[1]])
        elif t == "rxd":
            if delivered and delivered[-1][1] is None:
                delivered[-1][1] = ei
        if t == "call":
            c = {"thread": e[1], "i": e[2], "payload": e[3], "retries": e[4], "tx": [], "timeouts": 0, "outcome": None,
                 "start": ei, "end": None}
            calls[(e[1], e[2])] = c
            order.append(c)
            open_call[e[1]] = c
        elif t == "tx" and e[2][:1] == b"$":
            c = open_call.get(e[1])
            if c is None:
                raise HarnessError("packet transmitted outside a sendpkt call: %r" % (e,))
            c["tx"].append((txi, e[2]))
            txi += 1
        elif t == "timeout":
            c = open_call.get(e[1])
            if c is not None:
                c["timeouts"] += 1
        elif t == "rx" and e[1] == 0x2B:
            plus_delivered += 1     # handed to the client (necessary for any legitimate normal return)
        elif t in ("ret", "raise"):
            c = open_call.pop(e[1])
            c["outcome"] = "ok" if t == "ret" else e[3]
            c["end"] = ei
            if t == "ret":
                ok_returns += 1
                if ok_returns > plus_delivered:
                    out.append(("A/send/returns-without-ack",
                                "sendpkt(%r) returned normally although only %d '+' had been delivered for %d successful sends"
                                % (c["payload"], plus_delivered, ok_returns)))
    if complete and len(peer_pkts) != txi:
        raise HarnessError("peer saw %d transmissions, wire shows %d" % (len(peer_pkts), txi))
    # Acknowledgement symbols the peer emitted: the first one of a response answers that transmission, the others are
    # surplus.  RSP has no sequence numbers, so a surplus symbol that reaches the handler while a sendpkt call is in
    # progress is ambiguous and that call is not judged by clause (3); a surplus symbol completely delivered before a call
    # began cannot belong to any of its transmissions and must not be taken for their acknowledgement.
    answer = {}               # transmission index -> '+' / '-'
    emitted = []              # (is_answer, symbol) in wire order
    for k, raw, ok, payload, sym in peer_pkts:
        first = True
        for r_ in ref_decode_stream(_peer_bytes(cfg, sym)):
            if r_[0] == "ack":
                emitted.append((k if first else None, r_[1]))
                if first:
                    answer[k] = r_[1]
                first = False
    acks = []                 # (index of 'rx', index of 'rxd', answered transmission or None for a surplus symbol)
    if complete:
        if [x[2] for x in delivered] != [x[1] for x in emitted] or any(x[1] is None for x in delivered):
            raise HarnessError("acknowledgements delivered %r do not match those emitted %r" % (delivered, emitted))
        acks = [(d[0], d[1], em[0]) for d, em in zip(delivered, emitted)]
    for c in order:
        if c["outcome"] is None:
            continue    # aborted by the end of the execution (deadlock etc. already reported)
        r = c["retries"]
        txs = c["tx"]
        n = len(txs)
        what = "sendpkt(%r, retries=%d): %d transmission(s), outcome %s" % (c["payload"], r, n, c["outcome"])
        if n == 0:
            if c["outcome"] == "ok":
                out.append(("A/send/no-transmission", what))
            continue
        if any(b != txs[0][1] for _, b in txs):
            out.append(("A/retransmit/not-identical", what + "; transmissions differ: %r" % [b for _, b in txs]))
        dec = ref_decode_stream(txs[0][1])
        if dec != [("pkt", txs[0][1], True, c["payload"])]:
            out.append(("A/send/packet-wrong", what + "; wire %r does not decode to the payload" % txs[0][1]))
        if not complete or any(answer.get(gi) is None for gi, _ in txs):
            continue        # silence: only clauses (1), (2), (4), (5) apply
        mine = set(gi for gi, _ in txs)
        if any(owner not in mine and not (rxd < c["start"] or rx > c["end"]) for rx, rxd, owner in acks):
            # a surplus symbol, or the late answer to a transmission of an earlier call, arrived during this call
            uncl.append("call_with_ambiguous_foreign_ack")
            continue
        stale = sum(1 for rx, rxd, owner in acks if owner is None and rxd < c["start"])
        # the answer of the peer to each transmission of this call
        resp = [answer[gi] for gi, _ in txs]
        what += "; peer answered %s" % "".join(resp)
        if stale:
            what += " (%d surplus ack(s) had been completely delivered before this call began)" % stale
        if c["timeouts"]:
            # every answer was delivered before virtual time advanced, so the sender sat on a delivered answer
            if resp[-1] == "-":
                out.append(("A/nack/ignored", what + "; the nack was delivered but the sender neither retransmitted nor gave up - it waited for the timeout"))
            else:
                out.append(("A/ack/lost", what + "; the ack was delivered but the sender waited for the timeout"))
            continue
        bad = [i for i in range(n - 1) if resp[i] == "+"]
        if bad:
            out.append(("A/retransmit/after-ack", what + "; retransmitted although transmission %d was acknowledged" % (bad[0] + 1)))
            continue
        if c["outcome"] == "ok":
            if resp[-1] != "+":
                if stale:
                    out.append(("A/ack/stale-ack-accepted", what + "; returned normally although the last transmission was nacked: "
                                "an acknowledgement that arrived before the packet was sent was taken for its acknowledgement"))
                else:
                    out.append(("A/nack/treated-as-ack", what + "; returned normally although the last transmission was nacked"))
            elif n > r + 1:
                out.append(("A/retries/exceeded", what))
        else:
            if resp[-1] == "-":
                if n < r:
                    out.append(("A/nack/gives-up-early", what + "; gave up with retry budget left"))
                elif n > r + 1:
                    out.append(("A/retries/exceeded", what))
            else:
                if n >= 2 and n >= r:
                    uncl.append("raised_although_last_permitted_retransmission_was_acked")
                else:
                    out.append(("A/ack/raises-after-ack", what + "; raised although the packet was acknowledged"))
    # ---- summary (the distinct-behaviour fingerprint)
    summary = (cfg["harness"], cfg["mode"], tuple(script), cfg["retries"], ex.end,
               tuple((c["payload"], len(c["tx"]), c["outcome"], c["timeouts"]) for c in order),
               tuple(msgs), len(client_acks), tuple(sorted(dead)),
               tuple(e[1:] for e in ev if e[0] in ("cmd-ret", "cmd-raise")))
    # one defect, one key: keep the first violation per key; the weak "returned without any ack" test is subsumed
    if any(k in ("A/nack/treated-as-ack", "A/ack/stale-ack-accepted") for k, _ in out):
        out = [(k, w) for k, w in out if k != "A/send/returns-without-ack"]
    seen = {}
    for k, w in out:
        seen.setdefault(k, w)
    return list(seen.items()), uncl, summary


def _peer_bytes(cfg, sym):
    out = SYMBOLS[sym][0]
    if cfg["harness"] == "client":
        out = out.replace(BADREPLY, BADREGS).replace(REPLY, REGS)
        if sym == "AT":
            out = b"+" + REGS + STOP
    return out


# ---------------------------------------------------------------------------------------------------------------
# enumeration of configurations and the workers

MAX_POINTS = 4000         # horizon per execution (a correct run of 3 sends needs < 200 scheduling points; < 1500 with line points)
CFG_CPU_SECONDS = 1500    # CPU watchdog per configuration (harness safety net only)


# total bound (script deviations + preemptions) per (harness, mode, script length); absent = not explored in that tier
TIERS = {
    "quick": {("rsp", "seq", 1): 2, ("rsp", "seq", 2): 2, ("rsp", "seq", 3): 2,
              ("rsp", "par", 1): 2, ("rsp", "par", 2): 2,
              ("client", "seq", 1): 2, ("client", "seq", 2): 1},
    "thorough": {("rsp", "seq", 1): 3, ("rsp", "seq", 2): 3, ("rsp", "seq", 3): 3,
                 ("rsp", "par", 1): 3, ("rsp", "par", 2): 3, ("rsp", "par", 3): 2,
                 ("client", "seq", 1): 3, ("client", "seq", 2): 2, ("client", "seq", 3): 1},
}
LINE_TIERS = {"quick": {}, "thorough": {("rsp", "seq", 1): 2, ("rsp", "seq", 2): 1, ("rsp", "par", 1): 2, ("rsp", "par", 2): 1}}


def configs(tier, seed=0):
    esc = ESCAPED[seed % len(ESCAPED)]
    out = []
    for lines, table in ((False, TIERS[tier]), (True, LINE_TIERS[tier])):
        for (harness, mode, L), bound in sorted(table.items()):
            syms = RSP_SYMS if harness == "rsp" else CLIENT_SYMS
            for script in itertools.product(syms, repeat=L):
                c = script_cost(script)
                if c > bound:
                    continue
                if harness == "rsp":
                    rs = [1, 2, 3] if any(x in NEEDS_RETRIES for x in script) else [2]
                else:
                    rs = [10]           # GdbDebugDriver._send_command uses the default budget
                for r in rs:
                    out.append({"harness": harness, "mode": mode, "script": list(script), "retries": r,
                                "pb": bound - c, "lines": lines, "esc": esc})
    out.sort(key=lambda c: (script_cost(c["script"]), len(c["script"]), c["lines"], c["harness"] != "rsp", c["mode"] != "seq", c["script"], c["retries"]))
    return list(enumerate(out))


def explorer_for(cfg, rsp, client):
    from vf import sched
    files = (rsp.__file__,) if cfg["lines"] else ()
    return sched.Explorer(make_program(cfg, rsp, client), timeout_cost=0, max_points=MAX_POINTS, trace_files=files)


def observe(cfg):
    def f(ex):
        v, u, s = judge(ex, cfg)
        return (ex.end, ex.events, [k for k, _ in v], s)
    return f


def a_worker(p, shard):
    from vf import sched
    from vf.core import cpu_limit, CpuTimeout, HarnessError
    rsp, client = prepare("A")
    try:
        for idx, cfg in shard:
            ex_ = explorer_for(cfg, rsp, client)
            obs = observe(cfg)
            sc = script_cost(cfg["script"])
            n = 0
            try:
                with cpu_limit(CFG_CPU_SECONDS):
                    for b, ex in ex_.explore(cfg["pb"]):
                        n += 1
                        p.add()
                        viols, uncl, summary = judge(ex, cfg)
                        p.outcome(summary)
                        for u in uncl:
                            p.count("unclassified_" + u)
                        p.count("A_end_" + ex.end)
                        if ex.timeouts:
                            p.count("A_executions_with_timeouts")
                        if viols:
                            p.count("A_failing_executions")
                            try:
                                ex_.confirm(ex, obs)      # replayed twice, must reproduce identically
                            except sched.SchedError as e:
                                raise HarnessError("%s (cfg %r choices %r)" % (e, cfg, ex.choices()))
                            order = (sc + ex.cost) * 10 ** 10 + len(cfg["script"]) * 10 ** 8 + idx * 10 ** 4 + min(n, 9999)
                            for k, what in viols:
                                p.violation(k, "[%s %s script=%s retries=%d preemptions=%d] %s"
                                            % (cfg["harness"], cfg["mode"], "/".join(cfg["script"]), cfg["retries"], ex.preemptions, what),
                                            {"part": "A", "cfg": cfg, "choices": ex.choices()}, order=order)
                        if n <= 1 and idx % 97 == 0:
                            p.sample({"cfg": cfg, "choices": ex.choices(), "end": ex.end,
                                      "wire": [repr(e[2]) for e in ex.events if e[0] == "tx"][:8]})
            except CpuTimeout:
                p.count("A_configs_cpu_capped")
            except sched.SchedError as e:
                raise HarnessError("%s (cfg %r)" % (e, cfg))
            p.count("A_configs")
            p.count("A_points", ex_.points)
            p.count("A_decisions", ex_.decisions)
            p.count("A_runs_including_replays", ex_.executions)
            if cfg["lines"]:
                p.count("A_line_granular_executions", n)
    finally:
        sched.shutdown_pool()


def run(ctx):
    from vf.core import use_repo
    use_repo()
    quick = ctx.quick
    # ---- F
    pl = payloads(4)
    full_len = 3 if quick else 4
    ctx.note("F_payloads", len(pl))
    ctx.note("F_contexts", "all 25 (prefix, suffix) contexts for payload length <= %d, bare packet for longer ones" % full_len)
    junk = JUNKS[ctx.seed % len(JUNKS)]
    ctx.note("F_junk_byte", repr(junk))
    if not quick:
        first = ALPHABET[ctx.seed % len(ALPHABET)]
        pl += [first + x for x in payloads(4) if len(x) == 4]
        ctx.note("F_seed_slice", "all length-5 payloads starting with %r (bare packet + corruptions)" % first)
    ctx.pmap(f_worker, list(enumerate(pl)), extra=(full_len, junk))
    f_evals = ctx.evaluations
    ctx.sample({"F": "payload \"a#\" -> rsp_pack -> fed as '-' + packet + '$OK#9a'", "expect": "messages ['a#', 'OK'], answers '++'"})
    # ---- A
    cfgs = configs(ctx.tier, ctx.seed)
    ctx.note("A_user_payload_escape_char", ESCAPED[ctx.seed % len(ESCAPED)])
    ctx.note("A_bounds", {"%s/%s/len%d%s" % (k + ("",)): v for k, v in TIERS[ctx.tier].items()})
    ctx.note("A_bounds_line_granular", {"%s/%s/len%d%s" % (k + ("",)): v for k, v in LINE_TIERS[ctx.tier].items()})
    ctx.note("A_configurations", len(cfgs))
    ctx.pmap(a_worker, cfgs, nshards=min(len(cfgs), 256))
    if ctx.counters.get("A_configs_cpu_capped"):
        ctx.cap("%d configuration(s) stopped by the CPU watchdog" % ctx.counters["A_configs_cpu_capped"])
    ctx.states = ctx.counters.get("A_points", 0)
    ctx.transitions = ctx.counters.get("A_decisions", 0)
    ctx.traces = ctx.evaluations - f_evals
    ctx.note("F_evaluations", f_evals)
    ctx.note("A_executions", ctx.traces)


def replay(w):
    from vf.core import Partial, use_repo
    from vf import sched
    use_repo()
    if w["part"] == "F":
        rsp, _ = prepare("F")
        p = Partial()
        check_payload(p, rsp, w["payload"], contexts_for(w.get("junk", "x")), 0, w.get("junk", "x"))
        if p.violations:
            k = sorted(p.violations)[0]
            return True, k + ": " + p.violations[k][1]
        return False, "payload %r is framed, unescaped and nacked-when-corrupt as specified" % w["payload"]
    rsp, client = prepare("A")
    cfg = w["cfg"]
    try:
        note = ""
        try:
            ex = explorer_for(cfg, rsp, client).replay(w["choices"])
        except sched.SchedError:
            # the schedule was recorded on different code (e.g. before a fix): replay the nearest existing schedule
            ex = explorer_for(cfg, rsp, client).replay([c[0] if isinstance(c, list) else c for c in w["choices"]], lenient=True)
            note = " [recorded schedule does not exist on this tree; nearest schedule %r replayed]" % ex.choices()
        viols, uncl, summary = judge(ex, cfg)
    finally:
        sched.shutdown_pool()
    if viols:
        return True, "; ".join("%s: %s" % kv for kv in viols) + note
    return False, "schedule %r of %r satisfies clauses (1)-(5); end=%s%s" % (ex.choices(), cfg["script"], ex.end, note)
