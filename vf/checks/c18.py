"""C18 - Intel HEX: operation histories on a real HexFile vs an address->byte model, an independent
record checker/reader written from the Intel specification, and BFD (GNU objdump) as a second reader."""
import io
import os
import itertools
import subprocess

ID = "C18"
LEVEL = "model_checking"
RULE = ("explicit-state search over operation histories on a real HexFile: for every set of <= 3 pairwise non-overlapping, non-empty regions "
        "(addresses ADDRS x sizes SIZES, chosen so that gaps, adjacency, three-in-a-row adjacency, 64 KiB straddling, a record boundary "
        "exactly on 0x10000, the top of the 4 GiB space and a 0x10010-byte region all occur; contents are a non-periodic function of the "
        "address), every insertion order x every split point k (regions[:k] added to file 1, regions[k:] to file 2, then "
        "file1.merge(file2); k = n is the pure add_region history); after every add_region/merge the regions must denote the model state "
        "(sorted, non-overlapping, merged when adjacent); every correct final state is saved with every start address in {0, 1, "
        "0x12345678, 0xFFFFFFFF} (states holding a 0x10010-byte region: 0 and one non-zero value chosen by the set), the text is judged by "
        "a record checker and reader written from the Intel HEX specification, loaded back (same merged regions + start address), a "
        "reference-written text of the same state (16-byte records split at 64 KiB, type 05 record) is loaded too, and BFD decodes every "
        "distinct saved text the specification reader accepts (for 0x10010-byte states the non-zero-start text). "
        "quick: all sets of <= 2 regions over the full alphabets (16 addresses x 6 sizes; the 0x10010-byte size at 6 addresses) + all "
        "3-region sets over four 4-address sub-alphabets that contain three-in-a-row adjacency; thorough: all sets of <= 3 regions over "
        "the full alphabets (sets with more than one 0x10010-byte region only inside the sub-alphabets). distinct non-trivial = distinct "
        "merged state shape reached, distinct (operation, join kind isolated/left/right/both-sides, 64 KiB crossing, region count) and "
        "distinct saved-file shape (type 04 records, data records, straddling record, zero checksum, start record)")
ASSUMPTIONS = [
    "reference model: address -> byte map kept as its canonical list of maximal runs, plus the start address",
    "reference reader/record checker written in /verif from the Intel Hexadecimal Object File Format Specification rev. A (1988): "
    "record mark, RECLEN, load offset, RECTYP 00-05, two's complement checksum, fixed payload lengths, EOF last, linear (type 04) and "
    "segment (type 02) address arithmetic",
    "second reader: GNU objdump 2.40 (BFD ihex backend), `objdump -s -f -b ihex`, many files per process",
    "a data record that runs past offset 0xFFFF is read linearly (Intel: (LBA + DRLO + DRI) mod 4G), as BFD does",
    "empty regions, overlapping regions and addresses >= 4 GiB are outside the property and are not explored",
]
CLAIM = {
    "text": "Within the bound every add_region/merge history on a HexFile reaches the state of the address->byte model, and every "
            "such state saves to standard-conforming Intel HEX that ppci, a spec-derived reader and BFD all decode to the same bytes, "
            "merged regions and start address.",
    "note": "trusted: the model/reader/record checker in vf/checks/c18.py and GNU objdump; start addresses only from a 4-value set",
    "technique": "bounded exhaustive operation-history exploration against a reference model and two independent readers",
    "engine": "K2 explicit-state",
}

# DESIGN's address alphabet {0, 1, 0xFFF0, 0xFFFF, 0x10000, 0x1FFF8, 0xFFFF0000, 0xFFFFFFF0} has no three regions in a row;
# 2, 3, 0x11, 0x10001, 0x10010, 0x20010, 0xFFFFFFEF add them (middle region of 1, 2, 16 and 0x10010 bytes); 0xFFE2 + 32 bytes puts a
# record boundary of the writer (30-byte records) exactly on 0x10000.
ADDRS = [0, 1, 2, 3, 0x11, 0xFFE2, 0xFFF0, 0xFFFF, 0x10000, 0x10001, 0x10010, 0x1FFF8, 0x20010, 0xFFFF0000, 0xFFFFFFEF, 0xFFFFFFF0]
SIZES = [1, 2, 16, 17, 32, 0x10010]
HUGE = 0x10010
QUICK_HUGE_ADDRS = [0, 0xFFF0, 0xFFFF, 0x10000, 0x10010, 0x1FFF8]  # quick tier: the 0x10010-byte size only at these addresses
STARTS = [0, 1, 0x12345678, 0xFFFFFFFF]
# 4-address sub-alphabets, each with three-in-a-row adjacency (merge to both sides) and 64 KiB crossings
SUBALPHABETS = [
    [0xFFF0, 0x10000, 0x10010, 0x20010],
    [0, 1, 2, 3],
    [0, 1, 0x11, 0xFFFF0000],
    [0xFFFF, 0x10000, 0x10001, 0xFFFFFFEF],
]
LIMIT = 1 << 32
BFD_BATCH = 120
_FILENO = itertools.count()


# ---------------------------------------------------------------- reference model

def data_at(a):
    """Contents: a function of the address without a period of 2^k (a shifted or misplaced block is visible)."""
    return ((a * 131) ^ ((a >> 8) * 31) ^ ((a >> 16) * 7) ^ ((a >> 24) * 3) ^ 0x5A) & 0xFF


_DATA = {}


def region_data(addr, size):
    key = (addr, size)
    d = _DATA.get(key)
    if d is None:
        d = bytes(data_at(a) for a in range(addr, addr + size))
        _DATA[key] = d
    return d


def canon(runs):
    """Canonical form of an address->byte map given as (address, bytes) pieces: sorted maximal runs.
    Returns None if pieces overlap."""
    out = []
    for a, d in sorted(runs, key=lambda r: r[0]):
        if not d:
            continue
        if out:
            pa, pd = out[-1]
            if pa + len(pd) > a:
                return None
            if pa + len(pd) == a:
                out[-1] = (pa, pd + d)
                continue
        out.append((a, d))
    return out


def model_of(regs):
    return canon([(a, region_data(a, n)) for a, n in regs])


def shape(runs):
    return tuple((a, len(d)) for a, d in runs)


def as_map(runs):
    m = {}
    for a, d in runs:
        for i, b in enumerate(d):
            m[a + i] = b
    return m


def classify(got_runs, model_runs):
    """lost-data: model bytes missing, nothing wrong; extra-data: only additional bytes; wrong-data otherwise."""
    g, m = as_map(got_runs), as_map(model_runs)
    missing = [a for a in m if a not in g]
    extra = [a for a in g if a not in m]
    wrong = [a for a in m if a in g and g[a] != m[a]]
    if wrong or (missing and extra):
        cls = "wrong-data"
    elif missing:
        cls = "lost-data"
    else:
        cls = "extra-data"
    first = min(missing + extra + wrong)
    return cls, "%d bytes missing, %d extra, %d different; first at %#x" % (len(missing), len(extra), len(wrong), first)


def crosses_64k(regs):
    return any((a >> 16) != ((a + n - 1) >> 16) for a, n in regs)


def feature(regs):
    if crosses_64k(regs):
        return "64k-crossing"
    if any(a + n > 0x10000 for a, n in regs):
        return "above-64k"
    return "below-64k"


def join_kind(model_runs, a, n):
    left = any(ra + len(rd) == a for ra, rd in model_runs)
    right = any(ra == a + n for ra, rd in model_runs)
    return "both-sides" if left and right else "left" if left else "right" if right else "isolated"


JOIN_RANK = {"isolated": 0, "left": 1, "right": 1, "both-sides": 2}


def fmt_regs(regs):
    return "[" + ", ".join("(%#x, %d bytes)" % (a, n) for a, n in regs) + "]"


# ---------------------------------------------------------------- independent Intel HEX reader / record checker

PAYLOAD_LEN = {1: 0, 2: 2, 3: 4, 4: 2, 5: 4}
HEXDIGITS = set("0123456789abcdefABCDEF")


def ihex_read(text):
    """Read Intel HEX text per the specification.  Returns (errors, runs, start, stats); errors is a list of
    (class, message); runs is the canonical memory (None on overlap); start is None, ('linear', v) or ('segment', v)."""
    errors = []
    pieces = []
    start = None
    stats = {"data": 0, "ext": 0, "start": 0, "cksum0": 0, "straddle": 0}
    base = 0
    segment_mode = False
    eof_seen = False
    lines = text.split("\n")
    if lines and lines[-1] == "":
        lines.pop()
    for no, line in enumerate(lines, 1):
        line = line.rstrip("\r")
        if eof_seen:
            errors.append(("structure/eof-not-last", "line %d follows the end-of-file record" % no))
            break
        if not line.startswith(":"):
            errors.append(("record/no-record-mark", "line %d %r does not start with ':'" % (no, line[:20])))
            continue
        body = line[1:]
        if len(body) % 2 or not body or any(c not in HEXDIGITS for c in body):
            errors.append(("record/not-hex-pairs", "line %d is not a sequence of hex digit pairs" % no))
            continue
        b = bytes.fromhex(body)
        if len(b) < 5:
            errors.append(("record/too-short", "line %d has fewer than 5 bytes" % no))
            continue
        reclen, off, typ = b[0], (b[1] << 8) | b[2], b[3]
        if len(b) != reclen + 5:
            errors.append(("record/byte-count", "line %d: RECLEN %d but %d payload bytes present" % (no, reclen, len(b) - 5)))
            continue
        if sum(b) & 0xFF:
            errors.append(("record/checksum", "line %d: sum of record bytes is %#x mod 256, must be 0" % (no, sum(b) & 0xFF)))
        if b[-1] == 0:
            stats["cksum0"] += 1
        payload = b[4:-1]
        if typ > 5:
            errors.append(("record/type", "line %d: record type %02X is not defined" % (no, typ)))
            continue
        if typ != 0 and reclen != PAYLOAD_LEN[typ]:
            errors.append(("record/payload-length/type%02d" % typ, "line %d: type %02X record must carry %d bytes, has %d" % (no, typ, PAYLOAD_LEN[typ], reclen)))
            continue
        if typ != 0 and off != 0:
            errors.append(("record/offset-nonzero/type%02d" % typ, "line %d: type %02X record must have load offset 0000, has %04X" % (no, typ, off)))
        if typ == 0:
            stats["data"] += 1
            if segment_mode:
                for i, v in enumerate(payload):
                    pieces.append((base + ((off + i) & 0xFFFF), bytes([v])))
            else:
                a = (base + off) % LIMIT
                if off + reclen > 0x10000:
                    stats["straddle"] += 1
                if a + reclen > LIMIT:
                    k = LIMIT - a
                    pieces.append((a, payload[:k]))
                    pieces.append((0, payload[k:]))
                else:
                    pieces.append((a, payload))
        elif typ == 1:
            eof_seen = True
        elif typ == 2:
            base, segment_mode = ((payload[0] << 8) | payload[1]) << 4, True
            stats["ext"] += 1
        elif typ == 4:
            base, segment_mode = ((payload[0] << 8) | payload[1]) << 16, False
            stats["ext"] += 1
        else:
            stats["start"] += 1
            if start is not None:
                errors.append(("structure/two-start-records", "line %d: second start address record" % no))
            start = ("segment" if typ == 3 else "linear", int.from_bytes(payload, "big"))
    if not eof_seen:
        errors.append(("structure/eof-missing", "no end-of-file record"))
    runs = canon(pieces)
    if runs is None:
        errors.append(("structure/overlapping-records", "two data records define the same address"))
    return errors, runs, start, stats


def ref_write(runs, start):
    """Boring reference writer: 16-byte records that never straddle a 64 KiB boundary, upper-case, type 05 before EOF."""
    def rec(off, typ, payload):
        b = bytes([len(payload), off >> 8, off & 0xFF, typ]) + payload
        return ":" + (b + bytes([(-sum(b)) & 0xFF])).hex().upper()
    out = []
    upper = None
    for a, d in runs:
        pos = 0
        while pos < len(d):
            cur = a + pos
            if (cur >> 16) != upper:
                upper = cur >> 16
                out.append(rec(0, 4, bytes([upper >> 8, upper & 0xFF])))
            n = min(16, len(d) - pos, 0x10000 - (cur & 0xFFFF))
            out.append(rec(cur & 0xFFFF, 0, d[pos:pos + n]))
            pos += n
    out.append(rec(0, 5, start.to_bytes(4, "big")))
    out.append(rec(0, 1, b""))
    return "\n".join(out) + "\n"


# ---------------------------------------------------------------- recording

_ORDER = [0]


def _viol(p, key, what, wit):
    """Record with the global simplest-first rank of the region set, so that the kept witness is the minimal one
    whatever the sharding."""
    p.violation(key, what, wit, order=_ORDER[0])


# ---------------------------------------------------------------- BFD

def parse_objdump(out):
    """Split `objdump -s -f` output over many files into {path: (start, pieces)}."""
    res = {}
    cur = None
    for line in out.split("\n"):
        if line.endswith("file format ihex") and ":" in line:
            cur = line[:line.rindex(":")].rstrip()
            res[cur] = [None, []]
        elif cur is None:
            continue
        elif line.startswith("start address 0x"):
            res[cur][0] = int(line.split()[2], 16)
        elif line.startswith(" ") and len(line) > 2 and line[1] != " ":
            sp = line.index(" ", 1)
            addr = int(line[1:sp], 16)
            hx = line[sp + 1:sp + 36].replace(" ", "")
            res[cur][1].append((addr, bytes.fromhex(hx)))
    return res


def run_bfd(p, pending):
    """pending: list of (path, model_runs, start_expected or None, witness, feat, rank)."""
    if not pending:
        return
    r = subprocess.run(["objdump", "-s", "-f", "-b", "ihex"] + [x[0] for x in pending], capture_output=True, text=True)
    parsed = parse_objdump(r.stdout)
    for path, model, sa, wit, feat, rank in pending:
        _ORDER[0] = rank
        p.add()
        p.count("bfd_decodes")
        got = parsed.get(path)
        if got is None:
            msg = [l for l in r.stderr.split("\n") if os.path.basename(path) in l]
            _viol(p, "bfd/rejects", "objdump -b ihex rejects the text saved for %s: %s" % (fmt_regs(wit["regions"]), "; ".join(msg)[:200]), wit)
            continue
        runs = canon(got[1])
        if runs != model:
            if runs is None:
                cls, det = "wrong-data", "BFD sections overlap"
            else:
                cls, det = classify(runs, model)
            _viol(p, "bfd/decode/%s/%s" % (feat, cls), "BFD decodes the text saved for %s to %s, expected %s (%s)" % (
                fmt_regs(wit["regions"]), fmt_regs(shape(runs or [])), fmt_regs(shape(model)), det), wit)
        if sa is not None and got[0] != sa:
            _viol(p, "bfd/start-address", "BFD reads start address %r from a file whose start record carries %#x" % (got[0], sa), wit)


# ---------------------------------------------------------------- the explorer

def impl_runs(h):
    return [(r.address, bytes(r.data)) for r in h.regions]


def judge_state(h, model):
    """None if the HexFile denotes `model` in merged, sorted form; else (class, detail)."""
    got = impl_runs(h)
    for (a1, d1), (a2, d2) in zip(got, got[1:]):
        if a1 > a2:
            return "unsorted", "regions %s are not sorted" % fmt_regs(shape(got))
    c = canon(got)
    if c is None:
        return "overlapping", "regions %s overlap" % fmt_regs(shape(got))
    if c != model:
        cls, det = classify(c, model)
        return cls, "regions are %s, the model has %s (%s)" % (fmt_regs(shape(got)), fmt_regs(shape(model)), det)
    if len([g for g in got if g[1]]) != len(model) or any(not g[1] for g in got):
        return "not-merged", "regions %s are adjacent but not merged (model: %s)" % (fmt_regs(shape(got)), fmt_regs(shape(model)))
    return None


def add_sequence(HexFile, regs):
    """Fresh HexFile, add regs in order; returns (hexfile, first failure or None) without recording anything."""
    h = HexFile()
    done = []
    for a, n in regs:
        before = model_of(done)
        done.append((a, n))
        try:
            h.add_region(a, region_data(a, n))
        except Exception as ex:  # noqa
            return h, ("raises", ex, (a, n), join_kind(before, a, n))
        bad = judge_state(h, model_of(done))
        if bad:
            return h, (bad[0], bad[1], (a, n), join_kind(before, a, n))
    return h, None


def run_history(p, HexFile, order, k):
    """regions order[:k] -> file 1, order[k:] -> file 2, file1.merge(file2).  Returns the final HexFile or None."""
    from vf.core import exc_key
    n = len(order)
    wit = {"regions": [list(r) for r in order], "split": k}
    p.add()
    p.count("histories")
    ops = 0
    files = []
    for part in (order[:k], order[k:]):
        h = HexFile()
        done = []
        for a, sz in part:
            before = model_of(done)
            jk = join_kind(before, a, sz)
            done.append((a, sz))
            ops += 1
            try:
                h.add_region(a, region_data(a, sz))
            except Exception as ex:  # noqa
                _viol(p, exc_key("add_region/raises", ex), "add_region(%#x, %d bytes) after %s raised %r" % (a, sz, fmt_regs(done[:-1]), ex), wit)
                p.count("transitions", ops)
                return None
            bad = judge_state(h, model_of(done))
            if bad:
                _viol(p, "add_region/%s/%s" % (jk, bad[0]), "after add_region of %s in this order, adding (%#x, %d bytes) [%s join]: %s" % (
                    fmt_regs(done[:-1]), a, sz, jk, bad[1]), wit)
                p.count("transitions", ops)
                return None
            p.outcome(("add", jk, crosses_64k([(a, sz)]), len(h.regions)))
        files.append((h, done))
    h1, h2 = files[0][0], files[1][0]
    if k == n:
        p.count("transitions", ops)
        return h1
    # merge
    m1, m2 = model_of(order[:k]), model_of(order[k:])
    worst = "isolated"
    acc = list(m1)
    for a, d in m2:
        jk = join_kind(acc, a, len(d))
        if JOIN_RANK[jk] > JOIN_RANK[worst]:
            worst = jk
        acc = canon(acc + [(a, d)])
    full = model_of(order)
    ops += 1
    p.count("transitions", ops)
    fail = None
    try:
        h1.merge(h2)
    except Exception as ex:  # noqa
        fail = ("raises", repr(ex), ex)
    else:
        bad = judge_state(h1, full)
        if bad:
            fail = (bad[0], bad[1], None)
    if fail is None:
        p.outcome(("merge", worst, len(m1), len(m2), len(full)))
        return h1
    # locus: is it merge itself, or the add_region steps it stands for?
    equiv = list(order[:k]) + [(a, len(d)) for a, d in m2]
    _, addfail = add_sequence(HexFile, equiv)
    what = "merge of %s into %s [%s join]: %s" % (fmt_regs(shape(m2)), fmt_regs(order[:k]), worst, fail[1])
    if addfail is not None and addfail[0] == fail[0]:
        # the same failure without merge(): attribute to add_region (same key as the pure history)
        if fail[0] == "raises":
            _viol(p, exc_key("add_region/raises", fail[2]), what, wit)
        else:
            _viol(p, "add_region/%s/%s" % (addfail[3], fail[0]), what, wit)
    elif fail[0] == "raises":
        _viol(p, exc_key("merge/raises", fail[2]), what, wit)
    else:
        _viol(p, "merge/%s/%s" % (worst, fail[0]), what, wit)
    return None


def save_load(p, HexFile, h, regs, sa, d, pending, seen_texts, want_bfd):
    """save, judge the text, load it back, load the reference text, queue the text for BFD.
    One defect should give one key: a later stage is only judged when the earlier stages found nothing."""
    from vf.core import exc_key
    model = model_of(regs)
    feat = feature(regs)
    lfeat = "upper-address-nonzero" if any(a + n > 0x10000 for a, n in regs) else "upper-address-zero"
    wit = {"regions": [list(r) for r in regs], "split": len(regs), "sa": sa}
    p.add()
    p.count("save_load_roundtrips")
    p.count("transitions", 2)
    h.start_address = sa
    f = io.StringIO()
    try:
        h.save(f)
    except Exception as ex:  # noqa
        _viol(p, exc_key("save/%s/raises" % feat, ex), "save of %s raised %r" % (fmt_regs(regs), ex), wit)
        return
    text = f.getvalue()
    errors, runs, start, stats = ihex_read(text)
    for cls, msg in errors:
        _viol(p, "save/" + cls, "text saved for %s start %#x: %s" % (fmt_regs(regs), sa, msg), wit)
    text_ok = not errors
    start_ok = False
    if text_ok:
        if runs != model:
            text_ok = False
            cls, det = classify(runs, model)
            _viol(p, "save/decode/%s/%s" % (feat, cls), "text saved for %s decodes (specification reader) to %s (%s)" % (
                fmt_regs(regs), fmt_regs(shape(runs)), det), wit)
        p.outcome(("save", stats["ext"], min(stats["data"], 8), stats["straddle"] > 0, stats["cksum0"] > 0, stats["start"]))
        if start is None:
            if sa != 0:
                _viol(p, "save/start-address-not-written", "HexFile with start_address %#x saved for %s has no start address record (type 05/03)" % (
                    sa, fmt_regs(regs)), wit)
            else:
                start_ok = True
        elif start[1] != sa:
            _viol(p, "save/start-address-wrong", "start address record carries %#x, start_address is %#x" % (start[1], sa), wit)
        else:
            start_ok = True
    # load back (judged only if the text itself is right: otherwise the defect is already located in save)
    load_fail = None
    if text_ok:
        try:
            h2 = HexFile.load(io.StringIO(text))
        except Exception as ex:  # noqa
            load_fail = "raises"
            _viol(p, exc_key("load/%s/raises" % lfeat, ex), "load of the text saved for %s raised %r" % (fmt_regs(regs), ex), wit)
            h2 = None
        if h2 is not None:
            bad = judge_state(h2, model)
            if bad:
                load_fail = bad[0]
                _viol(p, "load/%s/%s" % (lfeat, bad[0]), "load(save(h)) for %s: %s" % (fmt_regs(regs), bad[1]), wit)
            if start_ok and h2.start_address != sa:
                load_fail = load_fail or "start"
                _viol(p, "load/start-address", "load(save(h)).start_address = %r, expected %#x (record present in the text)" % (h2.start_address, sa), wit)
    else:
        p.count("loads_not_judged_because_saved_text_wrong")
    # the reader on reference-written text of the same state (de-vacuates the start-address branch of load);
    # reported only when the round trip above did not already show load failing
    p.add()
    rtext = ref_write(model, sa)
    ref_fail = None
    try:
        h3 = HexFile.load(io.StringIO(rtext))
    except Exception as ex:  # noqa
        ref_fail = (exc_key("load-reference-text/%s/raises" % lfeat, ex), "load of reference-written text for %s raised %r" % (fmt_regs(regs), ex))
        h3 = None
    if h3 is not None:
        bad = judge_state(h3, model)
        if bad:
            ref_fail = ("load-reference-text/%s/%s" % (lfeat, bad[0]), "load of reference-written text for %s: %s" % (fmt_regs(regs), bad[1]))
        elif h3.start_address != sa:
            ref_fail = ("load-reference-text/start-address", "load of reference text with a type 05 record %08X gives start_address %r" % (sa, h3.start_address))
        else:
            p.outcome(("load-ref", sa))
    if ref_fail and not load_fail:
        _viol(p, ref_fail[0], ref_fail[1], wit)
    # BFD on every distinct saved text that the specification reader accepts and decodes to the model
    if want_bfd and text not in seen_texts:
        seen_texts.add(text)
        if not text_ok:
            # the defect is already located by the specification reader; BFD is the judge of texts that reader accepts
            p.count("bfd_not_asked_text_already_judged_wrong")
            return
        path = os.path.join(d, "f%d.hex" % next(_FILENO))
        with open(path, "w") as out:
            out.write(text)
        pending.append((path, model, sa if (start is not None and start_ok) else None, wit, feat, _ORDER[0]))
        if len(pending) >= BFD_BATCH:
            flush_bfd(p, pending)


def flush_bfd(p, pending):
    keep = _ORDER[0]
    run_bfd(p, pending)
    _ORDER[0] = keep
    for x in pending:
        try:
            os.unlink(x[0])
        except OSError:
            pass
    del pending[:]


def starts_for(regs):
    """All four start addresses; states with a 0x10010-byte region (slow) get 0 and one non-zero value chosen by the set."""
    if any(n == HUGE for a, n in regs):
        return [0, STARTS[1 + sum(a + n for a, n in regs) % 3]]
    return STARTS


def explore_set(p, HexFile, regs, d, pending, want_bfd=True):
    """All histories of one region set, then save/load of its final state with every start address."""
    n = len(regs)
    final = None
    for order in itertools.permutations(regs):
        for k in range(n, -1, -1) if n else [0]:
            h = run_history(p, HexFile, order, k)
            if h is not None:
                final = h
    model = model_of(regs)
    p.outcome(("state", shape(model)))
    if final is None:
        p.count("states_not_saved_because_no_history_reached_them")
        return
    seen = set()
    huge = any(n == HUGE for a, n in regs)
    for sa in starts_for(regs):
        save_load(p, HexFile, final, regs, sa, d, pending, seen, want_bfd and (sa != 0 or not huge))


def worker(p, shard):
    from ppci.format.hexfile import HexFile
    from vf.core import scratch, cpu_limit, CpuTimeout
    with scratch(ID) as d:
        pending = []
        for rank, regs in shard:
            _ORDER[0] = rank
            try:
                with cpu_limit(120):
                    explore_set(p, HexFile, regs, d, pending)
            except CpuTimeout:
                _viol(p, "hang", "exploring %s exceeded 120 s of CPU" % fmt_regs(regs), {"regions": [list(r) for r in regs], "split": len(regs)})
        flush_bfd(p, pending)


# ---------------------------------------------------------------- enumeration

def regions_over(addrs, huge_addrs=None):
    return [(a, n) for a in addrs for n in SIZES if a + n <= LIMIT and (n != HUGE or huge_addrs is None or a in huge_addrs)]


def disjoint(regs):
    s = sorted(regs)
    return all(a1 + n1 <= a2 for (a1, n1), (a2, n2) in zip(s, s[1:]))


def sets_over(regions, sizes, max_huge=None):
    out = []
    for n in sizes:
        for c in itertools.combinations(regions, n):
            if not disjoint(c):
                continue
            if max_huge is not None and sum(1 for r in c if r[1] == HUGE) > max_huge:
                continue
            out.append(tuple(sorted(c)))
    return out


def enumerate_sets(tier):
    full = regions_over(ADDRS, QUICK_HUGE_ADDRS if tier == "quick" else None)
    sets = set(sets_over(full, (0, 1, 2)))
    for sub in SUBALPHABETS:
        sets.update(sets_over(regions_over(sub), (3,)))
    if tier == "thorough":
        sets.update(sets_over(full, (3,), max_huge=1))
    # simplest first: fewer regions, fewer bytes, lower addresses
    return sorted(sets, key=lambda s: (len(s), sum(n for a, n in s), s))


def run(ctx):
    sets = enumerate_sets(ctx.tier)
    for r in regions_over(ADDRS):
        region_data(*r)  # build before forking
    ctx.note("region_alphabet", "%d addresses x %d sizes = %d regions ending at or below 4 GiB" % (len(ADDRS), len(SIZES), len(regions_over(ADDRS))))
    ctx.note("region_sets", len(sets))
    ctx.note("region_sets_by_size", {str(k): sum(1 for s in sets if len(s) == k) for k in range(4)})
    ctx.note("sets_with_three_adjacent_regions", sum(1 for s in sets if len(s) == 3 and len(canon([(a, b"x" * n) for a, n in s])) == 1))
    ctx.note("sets_crossing_64k", sum(1 for s in sets if crosses_64k(s)))
    def first(pred):
        return next((x for x in sets if pred(x)), None)
    picks = [first(lambda x: len(x) == 1 and crosses_64k(x)),
             first(lambda x: len(x) == 2 and len(canon([(a, b"x" * n) for a, n in x])) == 1),
             first(lambda x: len(x) == 3 and len(canon([(a, b"x" * n) for a, n in x])) == 1),
             first(lambda x: len(x) == 3 and any(n == HUGE for a, n in x))]
    for x in picks:
        if x is not None:
            ctx.sample({"region_set": [[hex(a), n] for a, n in x], "histories": "every order x every split point: %d" % (
                len(list(itertools.permutations(x))) * (len(x) + 1)), "model_state": [[hex(a), n] for a, n in shape(model_of(x))],
                "start_addresses": [hex(v) for v in starts_for(x)],
                "reference_text_head": ref_write(model_of(x), starts_for(x)[-1]).split("\n")[:3]})
    ctx.pmap(worker, list(enumerate(sets)))
    ctx.states = len({shape(canon([(a, b"x" * n) for a, n in s])) for s in sets})
    ctx.transitions = ctx.counters.get("transitions", 0)
    ctx.traces = ctx.counters.get("histories", 0)
    ctx.note("bfd_family", "every distinct saved text that the specification reader accepts, of every explored final state; "
             "states with a 0x10010-byte region: only the text saved with the non-zero start address")


def replay(w):
    from vf.core import Partial, scratch
    from ppci.format.hexfile import HexFile
    p = Partial()
    order = [tuple(r) for r in w["regions"]]
    k = w.get("split", len(order))
    h = run_history(p, HexFile, order, k)
    if h is not None and "sa" in w:
        with scratch(ID + "r") as d:
            pending = []
            save_load(p, HexFile, h, order, w["sa"], d, pending, set(), True)
            flush_bfd(p, pending)
    if p.violations:
        k0 = sorted(p.violations, key=lambda x: (p.violations[x][0], x))[0]
        return True, k0 + ": " + p.violations[k0][1]
    return False, "history and round trip agree with the model"
