"""C13 - RISC-V linker relaxation preserves program behaviour: relaxed link vs the same link with relaxation disabled, structurally and on the RV32IMC emulator."""
import os
import sys
import json
import itertools
import subprocess

ID = "C13"
LEVEL = "exploration"
RULE = ("riscv:rvc programs emitted as instruction objects through BinaryOutputStream (the code generator's path): n <= 3 (thorough: 4) basic blocks in "
        "every layout order x every execution order, consecutive blocks of the execution order connected by every combination of transfer kinds "
        "{j (CB), jal zero (CBl), beq + j, la/lw/jalr through an aligned data word holding a label}, filler of every size in "
        "{0,2,4,2040,2044,2046,2048,2050,4094,4096} between layout-adjacent blocks (so every jump spans every boundary distance in both directions), "
        "a label right after every relaxable instruction, optional call site jal ra / jal t0 to a function block that returns through that register, "
        "blocks split over 1-2 code sections in 1-2 memory images; plus C functions compiled for riscv:rvc at -O0/-O1 with code and data in one or in two "
        "images; each program is linked with relaxation (real Linker) and without (do_relaxations patched to a no-op); distinct non-trivial = distinct "
        "(transfer kinds, shrink pattern, label-level execution trace)")
ASSUMPTIONS = [
    "reference: ppci.api.link of the same objects with Linker.do_relaxations replaced by a no-op (C11/C12 check that link); programs whose reference "
    "link fails (a fixed-range branch cannot reach) are outside the domain and counted",
    "oracle (a), structure: both outputs are walked item by item (the generator knows the item list); every instruction is decoded by vf/sem/rv32.py "
    "(validated against llvm-mc on all 16-bit encodings and a 32-bit lattice by tests/test_rv32.py); a relaxed instruction must be the same operation on "
    "the same registers, may be shorter only if it is a relaxable site, and every jump/branch target, la address and data word must resolve - through "
    "that output's own symbol table - to the same set of labels as in the reference; every label must sit at its logical item in both outputs",
    "oracle (b), execution: both images run on the RV32IMC emulator from the entry label to the `end` label for the 9 V3 x V3 values of (a0, a1); the "
    "label-level traces and a0-a3 must be identical, ra/t0/t1 are compared as labels when they hold code addresses; an execution difference is "
    "reported on its own only when the structural oracle found nothing for that program (otherwise it is counted as corroboration)",
    "an emulator IllegalInstruction never produces a violation (counted as unclassified)",
    "alignment: an output whose section address violates the section's alignment, or whose `.align n`-ed item is no longer n-aligned, is reported "
    "(a conforming RV32 machine may trap on the misaligned access; ppci's own absaddr32 relocation asserts on it)",
    "compiled C objects: ppci's own calling convention (arguments x12/x13, result x10); the structural oracle is a lock-step linear decode of the two "
    "code sections; host stubs answer external calls as in C05",
]
CLAIM = {"text": "inside the enumerated bound a relaxed riscv:rvc link reaches the same logical targets, keeps every symbol on its instruction and computes the "
                 "same results as the unrelaxed link, apart from listed known findings",
         "note": "trusted: unrelaxed ppci link, RV32IMC reference emulator/decoder", "technique": "bounded exhaustive differential linking + emulation", "engine": "K1"}

FILL = [0, 2, 4, 2040, 2044, 2046, 2048, 2050, 4094, 4096]
FILL3 = [0, 2046, 2048]
FILLX = [0, 2040, 2042, 2046]      # two-section / two-image programs: a jump over filler f spans f + 4 (+ padding) bytes
FILL5 = [0, 2, 2046, 2048, 4094]
KINDS = ["j", "jz", "beq", "ind"]
BASE = 0x10000
RA0, T0_0 = 0xFFFFFFF0, 0xFFFFFFE0


# ------------------------------------------------------------------------------------------------ program description -> items

def program_items(d):
    """d = {"n": blocks, "exec": permutation (execution order of layout blocks), "kinds": [transfer kind per execution edge], "fill": [filler after
    each layout block but the last], "split": layout index at which section code2 starts (None: one section), "images": 1|2,
    "call": None | {"rd": "ra"|"t0", "pos": "start"|"end", "fill": n}}
    -> {section name: [item]}; item = ("label", name) | ("ins", tag, args...) | ("la", reg, label) | ("word", label) | ("fill", n) | ("align", n)"""
    n, order = d["n"], d["exec"]
    nxt = {order[k]: order[k + 1] for k in range(n - 1)}
    nxt2 = {order[k]: order[k + 2] for k in range(n - 2)}
    kind_of = {order[k]: d["kinds"][k] for k in range(n - 1)}
    secs = {"code": []}
    if d.get("split") is not None:
        secs["code2"] = []
    call = d.get("call")

    def fblock(items):
        items.append(("label", "F"))
        items.append(("ins", "addi", 12, 12, 3))
        items.append(("ins", "ret", 1 if call["rd"] == "ra" else 5))

    cur = secs["code"]
    if call and call["pos"] == "start":
        fblock(cur)
        cur.append(("fill", call["fill"]))
    for b in range(n):
        if d.get("split") is not None and b == d["split"]:
            cur = secs["code2"]
        cur.append(("label", "B%d" % b))
        if b % 2 == 0:
            cur.append(("ins", "c.addi", 10, b + 1))
        else:
            cur.append(("ins", "addi", 11, 11, b + 1))
        if call and b == order[0]:
            cur.append(("ins", "jal", 1 if call["rd"] == "ra" else 5, "F"))
            cur.append(("label", "ret%d" % b))
            cur.append(("ins", "c.addi", 13, 1))
        if b in nxt:
            k, t = kind_of[b], "B%d" % nxt[b]
            if k == "j":
                cur.append(("ins", "j", t))
            elif k == "jz":
                cur.append(("ins", "jal", 0, t))
            elif k == "beq":
                cur.append(("ins", "beq", 10, 11, "B%d" % nxt2.get(b, nxt[b])))
                cur.append(("label", "mid%d" % b))
                cur.append(("ins", "j", t))
            elif k == "ind":
                cur.append(("la", 6, "W%d" % b))
                cur.append(("ins", "lw", 6, 6, 0))
                cur.append(("ins", "jr", 6))
                cur.append(("label", "aft%d" % b))
                cur.append(("align", 4))
                cur.append(("label", "W%d" % b))
                cur.append(("word", t))
                cur.append(("label", "wend%d" % b))
            if k != "ind":
                cur.append(("label", "aft%d" % b))
        else:
            cur.append(("ins", "b", "end"))       # base-ISA jal zero (b_imm20): not relaxable
        if b < n - 1:
            cur.append(("fill", d["fill"][b]))
    if call and call["pos"] == "end":
        cur.append(("fill", call["fill"]))
        fblock(cur)
    cur.append(("align", 2))
    cur.append(("label", "end"))
    cur.append(("ins", "c.nop"))
    return secs


REG = {}


def build_object(secs):
    from ppci.api import get_arch
    from ppci.binutils.objectfile import ObjectFile
    from ppci.binutils.outstream import BinaryOutputStream
    from ppci.arch.generic_instructions import Label
    from ppci.arch.data_instructions import DZero
    from ppci.arch.riscv import instructions as I, rvc_instructions as C, registers as R
    if not REG:
        for k in range(32):
            REG[k] = R.get_register(k)
    arch = get_arch("riscv:rvc")
    obj = ObjectFile(arch)
    s = BinaryOutputStream(obj)
    for name, items in secs.items():
        s.emit(I.Section(name))
        for it in items:
            k = it[0]
            if k == "label":
                s.emit(Label(it[1]))
            elif k == "fill":
                if it[1]:
                    s.emit(DZero(it[1]))
            elif k == "align":
                s.emit(I.Align(it[1]))
            elif k == "word":
                s.emit(I.dcd(it[1]))
            elif k == "la":
                s.emit(I.Adrurel(REG[it[1]], it[2]))
                s.emit(I.Adrlrel(REG[it[1]], it[2]))
            else:
                tag = it[1]
                if tag == "c.addi":
                    s.emit(C.CAddi(REG[it[2]], REG[it[2]], it[3]))
                elif tag == "addi":
                    s.emit(I.Addi(REG[it[2]], REG[it[3]], it[4]))
                elif tag == "j":
                    s.emit(C.CB(it[2]))
                elif tag == "jal":
                    s.emit(C.CBl(REG[it[2]], it[3]))
                elif tag == "b":
                    s.emit(I.B(it[2]))
                elif tag == "beq":
                    s.emit(I.Beq(REG[it[2]], REG[it[3]], it[4]))
                elif tag == "lw":
                    s.emit(I.Lw(REG[it[2]], it[4], REG[it[3]]))
                elif tag == "jr":
                    s.emit(I.Blr(REG[0], REG[it[2]], 0))
                elif tag == "ret":
                    if it[2] == 1:
                        s.emit(C.CJr(REG[1]))
                    else:
                        s.emit(I.Blr(REG[0], REG[it[2]], 0))
                elif tag == "c.nop":
                    s.emit(C.CNop())
                else:
                    raise ValueError(tag)
    return obj


def make_layout(sections, images, sizes, base=BASE):
    """sections in order; images == 2: the last section goes to a second memory that starts right behind the first (4-aligned)"""
    from ppci.binutils.layout import Layout, Memory, Section
    lay = Layout()
    first = sections if images == 1 else sections[:-1]
    mem = Memory("m1")
    mem.location = base
    mem.size = 0x20000
    for sname in first:
        mem.add_input(Section(sname))
    lay.add_memory(mem)
    if images == 2:
        end = base
        for sname in first:
            end = (end + 3) // 4 * 4 + sizes[sname]
        m2 = Memory("m2")
        m2.location = (end + 3) // 4 * 4
        m2.size = 0x20000
        m2.add_input(Section(sections[-1]))
        lay.add_memory(m2)
    return lay


class NoRelax:
    def __enter__(self):
        from ppci.binutils.linker import Linker
        self.L = Linker
        self.old = Linker.do_relaxations
        Linker.do_relaxations = lambda self_: None

    def __exit__(self, *a):
        self.L.do_relaxations = self.old


def link_both(make_objs, make_lay, extra=None):
    """-> (ref, rel, ref_exc, rel_exc)"""
    from ppci.api import link
    ref = rel = ref_exc = rel_exc = None
    try:
        with NoRelax():
            ref = link(make_objs(), layout=make_lay(), extra_symbols=extra)
    except Exception as e:  # noqa
        ref_exc = e
    if ref_exc is None:
        try:
            rel = link(make_objs(), layout=make_lay(), extra_symbols=extra)
        except Exception as e:  # noqa
            rel_exc = e
    return ref, rel, ref_exc, rel_exc


# ------------------------------------------------------------------------------------------------ structural oracle

class Image:
    def __init__(self, obj):
        self.obj = obj
        self.sec = {s.name: s for s in obj.sections}
        self.addr = {}
        self.at = {}
        self.secof = {}
        for s in obj.symbols:
            if s.section is None or s.undefined:
                continue
            a = self.sec[s.section].address + s.value
            self.addr[s.name] = a
            self.secof[s.name] = s.section
            self.at.setdefault(a, set()).add(s.name)

    def labels(self, a, like=None):
        """labels at address a; like=NAME: only the labels living in NAME's section (the end of one section may share its address with
        the start of the next one in one output and not in the other - that coincidence is not a logical identity)"""
        ls = self.at.get(a & 0xFFFFFFFF, ())
        if like is not None:
            sec = self.secof.get(like)
            ls = [x for x in ls if self.secof[x] == sec]
        return tuple(sorted(ls))

    def labels_pc(self, pc):
        """labels of the instruction at pc: only those of the section that contains pc"""
        ls = self.at.get(pc & 0xFFFFFFFF, ())
        if not ls:
            return ()
        return tuple(sorted(x for x in ls if self.sec[self.secof[x]].address <= pc < self.sec[self.secof[x]].address + self.sec[self.secof[x]].size))

    def word(self, sname, off, n=4):
        return int.from_bytes(bytes(self.sec[sname].data[off:off + n]), "little")


def same_op(a, b):
    return (a.op, a.rd, a.rs1, a.rs2) == (b.op, b.rd, b.rs1, b.rs2)


def structure(secs, ref, rel):
    """-> [(key, text)] structural differences between the relaxed and the reference output (empty: none); raises Unclassified"""
    from vf.sem import rv32
    R, X = Image(ref), Image(rel)
    bad = []
    shrunk = []

    def diff(key, text):
        bad.append((key, text))

    for sname, items in secs.items():
        sr, sx = R.sec[sname], X.sec[sname]
        if sx.address % max(sx.alignment, 1):
            diff("layout/section-address-misaligned", "section %s (alignment %d) is placed at %#x after relaxation" % (sname, sx.alignment, sx.address))
        cr = cx = 0
        for it in items:
            k = it[0]
            if k == "label":
                if R.addr.get(it[1]) != sr.address + cr:
                    raise Unclassified("reference symbol %s not at its item" % it[1])
                if X.addr.get(it[1]) != sx.address + cx:
                    diff("structure/symbol-misplaced", "label %s is at %#x in the relaxed output, its instruction is at %#x" % (it[1], X.addr.get(it[1], -1), sx.address + cx))
            elif k == "fill":
                if bytes(sx.data[cx:cx + it[1]]) != bytes(sr.data[cr:cr + it[1]]):
                    diff("structure/filler-bytes-differ", "filler of %d bytes at reference offset %#x differs in the relaxed output (offset %#x)" % (it[1], cr, cx))
                cr += it[1]
                cx += it[1]
            elif k == "align":
                pad = (-cr) % it[1]
                cr += pad
                cx += pad
                if (sx.address + cx) % it[1]:
                    diff("layout/in-section-alignment-lost", ".align %d item of section %s sits at %#x after relaxation" % (it[1], sname, sx.address + cx))
            elif k == "word":
                wr, wx = R.word(sname, cr), X.word(sname, cx)
                lr, lx = R.labels(wr, it[1]), X.labels(wx, it[1])
                if it[1] not in lr:
                    raise Unclassified("reference data word does not hold its label")
                if lr != lx:
                    diff("structure/data-reference-differs", "data word for %s holds %#x = %r in the relaxed output (reference: %r)" % (it[1], wx, lx, lr))
                cr += 4
                cx += 4
            elif k == "la":
                try:
                    a1, a2 = rv32.decode(R.word(sname, cr)), rv32.decode(R.word(sname, cr + 4))
                    b1, b2 = rv32.decode(X.word(sname, cx)), rv32.decode(X.word(sname, cx + 4))
                except rv32.IllegalInstruction as e:
                    diff("structure/undecodable", "la pair for %s: %s" % (it[2], e))
                    break
                ta = (sr.address + cr + a1.imm + a2.imm) & 0xFFFFFFFF
                tb = (sx.address + cx + b1.imm + b2.imm) & 0xFFFFFFFF
                if a1.op != "auipc" or a2.op != "addi" or it[2] not in R.labels(ta):
                    raise Unclassified("reference la pair does not reach its label")
                if (b1.op, b1.rd, b2.op, b2.rd, b2.rs1) != (a1.op, a1.rd, a2.op, a2.rd, a2.rs1) or X.labels(tb, it[2]) != R.labels(ta, it[2]):
                    diff("structure/address-materialisation-differs", "la %s reaches %#x = %r in the relaxed output (reference %r)" % (it[2], tb, X.labels(tb), R.labels(ta)))
                cr += 8
                cx += 8
            else:
                tag = it[1]
                try:
                    a = rv32.decode(R.word(sname, cr))
                except rv32.IllegalInstruction as e:
                    raise Unclassified("reference instruction undecodable: %s" % e)
                try:
                    b = rv32.decode(X.word(sname, cx))
                except rv32.IllegalInstruction as e:
                    diff("structure/undecodable/" + tag, "item %r at relaxed offset %#x: %s" % (it, cx, e))
                    break
                relaxable = tag in ("j", "jal")
                site = tag if tag != "jal" else "jal-" + rv32.ABI[it[2]]
                target = it[-1] if tag in ("j", "jal", "b", "beq") else None
                if b.size != a.size:
                    if not relaxable:
                        diff("structure/non-relaxable-instruction-resized/" + site, "%s became %s" % (rv32.text(a), rv32.text(b)))
                    else:
                        shrunk.append(site)
                if a.op != b.op or (a.rs1, a.rs2) != (b.rs1, b.rs2):
                    diff("structure/instruction-differs/" + site, "item %r: reference %s, relaxed %s" % (it, rv32.text(a), rv32.text(b)))
                elif a.rd != b.rd:
                    diff("structure/link-register-changed/" + site, "reference '%s' links %s, the relaxed '%s' links %s" % (rv32.text(a), rv32.ABI[a.rd], rv32.text(b), rv32.ABI[b.rd]))
                elif target is not None:
                    ta, tb = sr.address + cr + a.imm, sx.address + cx + b.imm
                    if target not in R.labels(ta):
                        raise Unclassified("reference %s does not reach %s" % (rv32.text(a), target))
                    if X.labels(tb, target) != R.labels(ta, target):
                        diff("structure/target-differs/" + site, "%s to %s reaches %#x = %r in the relaxed output (reference: %r)" % (tag, target, tb, X.labels(tb), R.labels(ta)))
                elif a.imm != b.imm:
                    diff("structure/immediate-differs/" + site, "reference %s, relaxed %s" % (rv32.text(a), rv32.text(b)))
                cr += a.size
                cx += b.size
        else:
            if cr != sr.size:
                raise Unclassified("reference section %s has %d bytes, items cover %d" % (sname, sr.size, cr))
            if cx != sx.size:
                diff("structure/section-size", "relaxed section %s has %d bytes, its items cover %d" % (sname, sx.size, cx))
    # a first structural difference usually drags further ones behind it: report the layout findings and the first structural one
    first = [x for x in bad if x[0].startswith("layout/")] + [x for x in bad if not x[0].startswith("layout/")][:1]
    return first, shrunk


class Unclassified(Exception):
    pass


# ------------------------------------------------------------------------------------------------ execution oracle

def load_images(obj):
    return [(s.address, bytes(s.data)) for s in obj.sections if s.size]


def execute(obj, img, entry, stop, a0, a1):
    """-> ("ok", label trace, regs) | ("illegal", ..) | ("crash", text)"""
    from vf.sem import rv32
    m = rv32.Machine(1 << 18)
    try:
        for a, b in load_images(obj):
            m.load(a, b)
    except rv32.MemoryFault as e:
        return ("crash", str(e))
    m.x[10], m.x[11] = a0 & 0xFFFFFFFF, a1 & 0xFFFFFFFF
    m.x[1], m.x[5] = RA0, T0_0
    m.x[2] = (1 << 18) - 16
    m.pc = entry
    m.trace = []
    try:
        m.run(max_steps=2000, stop=stop)
    except rv32.IllegalInstruction as e:
        return ("illegal", "%#x" % e.word)
    except rv32.EmuError as e:
        return ("crash", "%s: %s" % (type(e).__name__, e))
    tr = tuple(img.labels_pc(pc) for pc in m.trace if pc in img.at)
    regs = tuple(m.x[r] for r in (10, 11, 12, 13)) + tuple(img.labels_pc(m.x[r]) or m.x[r] for r in (1, 5, 6))
    return ("ok", tr, regs)


V3 = [0, 1, -1]


def exec_compare(ref, rel, entry, stop="end"):
    """-> (kind | None, text, n_unclassified, outcome)"""
    R, X = Image(ref), Image(rel)
    if entry not in X.addr or stop not in X.addr:
        return "exec/entry-symbol-missing", "relaxed output has no %s/%s symbol" % (entry, stop), 0, None
    unc = 0
    out = []
    for a0, a1 in itertools.product(V3, V3):
        r = execute(ref, R, R.addr[entry], R.addr[stop], a0, a1)
        if r[0] != "ok":
            unc += 1
            continue
        x = execute(rel, X, X.addr[entry], X.addr[stop], a0, a1)
        if x[0] == "illegal":
            unc += 1
            continue
        if x[0] == "crash":
            return "exec/relaxed-image-crashes", "a0=%d a1=%d: reference trace %r; relaxed image: %s" % (a0, a1, r[1], x[1]), unc, None
        if x[1] != r[1]:
            return "exec/label-trace-differs", "a0=%d a1=%d: reference visits %r, relaxed image visits %r" % (a0, a1, r[1], x[1]), unc, None
        if x[2] != r[2]:
            return "exec/registers-differ", "a0=%d a1=%d: reference (a0..a3, ra, t0, t1) = %r, relaxed %r" % (a0, a1, r[2], x[2]), unc, None
        out.append((r[1], r[2][:4]))
    return None, "", unc, tuple(out)


# ------------------------------------------------------------------------------------------------ one generated program

def site_signature(d):
    return "%s%s" % ("+".join(d["kinds"]) or "-", "+call-" + d["call"]["rd"] if d.get("call") else "")


def check_program(p, d):
    from vf.core import exc_key
    secs = program_items(d)
    names = list(secs)
    sizes = {}
    try:
        probe = build_object(secs)
    except Exception as e:  # noqa
        p.count("program_not_encodable")
        p.collect("not_encodable", exc_key("emit", e))
        return
    for s in probe.sections:
        sizes[s.name] = s.size
    ref, rel, ref_exc, rel_exc = link_both(lambda: [build_object(secs)], lambda: make_layout(names, d.get("images", 1), sizes))
    p.add()
    if ref_exc is not None:
        p.count("reference_link_failed")
        p.collect("reference_link_failures", exc_key("ref", ref_exc))
        return
    wit = {"kind": "gen", "d": d}
    if rel_exc is not None:
        p.violation(exc_key("relaxed-link-raises", rel_exc) + "/sections=%d,images=%d" % (len(names), d.get("images", 1)),
                    "program %s links without relaxation but the relaxed link raises %r" % (describe(d), rel_exc), wit)
        return
    try:
        bad, shrunk = structure(secs, ref, rel)
    except Unclassified as e:
        p.count("unclassified_reference_unexpected")
        p.collect("unclassified", str(e)[:80])
        return
    for key, text in bad:
        p.violation(key, "program %s: %s" % (describe(d), text), wit)
    kind, text, unc, out = exec_compare(ref, rel, "B%d" % d["exec"][0])
    if unc:
        p.count("unclassified_emulator_runs", unc)
    if kind:
        if bad:
            p.count("execution_difference_corroborates_structural_finding")
        else:
            p.violation(kind + "/" + site_signature(d), "program %s: %s" % (describe(d), text), wit)
    if not bad and not kind:
        p.count("sites_shrunk", len(shrunk))
        p.count("programs_agreeing")
        p.outcome((tuple(d["kinds"]), tuple(sorted(shrunk)), out))
    if len(ref.get_section("code").data) != len(rel.get_section("code").data) or shrunk:
        p.count("programs_with_a_relaxation")


def describe(d):
    return "[n=%d exec=%s kinds=%s fill=%s%s%s%s]" % (d["n"], "".join(map(str, d["exec"])), ",".join(d["kinds"]), d["fill"],
                                                    " split@%d" % d["split"] if d.get("split") is not None else "",
                                                    " images=2" if d.get("images", 1) == 2 else "",
                                                    " call %(rd)s F@%(pos)s fill=%(fill)d" % d["call"] if d.get("call") else "")


# ------------------------------------------------------------------------------------------------ compiled C functions

def c_sources():
    from vf.checks import c05
    return [c for c in c05.c_cases()]


def check_compiled(p, item):
    from ppci import ir
    from ppci.api import get_arch, optimize, ir_to_object
    from vf.core import exc_key, cpu_limit, CpuTimeout
    from vf.checks import c05
    case, level, images = item["case"], item["level"], item["images"]
    target = "riscv:rvc"
    try:
        with cpu_limit(60):
            m = c05.build_module(case, target)
            optimize(m, level=level)
            tys, feats = c05.module_features(m)
            if not tys <= set(c05.TYPES[target]):
                p.count("compiled_skip_types")
                return
            f = [x for x in m.functions if x.name == case["fname"]][0]
            params = [c05.tyname(a.ty, target) for a in f.arguments]
            if len(params) > len(c05.RV_ARGREGS):
                # the emulator harness passes arguments in registers only (as c05.prepare does)
                p.count("compiled_skip_more_than_6_parameters")
                return
            ret = c05.tyname(f.return_ty, target) if isinstance(f, ir.Function) else None
            ext = c05.ext_signatures(m, target)
            globs = [(v.name, v.amount) for v in m.variables]
            obj = ir_to_object([m], get_arch(target))
            c05.drop_ppci_caches()
    except CpuTimeout:
        p.count("compiled_timeout")
        return
    except Exception:  # noqa
        p.count("compiled_frontend_or_codegen_failed")
        return
    slots = {n: 0x1F000 + 16 * k for k, n in enumerate(sorted(ext))}

    def lay():
        from ppci.binutils.layout import Layout, Memory, Section, Align
        L = Layout()
        m1 = Memory("m1")
        m1.location = BASE
        m1.size = 0x8000
        m1.add_input(Section("code"))
        L.add_memory(m1)
        if images == 1:
            m1.add_input(Align(4))
            m1.add_input(Section("data"))
        else:
            m2 = Memory("m2")
            m2.location = 0x20000
            m2.size = 0x8000
            m2.add_input(Section("data"))
            L.add_memory(m2)
        return L

    ref, rel, ref_exc, rel_exc = link_both(lambda: [obj], lay, extra=dict(slots))
    p.add()
    wit = {"kind": "c", "case": case, "level": level, "images": images}
    ident = "C function %s -O%s (%s)" % (case["name"], level, "code+data in one image" if images == 1 else "data in its own image")
    if ref_exc is not None:
        p.count("reference_link_failed")
        p.collect("reference_link_failures", exc_key("ref", ref_exc))
        return
    if rel_exc is not None:
        p.violation(exc_key("relaxed-link-raises", rel_exc) + "/compiled-code+data,images=%d" % images, "%s links without relaxation but the relaxed link raises %r" % (ident, rel_exc), wit)
        return
    bad = lockstep(ref, rel)
    for key, text in bad:
        p.violation(key, "%s: %s" % (ident, text), wit)
    if len(ref.get_section("code").data) != len(rel.get_section("code").data):
        p.count("programs_with_a_relaxation")
    # execution through C05's riscv executor
    diffs = 0
    for vec in itertools.product(V3, repeat=len(params)):
        obs = []
        for o in (ref, rel):
            j = c05.Job()
            j.linked, j.slots, j.externals, j.globals, j.fname, j.ret, j.params = o, slots, ext, globs, f.name, ret, params
            try:
                with cpu_limit(20):
                    obs.append(c05.exec_rv(j, list(vec)))
            except CpuTimeout:
                obs.append(("hang", "cpu"))
        if obs[0][0] != "ok" or obs[1][0] == "illegal":
            p.count("unclassified_emulator_runs")
            continue
        if obs[1] != obs[0]:
            diffs += 1
            if not bad:
                p.violation("exec/compiled-function-behaves-differently", "%s f%r: reference %r, relaxed %r" % (ident, vec, obs[0][1:], obs[1][1:]), wit)
            break
        p.outcome(("c", case["name"], obs[0][1]))
    if diffs and bad:
        p.count("execution_difference_corroborates_structural_finding")
    if not bad and not diffs:
        p.count("programs_agreeing")


def lockstep(ref, rel):
    """linear lock-step decode of the code sections of compiled objects (code sections hold instructions and zero padding only)"""
    from vf.sem import rv32
    R, X = Image(ref), Image(rel)
    bad = []
    for s in rel.sections:
        if s.size and s.address % max(s.alignment, 1):
            bad.append(("layout/section-address-misaligned", "section %s (alignment %d) is placed at %#x after relaxation" % (s.name, s.alignment, s.address)))
    sr, sx = R.sec["code"], X.sec["code"]
    cr = cx = 0
    while cr < sr.size:
        lr = R.labels(sr.address + cr)
        if cx >= sx.size:
            bad.append(("structure/section-size", "relaxed code ends at offset %#x, reference continues" % cx))
            break
        if lr != X.labels(sx.address + cx):
            bad.append(("structure/symbol-misplaced", "labels %r are at reference offset %#x; relaxed offset %#x carries %r" % (lr, cr, cx, X.labels(sx.address + cx))))
            break
        wr, wx = R.word("code", cr), X.word("code", cx)
        if wr & 0xFFFF == 0 and wx & 0xFFFF == 0:
            cr += 2
            cx += 2
            continue
        try:
            a = rv32.decode(wr)
        except rv32.IllegalInstruction:
            break       # unclassified tail (literal data inside code): stop comparing
        try:
            b = rv32.decode(wx)
        except rv32.IllegalInstruction as e:
            bad.append(("structure/undecodable/compiled", "relaxed offset %#x: %s (reference: %s)" % (cx, e, rv32.text(a))))
            break
        if a.op != b.op or (a.rs1, a.rs2) != (b.rs1, b.rs2):
            bad.append(("structure/instruction-differs/compiled", "reference %s at %#x, relaxed %s at %#x" % (rv32.text(a), cr, rv32.text(b), cx)))
            break
        if a.rd != b.rd:
            bad.append(("structure/link-register-changed/compiled", "reference %s, relaxed %s" % (rv32.text(a), rv32.text(b))))
        elif a.op in ("jal", "beq", "bne", "blt", "bge", "bltu", "bgeu"):
            ta, tb = sr.address + cr + a.imm, sx.address + cx + b.imm
            if R.labels(ta) and R.labels(ta) != X.labels(tb):
                bad.append(("structure/target-differs/compiled-" + a.op, "reference %s reaches %r, relaxed reaches %#x = %r" % (rv32.text(a), R.labels(ta), tb, X.labels(tb))))
        elif a.op != "auipc" and a.imm != b.imm and not (a.op in ("lw", "addi") and a.size == 4):
            bad.append(("structure/immediate-differs/compiled", "reference %s, relaxed %s" % (rv32.text(a), rv32.text(b))))
        cr += a.size
        cx += b.size
    return bad


# ------------------------------------------------------------------------------------------------ enumeration

def programs(tier):
    """simplest first"""
    out = []
    # n = 2
    for order in itertools.permutations(range(2)):
        for k in KINDS:
            for f in FILL:
                out.append({"n": 2, "exec": list(order), "kinds": [k], "fill": [f]})
    for order in itertools.permutations(range(2)):
        for rd in ("ra", "t0"):
            for pos in ("start", "end"):
                for ff in FILL:
                    for f in (0, 2046):
                        out.append({"n": 2, "exec": list(order), "kinds": ["j"], "fill": [f], "call": {"rd": rd, "pos": pos, "fill": ff}})
    # n = 3
    for order in itertools.permutations(range(3)):
        for ks in itertools.product(KINDS, repeat=2):
            for fs in itertools.product(FILL, repeat=2):
                out.append({"n": 3, "exec": list(order), "kinds": list(ks), "fill": list(fs)})
    for order in itertools.permutations(range(3)):
        for rd in ("ra", "t0"):
            for pos in ("start", "end"):
                for ff in FILL:
                    for fs in itertools.product((0, 2046), repeat=2):
                        out.append({"n": 3, "exec": list(order), "kinds": ["j", "j"], "fill": list(fs), "call": {"rd": rd, "pos": pos, "fill": ff}})
    # two sections / two images
    for order in itertools.permutations(range(3)):
        for ks in itertools.product(("j", "jz", "beq"), repeat=2):
            for fs in itertools.product(FILLX, repeat=2):
                for split in (1, 2):
                    for images in (1, 2):
                        out.append({"n": 3, "exec": list(order), "kinds": list(ks), "fill": list(fs), "split": split, "images": images})
    if tier != "quick":
        for order in itertools.permutations(range(4)):
            for ks in itertools.product(KINDS, repeat=3):
                for fs in itertools.product(FILL5, repeat=3):
                    out.append({"n": 4, "exec": list(order), "kinds": list(ks), "fill": list(fs)})
        for order in itertools.permutations(range(4)):
            for ks in itertools.product(("j", "jz"), repeat=3):
                for fs in itertools.product(FILL3, repeat=3):
                    for split in (1, 2, 3):
                        for images in (1, 2):
                            out.append({"n": 4, "exec": list(order), "kinds": list(ks), "fill": list(fs), "split": split, "images": images})
                    for rd in ("ra", "t0"):
                        for pos in ("start", "end"):
                            out.append({"n": 4, "exec": list(order), "kinds": list(ks), "fill": list(fs), "call": {"rd": rd, "pos": pos, "fill": 2044}})
    return out


def worker(p, shard):
    from vf.core import cpu_limit, CpuTimeout
    for item in shard:
        try:
            with cpu_limit(60):
                if item.get("kind") == "c":
                    check_compiled(p, item)
                else:
                    check_program(p, item)
        except CpuTimeout:
            p.count("item_cpu_timeout")


def run(ctx):
    items = programs(ctx.tier)
    ctx.note("generated_programs", len(items))
    cs = []
    for case in c_sources():
        for level in ("0", "1"):
            for images in (1, 2):
                cs.append({"kind": "c", "case": case, "level": level, "images": images})
    ctx.note("compiled_c_links", len(cs))
    ctx.sample({"program": describe(items[0]), "items": [list(map(str, it)) for it in program_items(items[0])["code"]]})
    ctx.sample({"program": describe(items[len(items) // 2])})
    ctx.pmap(worker, items + cs, nshards=min(len(items) + len(cs), 256))
    # every finding is re-derived from its witness in a fresh python process before it is reported
    cands = sorted(ctx.violations.items())
    ctx.violations.clear()
    ctx.pmap(_confirm_worker, [(k, v[1], v[2]) for k, v in cands], nshards=min(len(cands), 32) or None)


def confirm_fresh(witness):
    from vf import core
    env = dict(os.environ, VF_REPO=core.REPO, PYTHONHASHSEED=os.environ.get("PYTHONHASHSEED", "0"))
    r = subprocess.run([sys.executable, "-m", "vf.checks.c13"], input=json.dumps(witness), capture_output=True, text=True, cwd=core.VERIF, env=env)
    try:
        out = json.loads(r.stdout.strip().splitlines()[-1])
        return bool(out[0]), out[1]
    except Exception:  # noqa
        return False, "confirmation process failed: " + (r.stderr or r.stdout)[-300:]


def _confirm_worker(p, shard):
    for key, what, wit in shard:
        ok, detail = confirm_fresh(dict(wit, key=key))
        if ok and detail.startswith(key + ":"):
            p.violation(key, what, wit)
        else:
            p.count("candidates_not_reproduced_in_fresh_process")
            p.collect("not_reproduced", key)


def replay(w):
    from vf.core import Partial
    p = Partial()
    if w.get("kind") == "c":
        check_compiled(p, w)
    else:
        check_program(p, w["d"])
    if w.get("key") in p.violations:
        return True, w["key"] + ": " + p.violations[w["key"]][1]
    if p.violations:
        k = sorted(p.violations)[0]
        return True, k + ": " + p.violations[k][1]
    return False, "relaxed and unrelaxed links agree (%r)" % (p.counters,)


if __name__ == "__main__":
    sys.path.insert(0, os.path.dirname(os.path.dirname(os.path.dirname(os.path.abspath(__file__)))))
    from vf import core as _core
    import logging
    logging.disable(logging.CRITICAL)
    _core.use_repo()
    print(json.dumps(list(replay(json.load(sys.stdin)))))
