"""C28 - front ends fail only with diagnostics: every generated valid input through the public entry points, outcome classification."""
import io

ID = "C28"
LEVEL = "exploration"
RULE = ("union of the source enumerators of this framework fed to the public entry points: C = cgen families (statements, aggregates, "
        "floats, E1 over the 6-type alphabet, E2, E3 slice), the C27 constant-expression cases (in- and out-of-range constants in every "
        "constant context), a declaration/initializer menu (every declarator form x initializer class x storage class) through c_to_ir "
        "and optimize at every level {0,1,2,s}; C3 = c3gen programs through c3_to_ir + optimize; IR text = the printed form of irgen / "
        "feature modules through the IR reader; outcome classes: success, compiler diagnostic (CompilerError and subclasses, "
        "IrParseException) = fine, anything else (AssertionError, KeyError, struct.error, NotImplementedError, TypeError, RecursionError, "
        "CPU-time-out) = violation; distinct non-trivial = distinct (entry point, family, outcome class, diagnostic text prefix)")
ASSUMPTIONS = ["'supported subset' is fixed by the enumerator grammars (inputs are accepted by gcc / are ppci's own printed IR), not by what ppci accepts",
               "C inputs gcc rejects are not generated on purpose; the declaration menu was validated with gcc -fsyntax-only once per run",
               "only front end + optimizer are run here; code generation failures are property C29"]
CLAIM = {"technique": "bounded exhaustive enumeration of valid source programs on the real front ends with outcome classification",
         "engine": "K1 input enumeration, outcome oracle"}

LEVELS = ["0", "1", "2", "s"]

DECL_TYPES = ["signed char", "unsigned char", "short", "unsigned short", "int", "unsigned", "long", "unsigned long", "long long", "unsigned long long", "float", "double"]
INITS = ["0", "1", "-1", "300", "-129", "65536", "4294967296", "-2147483649", "18446744073709551615u", "1.5", "-0.5", "'a'", "(1 ? 2 : 3)", "7 % 3", "-7 / 2", "1 < 2", "!5", "sizeof(int)"]


def decl_menu():
    """Every declarator form x initializer class, as complete translation units."""
    out = []
    for t in DECL_TYPES:
        for i in INITS:
            out.append(("decl/global/%s" % t, "%s g = %s; %s f(void){ return g; }" % (t, i, t)))
            out.append(("decl/static-local/%s" % t, "%s f(void){ static %s s = %s; return s; }" % (t, t, i)))
            out.append(("decl/local/%s" % t, "%s f(void){ %s s = %s; return s; }" % (t, t, i)))
            out.append(("decl/array/%s" % t, "%s a[3] = { %s, %s }; %s f(int i){ return a[i & 1]; }" % (t, i, i, t)))
            out.append(("decl/const/%s" % t, "const %s c = %s; %s f(void){ return c; }" % (t, i, t)))
        out.append(("decl/pointer/%s" % t, "%s v; %s *p = &v; %s f(void){ return *p; }" % (t, t, t)))
        out.append(("decl/pointer-elem/%s" % t, "%s a[3]; %s *p = &a[1]; %s f(void){ return *p; }" % (t, t, t)))
        out.append(("decl/pointer-arith/%s" % t, "%s a[3]; %s *p = a + 2; %s f(void){ return *p; }" % (t, t, t)))
        out.append(("decl/struct-field/%s" % t, "struct S { char c; %s v; } s = { 1, 2 }; %s f(void){ return s.v; }" % (t, t)))
        out.append(("decl/struct-nested/%s" % t, "struct I { %s v; }; struct O { struct I i; int n; } o = { { 3 }, 4 }; %s f(void){ return o.i.v; }" % (t, t)))
        out.append(("decl/array-2d/%s" % t, "%s m[2][2] = { {1, 2}, {3, 4} }; %s f(void){ return m[1][0]; }" % (t, t)))
        out.append(("decl/designated/%s" % t, "%s a[4] = { [2] = 5 }; struct P { %s x; %s y; } p = { .y = 2 }; %s f(void){ return a[2] + p.y; }" % (t, t, t, t)))
        out.append(("decl/bitfield/%s" % t, "struct B { unsigned a : 3; int b : 5; } b = { 7, -1 }; %s f(void){ return (%s)(b.a + b.b); }" % (t, t)) if "float" not in t and t != "double" else
                   ("decl/float-init/%s" % t, "%s x = 1; %s y = 2.5f; %s f(void){ return x + y; }" % (t, t, t)))
        out.append(("decl/enum/%s" % t, "enum E { A, B = 5, C }; %s f(void){ enum E e = C; return (%s)e; }" % (t, t)))
        out.append(("decl/typedef/%s" % t, "typedef %s T; typedef T *PT; T v = 3; PT p = &v; T f(void){ return *p; }" % t))
        out.append(("decl/fnptr/%s" % t, "%s g(%s x){ return x; } %s (*fp)(%s) = g; %s f(void){ return fp(2); }" % (t, t, t, t, t)))
        out.append(("decl/string/%s" % t, "char s[] = \"hi\"; char *q = \"yo\"; %s f(void){ return (%s)(s[0] + q[1]); }" % (t, t)))
        out.append(("decl/union/%s" % t, "union U { %s v; char c[8]; } u = { 1 }; %s f(void){ return u.v; }" % (t, t)))
        out.append(("decl/extern-tentative/%s" % t, "extern %s e; %s e; %s e = 3; %s f(void){ return e; }" % (t, t, t, t)))
    # pointer and enum objects with static storage initialised from integer constants over the range boundaries
    for i in ["0", "1", "-1", "-4096", "300", "2147483648", "4294967295", "0xFFFFFFFF", "-2147483649", "18446744073709551615u", "(1 ? -2 : 3)"]:
        out.append(("decl/pointer-from-int/global", "char *p = (char *)%s; long f(void){ return (long)p; }" % i))
        out.append(("decl/pointer-from-int/void", "void *p = (void *)%s; long f(void){ return (long)p; }" % i))
        out.append(("decl/pointer-from-int/static-local", "long f(void){ static int *p = (int *)%s; return (long)p; }" % i))
        out.append(("decl/pointer-from-int/struct-member", "struct S { int n; char *p; } s = { 1, (char *)%s }; long f(void){ return (long)s.p; }" % i))
        out.append(("decl/pointer-from-int/array", "char *a[2] = { (char *)%s, 0 }; long f(void){ return (long)a[0]; }" % i))
        out.append(("decl/enum-from-int/global", "enum E { A, B }; enum E e = %s; long f(void){ return (long)e; }" % i))
        out.append(("decl/enum-from-int/static-local", "enum E { A, B }; long f(void){ static enum E e = %s; return (long)e; }" % i))
        out.append(("decl/enum-from-int/struct-member", "enum E { A, B }; struct S { enum E e; int n; } s = { %s, 2 }; long f(void){ return (long)s.e; }" % i))
        out.append(("decl/enum-from-int/array", "enum E { A, B }; enum E a[2] = { %s }; long f(void){ return (long)a[0]; }" % i))
    out.append(("decl/bitfield-unnamed", "struct B { unsigned a : 3; unsigned : 5; unsigned b : 4; } b = { 7, 9 }; int f(void){ return b.a + b.b; }"))
    out.append(("decl/bitfield-zero-width", "struct B { unsigned a : 3; int : 0; char c : 8; } b; int f(void){ b.a = 5; b.c = 7; return b.a + b.c; }"))
    out.append(("decl/bitfield-zero-width-between-chars", "struct T { char a; int : 0; char b; } t; int f(void){ t.a = 1; t.b = 2; return t.a + t.b; }"))
    for w in ["0", "1", "31", "32", "33", "64", "(-1)", "(1 - 2)", "4294967295u", "(1 ? 40 : 2)"]:
        out.append(("decl/bitfield-width-range", "struct B { unsigned a : %s; unsigned b : 2; } b; int f(void){ b.b = 1; return b.b; }" % w))
        out.append(("decl/bitfield-width-range-ll", "struct B { unsigned long long a : %s; int b : 2; } b; int f(void){ b.b = 1; return b.b; }" % w))
    out.append(("decl/anonymous-union", "struct V { int tag; union { int i; float f; struct { short lo; short hi; }; }; }; struct V gv; int f(int a){ struct V *v = &gv; v->i = a; v->lo = 3; return v->i + v->hi + gv.tag; }"))
    out.append(("decl/anonymous-struct", "union U { struct { int p; int q; }; long long w; }; union U gu; int f(int a){ gu.p = a; gu.q = 2; return (int)gu.w + gu.q; }"))
    out.append(("decl/anonymous-offsetof", "struct V { int tag; union { int i; struct { short lo; short hi; }; }; }; unsigned long f(void){ return __builtin_offsetof(struct V, hi) + __builtin_offsetof(struct V, i); }"))
    out.append(("pp/include-quote-missing", "#include \"vf_no_such_header.h\"\nint f(void){ return 1; }"))
    out.append(("pp/include-angle-missing", "#include <vf_no_such_header.h>\nint f(void){ return 1; }"))
    out.append(("decl/bool", "_Bool b = 1; int f(void){ return b; }"))
    out.append(("decl/compound-literal", "struct P { int x; int y; }; int f(void){ struct P p = (struct P){1, 2}; return p.x + p.y; }"))
    out.append(("decl/vla-free", "int f(int n){ int a[4]; int i; for (i = 0; i < 4; i++) a[i] = n; return a[3]; }"))
    out.append(("decl/long-double", "long double x = 1.0; int f(void){ return (int)x; }"))
    out.append(("decl/float-suffix", "float x = 0.25f; double y = 1e3; int f(void){ return (int)(x + y); }"))
    out.append(("decl/hex-float", "double y = 0x1p3; int f(void){ return (int)y; }"))
    out.append(("decl/char-escapes", "char c = '\\n'; char d = '\\x41'; char e = '\\0'; int f(void){ return c + d + e; }"))
    out.append(("decl/initializer-brace-scalar", "int x = { 3 }; int f(void){ return x; }"))
    out.append(("decl/nested-ternary-const", "int x = 1 ? 2 ? 3 : 4 : 5; int f(void){ return x; }"))
    out.append(("decl/sizeof-expr", "int a[sizeof(long) * 2]; int f(void){ return sizeof a / sizeof a[0]; }"))
    out.append(("decl/neg-array-index-const", "int a[3] = {1, 2, 3}; int *p = &a[2] - 1; int f(void){ return *p; }"))
    out.append(("decl/address-of-field", "struct S { int a; int b; } s; int *p = &s.b; int f(void){ return *p; }"))
    out.append(("decl/cast-pointer-const", "char *p = (char *)16; long f(void){ return (long)p; }"))
    return out


def classify(exc):
    from ppci.common import CompilerError
    from ppci.irutils.reader import IrParseException
    from ppci.build.tasks import TaskError
    if isinstance(exc, (CompilerError, IrParseException, TaskError)):
        return "diagnostic"
    return "internal"


def run_c(p, fam, src, witness, budget=20):
    from ppci.api import get_arch, optimize
    from ppci.lang.c import c_to_ir, COptions
    from vf.core import cpu_limit, CpuTimeout, exc_key
    arch = get_arch("x86_64")
    for level in LEVELS:
        p.add()
        stage = "c_to_ir"
        try:
            with cpu_limit(budget):
                m = c_to_ir(io.StringIO(src), arch, COptions())
                stage = "optimize"
                optimize(m, level=level)
        except CpuTimeout:
            if budget == 20:
                # a watchdog expiry must reproduce before it is believed: run the unit again with three times the budget
                p.count("watchdog_expiries_retried")
                return run_c(p, fam, src, witness, budget=60)
            p.violation("c/%s/cpu-timeout" % stage, "%s of this C unit did not finish within 60 CPU-seconds (second run; the first was stopped after 20): %s" % (stage, src[:160]), dict(witness, level=level))
            break
        except Exception as ex:  # noqa
            if classify(ex) == "diagnostic":
                p.count("c_diagnostic")
                p.outcome(("c", fam.split("/")[0], "diag", str(ex)[:30]))
                break
            p.violation(exc_key("c/" + stage, ex), "%s raised %s: %s on valid C (%s): %s" % (stage, type(ex).__name__, str(ex)[:80], fam, src[:200]), dict(witness, level=level))
            break
        else:
            p.outcome(("c", fam, "ok"))
        if stage == "c_to_ir":
            break


def c_worker(p, shard):
    for fam, src in shard:
        run_c(p, fam, src, {"kind": "c", "fam": fam, "src": src})


def c3_worker(p, shard):
    from ppci.api import c3_to_ir, get_arch, optimize
    from vf.core import cpu_limit, CpuTimeout, exc_key
    arch = get_arch("x86_64")
    for fam, src in shard:
        for level in LEVELS:
            p.add()
            stage = "c3_to_ir"
            try:
                import contextlib
                sink = io.StringIO()
                with cpu_limit(20), contextlib.redirect_stdout(sink), contextlib.redirect_stderr(sink):
                    m = c3_to_ir([io.StringIO(t) for t in src], [], arch)
                    stage = "optimize"
                    optimize(m, level=level)
            except CpuTimeout:
                p.violation("c3/%s/cpu-timeout" % stage, "%s did not finish: %s" % (stage, src[0][:160]), {"kind": "c3", "fam": fam, "src": src, "level": level})
                break
            except Exception as ex:  # noqa
                if classify(ex) == "diagnostic":
                    p.count("c3_diagnostic")
                    p.outcome(("c3", fam.split("/")[0], "diag", str(ex)[:30]))
                    break
                p.violation(exc_key("c3/" + stage, ex), "%s raised %s: %s on a valid C3 program (%s): %s" % (stage, type(ex).__name__, str(ex)[:80], fam, src[0].strip().replace("\n", " ")[:200]),
                            {"kind": "c3", "fam": fam, "src": src, "level": level})
                break
            else:
                p.outcome(("c3", fam, "ok"))


def ir_worker(p, shard):
    from ppci.irutils import print_module, read_module, verify_module
    from vf.core import cpu_limit, CpuTimeout, exc_key
    from vf.checks import _passgraph_common as pg
    for ident in shard:
        p.add()
        try:
            if ident["fam"] in ("xc", "copt", "py", "c3", "bf", "feat"):
                from vf.checks import c15
                m = c15.make(ident)
            else:
                m = pg.make(ident)
            f = io.StringIO()
            print_module(m, file=f)
            text = f.getvalue()
        except Exception:  # noqa
            p.count("ir_print_failed")
            continue
        try:
            with cpu_limit(20):
                m2 = read_module(io.StringIO(text))
                verify_module(m2)
                from ppci.api import optimize
                optimize(m2, level="2")
        except CpuTimeout:
            p.violation("irtext/cpu-timeout", "read_module did not finish", {"kind": "ir", "ident": ident})
        except Exception as ex:  # noqa
            if classify(ex) == "diagnostic":
                p.count("ir_diagnostic")
                p.outcome(("ir", ident["fam"], "diag", str(ex)[:30]))
            else:
                p.violation(exc_key("irtext/read_module", ex), "read_module raised %s: %s on ppci's own printed IR (%r)" % (type(ex).__name__, str(ex)[:80], ident), {"kind": "ir", "ident": ident})
        else:
            p.outcome(("ir", ident["fam"], "ok"))


def run(ctx):
    from vf.gen import cgen, c3gen
    from vf.checks import c27
    from vf.checks import _passgraph_common as pg
    cs = []
    cs += [("S/" + c["feat"], c["src"].replace("@", "_0")) for c in list(cgen.s_corpus()) + list(cgen.s_templates(depth2=not ctx.quick))]
    cs += [("A/" + c["feat"], c["src"].replace("@", "_0")) for c in cgen.aggregates()]
    cs += [("F/" + c["feat"], c["src"].replace("@", "_0")) for c in cgen.floats()]
    e = list(cgen.e1(types=cgen.SIX)) + list(cgen.e2()) + list(cgen.e3(types=cgen.SIX))
    if ctx.quick:
        e = e[ctx.seed % 3::3]
    cs += [(c["fam"] + "/" + c["feat"], c["src"].replace("@", "_0")) for c in e]
    k27 = c27.cases(ctx.tier, ctx.seed)
    if ctx.quick:
        k27 = k27[ctx.seed % 4::4]
    # undefined constant expressions (division by zero, shift counts out of range) are syntactically valid: they must end in a diagnostic
    cs += [("C27/" + c["fam"] + "/" + c["feat"], c["src"].replace("@", "_0")) for c in k27]
    cs += decl_menu()
    ctx.note("c_units", len(cs))
    from vf.checks import c37
    allc3 = c3gen.all_cases(ctx.tier, ctx.seed)
    c3 = [(c["fam"] + "/" + c["feat"], c37.c3_sources(allc3, [k])) for k, c in enumerate(allc3)]
    ctx.note("c3_programs", len(c3))
    irs = pg.initials(ctx.tier, ctx.seed)
    from vf.checks import c15
    # front-end produced modules (C, Python, C3, optimised C) and the single-feature modules of the C15 family as IR text
    irs += [i for i in c15.families(ctx.tier, ctx.seed) if i["fam"] in ("xc", "copt", "py", "c3") or (i["fam"] == "feat" and len(i["atoms"]) == 1)]
    ctx.note("ir_text_modules", len(irs))
    ctx.sample({"c": cs[0][1]})
    ctx.sample({"c": "unsigned char g = 300; unsigned char f(void){ return g; }"})
    ctx.sample({"c3": c3[0][1][0][:200]})
    ctx.pmap(c_worker, cs, nshards=64)
    ctx.pmap(c3_worker, c3, nshards=32)
    ctx.pmap(ir_worker, irs, nshards=32)


def replay(w):
    from vf.core import Partial
    p = Partial()
    if w["kind"] == "c":
        run_c(p, w["fam"], w["src"], w)
    elif w["kind"] == "c3":
        c3_worker(p, [(w["fam"], w["src"])])
    else:
        ir_worker(p, [w["ident"]])
    if p.violations:
        k = sorted(p.violations)[0]
        return True, p.violations[k][1]
    return False, "succeeds or fails with a diagnostic"
