"""C39 - bit helpers vs definitions on bit strings; exhaustive for widths <= 12."""
ID = "C39"
LEVEL = "exploration"
RULE = ("widths 1..12: every value x every rotation count (0..2*width) for rotl/rotr, every value for reverse_bits/sign_extend/"
        "to_signed/to_unsigned/clz/ctz/popcnt; 32-bit rotate_left/right all counts x boundary lattice; widths 16/32/64 on the "
        "boundary lattice; wasm runtime i32/i64 rot/clz/ctz/popcnt on the lattice; encode_imm32 on all 4096 (rot,imm8) values, all "
        "32-bit values of popcount <=2 or >=30 and neighbours; distinct non-trivial = distinct (helper, width, result) with result != input")
ASSUMPTIONS = ["reference: definitions on bit strings (format/str slicing) written in /verif",
               "values are taken in the helper's natural domain [0, 2^w) (to_signed/to_unsigned additionally on [-2^w, 2^(w+1)))"]


def bits_of(v, w):
    return format(v & ((1 << w) - 1), "0%db" % w)


def ref_rotl(v, c, w):
    s = bits_of(v, w)
    c %= w
    return int(s[c:] + s[:c], 2)


def ref_rotr(v, c, w):
    s = bits_of(v, w)
    c %= w
    return int(s[w - c:] + s[:w - c], 2) if c else v


def ref_rev(v, w):
    return int(bits_of(v, w)[::-1], 2)


def ref_sext(v, w):
    s = bits_of(v, w)
    return int(s, 2) - (1 << w) if s[0] == "1" else int(s, 2)


def ref_clz(v, w):
    s = bits_of(v, w)
    return len(s) - len(s.lstrip("0"))


def ref_ctz(v, w):
    s = bits_of(v, w)
    return len(s) - len(s.rstrip("0"))


def ref_pop(v, w):
    return bits_of(v, w).count("1")


def lattice(w):
    vs = {0, 1, 2, 3, (1 << w) - 1, (1 << w) - 2, 1 << (w - 1), (1 << (w - 1)) - 1, (1 << (w - 1)) + 1,
          int("01" * (w // 2), 2), int("10" * (w // 2), 2), (1 << (w // 2)), (1 << (w // 2)) - 1, (1 << (w // 2)) + 1,
          0x12345678_9ABCDEF0 & ((1 << w) - 1), 0xF0 & ((1 << w) - 1), 0x80000001 & ((1 << w) - 1)}
    for k in range(w):
        vs.add(1 << k)
        vs.add(((1 << w) - 1) ^ (1 << k))
    return sorted(vs)


def call(p, name, w, fn, args, expect, order=None):
    p.add()
    wit = {"fn": name, "w": w, "args": [str(a) for a in args]}
    try:
        got = fn(*args)
    except Exception as ex:  # noqa
        p.violation("%s/raises/%s" % (name, type(ex).__name__), "%s%r raised %r, expected %r" % (name, tuple(args), ex, expect), wit)
        return
    if got != expect:
        p.violation("%s/wrong" % name, "%s%r = %r, definition gives %r" % (name, tuple(args), got, expect), wit)
    elif got != args[0]:
        p.outcome((name, w, got))


def small_worker(p, shard):
    from ppci.utils import bitfun as bf
    for w in shard:
        for v in range(1 << w):
            for c in range(0, 2 * w + 1):
                call(p, "rotl", w, bf.rotl, (v, c, w), ref_rotl(v, c, w))
                call(p, "rotr", w, bf.rotr, (v, c, w), ref_rotr(v, c, w))
            one_value(p, bf, v, w)


def one_value(p, bf, v, w):
    call(p, "reverse_bits", w, bf.reverse_bits, (v, w), ref_rev(v, w))
    call(p, "sign_extend", w, bf.sign_extend, (v, w), ref_sext(v, w))
    call(p, "clz", w, bf.clz, (v, w), ref_clz(v, w))
    call(p, "ctz", w, bf.ctz, (v, w), ref_ctz(v, w))
    call(p, "popcnt", w, bf.popcnt, (v, w), ref_pop(v, w))
    for x in (v, v - (1 << w), v + (1 << w)):
        call(p, "to_signed", w, bf.to_signed, (x, w), ref_sext(x, w))
        call(p, "to_unsigned", w, bf.to_unsigned, (x, w), x % (1 << w))


def wide_worker(p, shard):
    from ppci.utils import bitfun as bf
    from ppci.wasm.execution import runtime as rt
    for w in shard:
        lat = lattice(w)
        counts = sorted(set(list(range(0, w + 2)) + [2 * w - 1, 2 * w, 2 * w + 1]))
        for v in lat:
            one_value(p, bf, v, w)
            for c in counts:
                call(p, "rotl", w, bf.rotl, (v, c, w), ref_rotl(v, c, w))
                call(p, "rotr", w, bf.rotr, (v, c, w), ref_rotr(v, c, w))
            if w == 32:
                for n in range(0, 33):
                    call(p, "rotate_right", 32, bf.rotate_right, (v, n), ref_rotr(v, n % 32, 32))
                for n in range(0, 32):
                    call(p, "rotate_left", 32, bf.rotate_left, (v, n), ref_rotl(v, n, 32))
            if w in (32, 64):
                sv = ref_sext(v, w)
                pre = "i%d_" % w
                for c in counts:
                    for cc in (c, ref_sext(c, w) if c < (1 << w) else c):
                        call(p, pre + "rotl", w, getattr(rt, pre + "rotl"), (sv, cc), ref_sext(ref_rotl(v, cc, w), w))
                        call(p, pre + "rotr", w, getattr(rt, pre + "rotr"), (sv, cc), ref_sext(ref_rotr(v, cc, w), w))
                call(p, pre + "clz", w, getattr(rt, pre + "clz"), (sv,), ref_clz(v, w))
                call(p, pre + "ctz", w, getattr(rt, pre + "ctz"), (sv,), ref_ctz(v, w))
                call(p, pre + "popcnt", w, getattr(rt, pre + "popcnt"), (sv,), ref_pop(v, w))


def ref_imm32(v):
    """ARM: value = imm8 rotated right by 2*rot; the encoder must find the smallest rot (the canonical choice)."""
    for rot in range(16):
        v2 = ref_rotl(v, 2 * rot, 32)
        if v2 < 256:
            return (rot << 8) | v2
    return None


def decode_imm32(x):
    return ref_rotr(x & 0xFF, 2 * (x >> 8), 32)


def imm_candidates():
    cands = set()
    for rot in range(16):
        for imm in range(256):
            v = ref_rotr(imm, 2 * rot, 32)
            cands.add(v)
            cands.add((v + 1) & 0xFFFFFFFF)
            cands.add((v - 1) & 0xFFFFFFFF)
            cands.add(ref_rotl(v, 1, 32))
    M = 0xFFFFFFFF
    for i in range(32):
        cands.add(1 << i)
        cands.add(M ^ (1 << i))
        for j in range(i):
            cands.add((1 << i) | (1 << j))
            cands.add(M ^ ((1 << i) | (1 << j)))
    return sorted(cands)


def imm_worker(p, shard):
    from ppci.utils import bitfun as bf
    for v in shard:
        p.add()
        exp = ref_imm32(v)
        wit = {"fn": "encode_imm32", "w": 32, "args": [str(v)]}
        try:
            got = bf.encode_imm32(v)
        except ValueError:
            got = None
        except Exception as ex:  # noqa
            p.violation("encode_imm32/raises/" + type(ex).__name__, "encode_imm32(%#x) raised %r" % (v, ex), wit)
            continue
        if exp is None:
            if got is not None:
                p.violation("encode_imm32/accepts-unrepresentable", "encode_imm32(%#x) = %#x but no (rot, imm8) represents it" % (v, got), wit)
        else:
            if got is None:
                p.violation("encode_imm32/rejects-representable", "encode_imm32(%#x) raised but rot=%d imm=%#x represents it" % (v, exp >> 8, exp & 255), wit)
            elif not (0 <= got < 4096) or decode_imm32(got) != v:
                p.violation("encode_imm32/wrong", "encode_imm32(%#x) = %#x which decodes to %#x" % (v, got, decode_imm32(got) if 0 <= got < 4096 else -1), wit)
            else:
                p.outcome(("imm", got))


def run(ctx):
    widths = list(range(1, 13)) if ctx.quick else list(range(1, 15))
    ctx.sample({"fn": "reverse_bits", "args": [0b1101, 4], "definition": ref_rev(0b1101, 4)})
    ctx.sample({"fn": "rotl", "args": [0b1001, 1, 4], "definition": ref_rotl(0b1001, 1, 4)})
    # heavy widths first so that shards balance
    ctx.pmap(small_worker, sorted(widths, reverse=True), nshards=len(widths))
    ctx.pmap(wide_worker, [16, 24, 32, 48, 64] if ctx.quick else [13, 15, 16, 17, 24, 31, 32, 33, 48, 63, 64, 65, 128])
    c = imm_candidates()
    ctx.note("imm32_candidates", len(c))
    ctx.sample({"fn": "encode_imm32", "args": [0xFF000000], "definition": ref_imm32(0xFF000000)})
    ctx.pmap(imm_worker, c)


def replay(w):
    from vf.core import Partial
    from ppci.utils import bitfun as bf
    from ppci.wasm.execution import runtime as rt
    p = Partial()
    name, width, args = w["fn"], w["w"], [int(a) for a in w["args"]]
    if name == "encode_imm32":
        imm_worker(p, args)
    else:
        refs = {"rotl": ref_rotl, "rotr": ref_rotr, "reverse_bits": ref_rev, "sign_extend": ref_sext, "clz": ref_clz, "ctz": ref_ctz,
                "popcnt": ref_pop, "to_signed": ref_sext, "to_unsigned": lambda x, w_: x % (1 << w_),
                "rotate_right": lambda v, n: ref_rotr(v, n % 32, 32), "rotate_left": lambda v, n: ref_rotl(v, n, 32)}
        if name in refs:
            call(p, name, width, getattr(bf, name), tuple(args), refs[name](*args))
        else:
            wide_worker(p, [width])
    if p.violations:
        k = sorted(p.violations)[0]
        return True, p.violations[k][1]
    return False, "matches definition"
