"""C09 - assembling an instruction's printed form reproduces its direct encoding (bytes and relocations)."""
import os
import sys
import json
import subprocess

ID = "C09"
LEVEL = "exploration"
RULE = ("insgen instances of every instruction class with a syntax of every ppci ISA (arm, arm:thumb, avr, m68k, mcs6500, microblaze, mips, "
        "msp430, or1k, riscv, riscv:rvc/rvf/rvfx, stm8, x86_64, x86_64:x87, xtensa): two base operand vectors per class, every operand "
        "sweeping its whole domain (all registers of its class; integers: every value of [-2^(n-1), 2^n) for probed width n <= 8 (quick) / 12 "
        "(thorough), boundary lattice above; two label names; every nested addressing-mode constructor option with its own sub-sweeps); "
        "thorough adds operand products/pairs (for classes rvf/rvfx/x87 inherit: under the base target only) and re-runs the 8-bit sweep "
        "under PYTHONHASHSEED 1..3; quick reduces rvf/rvfx/x87 to the classes they add plus the two base vectors of every inherited class.  A case is one instance whose direct encoding succeeds; "
        "distinct non-trivial = distinct (arch, class, nested options chosen, relocation types, encoded length)")
ASSUMPTIONS = [
    "self-consistency of two ppci paths: (A) instance emitted into BinaryOutputStream/ObjectFile, (B) the arch's assembler run on 'str(instance)' "
    "exactly as ppci.api.asm does (replay uses ppci.api.asm itself); compared: all section bytes and the list of (type, symbol, section, offset, addend)",
    "instances whose direct encoding or direct emission raises are not inputs (counted as n_not_input)",
    "operand domains are insgen's (vf/gen/insgen.py docstring); label operands use the names vflab / Vf_lab2 only",
]
CLAIM = {
    "text": "Within the enumerated operand domains, printing an instruction and assembling the text yields the same bytes and relocations as encoding it directly, for every ISA ppci registers.",
    "note": "Trusted base: insgen's enumeration rule; both sides are ppci code (no external oracle needed for this property).",
    "technique": "bounded exhaustive input enumeration, differential between two code paths",
    "engine": "K1",
}

LIGHT_VARIANTS = {"riscv:rvf": "riscv", "riscv:rvfx": "riscv", "x86_64:x87": "x86_64"}


# ------------------------------------------------------------------ observations

def _snapshot(obj):
    secs = tuple((s.name, bytes(s.data)) for s in obj.sections if len(s.data) or s.name != "code")
    names = {s.id: s.name for s in obj.symbols}
    rels = tuple((r.reloc_type, names.get(r.symbol_id, r.symbol_id), r.section, r.offset, r.addend) for r in obj.relocations)
    return secs, rels


def observe_direct(arch, inst):
    from ppci.binutils.objectfile import ObjectFile
    from ppci.binutils.outstream import BinaryOutputStream
    obj = ObjectFile(arch)
    st = BinaryOutputStream(obj)
    st.select_section("code")
    st.emit(inst.build())
    return _snapshot(obj)


def _recording_stream():
    from ppci.binutils.outstream import BinaryOutputStream

    class Rec(BinaryOutputStream):
        def __init__(self, obj):
            super().__init__(obj)
            self.seen = []
            self.depth = 0

        def emit(self, item):
            if self.depth == 0:
                self.seen.append(item)
            self.depth += 1
            try:
                super().emit(item)
            finally:
                self.depth -= 1

    return Rec


_REC = []


def observe_asm(arch, text):
    """What ppci.api.asm does for 'section code\\n' + text (same calls, same order), with the assembler of `arch`.
    Returns (snapshot, [classes of the instructions the parser emitted])."""
    from ppci.binutils.objectfile import ObjectFile
    from ppci.common import DiagnosticsManager
    if not _REC:
        _REC.append(_recording_stream())
    obj = ObjectFile(arch)
    st = _REC[0](obj)
    st.select_section("code")
    asm = arch.assembler
    asm.prepare()
    asm.assemble("section code\n" + text, st, DiagnosticsManager())
    asm.flush()
    return _snapshot(obj), st.seen[2:]


def observe_api_asm(arch, text):
    import io
    import contextlib
    from ppci import api
    buf = io.StringIO()
    with contextlib.redirect_stdout(buf), contextlib.redirect_stderr(buf):
        obj = api.asm(io.StringIO("section code\n" + text), arch)
    return _snapshot(obj)


def syntax_shape(syntax, nested=None):
    """Structural signature of a syntax: w word, _ space, glyphs verbatim, operand kinds r/i/s/c/R.
    nested: optional {operand name: shape string} to expand constructor operands as {..}."""
    from ppci.arch.encoding import Operand
    from ppci.arch.registers import Register
    out = []
    for el in syntax.syntax:
        if isinstance(el, Operand):
            cl = el._cls
            if nested is not None and el._name in nested:
                out.append("{" + nested[el._name] + "}")
            elif isinstance(cl, tuple):
                out.append("c")
            elif cl is int:
                out.append("i")
            elif cl is str:
                out.append("s")
            elif isinstance(cl, type) and issubclass(cl, Register):
                out.append("r")
            elif isinstance(cl, type) and issubclass(cl, (set, frozenset)):
                out.append("R")
            else:
                out.append("c")
        elif el.isspace():
            out.append("_")
        elif el.isidentifier():
            out.append("w")
        else:
            out.append(el)
    return "".join(out)


def obj_shape(obj):
    """Shape of a built constructor/instruction object with the nested options it actually uses expanded."""
    nested = {}
    for op in obj.syntax.formal_arguments:
        if op.is_constructor:
            nested[op._name] = obj_shape(op.__get__(obj))
    return syntax_shape(obj.syntax, nested)


def forms(obj):
    try:
        return [type(nl).__name__ for nl in obj.non_leaves]
    except Exception:  # noqa
        return [type(obj).__name__]


def key_arch(ai, classes):
    """Base architecture name unless one of the classes involved exists only in the option variant."""
    from vf.gen import insgen
    if ":" not in ai.name:
        return ai.name
    base = insgen.get_arch_info(ai.name.split(":")[0])
    if ai.name == "arm:thumb":
        return ai.name
    base_ids = set(map(id, base.arch.isa.instructions))
    return base.name if all(id(c) in base_ids for c in classes) else ai.name


def _fmt(snap):
    secs, rels = snap
    return "%s relocs=%s" % (" ".join("%s:%s" % (n, d.hex()) for n, d in secs), list(rels))


def check_instance(p, ai, inst, hs=0, via_api=False):
    """Returns True if the instance was an input."""
    from vf.core import cpu_limit, CpuTimeout, exc_key
    from ppci.common import CompilerError
    arch = ai.arch
    an = ai.name
    wit = dict(inst.witness(), hashseed=hs)
    try:
        with cpu_limit(20):
            A = observe_direct(arch, inst)
            built = inst.build()
            text = str(built)
    except CpuTimeout:
        p.count("not_input")
        return False
    except Exception:  # noqa
        p.count("not_input")
        return False
    p.add()
    try:
        with cpu_limit(20):
            if via_api:
                B, seen = observe_api_asm(arch, text), None
            else:
                B, seen = observe_asm(arch, text)
    except CpuTimeout:
        p.violation("asm-hangs/%s/%s" % (key_arch(ai, [inst.cls]), obj_shape(built)), "%s: assembling %r did not finish in 20 CPU seconds" % (an, text), wit)
        return True
    except Exception as ex:  # noqa
        root = ex
        while root.__cause__ is not None:
            root = root.__cause__
        if isinstance(root, CompilerError) or type(ex).__name__ == "TaskError":
            key = "asm-rejects/%s/%s" % (key_arch(ai, [inst.cls]), obj_shape(built))
            p.collect("classes:" + key, inst.cid)
            p.violation(key, "%s: class %s prints %r which the assembler rejects (%s); direct encoding gives %s"
                        % (an, inst.cid, text, getattr(root, "msg", root), _fmt(A)), wit)
        else:
            key = exc_key("asm-raises/%s" % key_arch(ai, [inst.cls]), root)
            p.collect("classes:" + key, inst.cid)
            p.violation(key, "%s: assembling %r (printed by %s) raised %r" % (an, text, inst.cid, root), wit)
        return True
    if A == B:
        opts = tuple(v[1] for v in inst.ops if v[0] == "c")
        p.outcome((an, inst.cid, opts, tuple(r[0] for r in A[1]), sum(len(d) for _, d in A[0])))
        return True
    # classify the difference
    other = None
    what_differs = "bytes" if A[0] != B[0] else "relocations"
    if seen is None:
        key = "differs/%s/%s/%s" % (key_arch(ai, [inst.cls]), obj_shape(built), what_differs)
    elif len(seen) != 1 or type(seen[0]) is not inst.cls:
        cid_of = {id(c.cls): c.cid for c in ai.classes}
        other = "+".join(cid_of.get(id(type(o)), type(o).__name__) for o in seen) or "nothing"
        shapes = "+".join(syntax_shape(type(o).syntax) if getattr(type(o), "syntax", None) else type(o).__name__ for o in seen) or "nothing"
        # the mnemonic is part of the locus: another instruction that becomes ambiguous in the same syntactic shape is a different finding
        mnem = next((el for el in inst.cls.syntax.syntax if isinstance(el, str) and el.strip()), "?")
        key = "other-class/%s/%s/%s->%s" % (key_arch(ai, [inst.cls] + [type(o) for o in seen]), mnem, syntax_shape(inst.cls.syntax), shapes)
    elif forms(seen[0]) != forms(built):
        other = "same class, forms %s" % "/".join(forms(seen[0])[1:])
        fa, fb = forms(built)[1:], forms(seen[0])[1:]
        key = "other-form/%s/%s->%s" % (key_arch(ai, [inst.cls]), "+".join(x for x in fa if x not in fb) or "same", "+".join(x for x in fb if x not in fa) or "same")
    else:
        key = "same-form-differs/%s/%s/%s" % (key_arch(ai, [inst.cls]), obj_shape(built), what_differs)
    p.collect("classes:" + key, inst.cid)
    p.violation(key, "%s: %s prints %r; direct: %s; assembled%s: %s"
                % (an, inst.cid, text, _fmt(A), (" (parsed as %s)" % other) if other else "", _fmt(B)), wit)
    return True


# ------------------------------------------------------------------ exploration

def config(tier):
    if tier == "quick":
        return {"mode": "sweep", "full_bits": 8, "nchunks": 2, "light": True}
    return {"mode": "product", "full_bits": 12, "nchunks": 8, "light": False}


def work_items(cfg):
    from vf.gen import insgen
    items = []
    inherited = {}
    only = [a for a in os.environ.get("VF_ARCHS", "").split(",") if a]
    for an in insgen.arch_names():
        if only and an not in only:
            continue
        ai = insgen.get_arch_info(an)
        base = None
        if cfg["light"] and an in LIGHT_VARIANTS:
            base = set(map(id, insgen.get_arch_info(LIGHT_VARIANTS[an]).arch.isa.instructions))
        for ci in ai.classes:
            light = base is not None and id(ci.cls) in base
            mode = cfg["mode"]
            if mode == "product" and an in LIGHT_VARIANTS and id(ci.cls) in inherited.setdefault(
                    an, set(map(id, insgen.get_arch_info(LIGHT_VARIANTS[an]).arch.isa.instructions))):
                mode = "sweep"      # classes an option variant inherits get products under the base target only
            n = 1 if (light or not ci.operands) else cfg["nchunks"]
            for c in range(n):
                items.append((an, ci.cid, c, n, light, mode))
    return items


def worker(p, shard, cfg, hs):
    from vf.gen import insgen
    for an, cid, chunk, nchunks, light, mode in shard:
        ai = insgen.get_arch_info(an)
        ci = ai.by_cid[cid]
        n = 0
        for idx, inst in enumerate(insgen.class_instances(ci, mode, cfg["full_bits"])):
            if light and idx >= 2:
                break
            if idx % nchunks != chunk:
                continue
            if check_instance(p, ai, inst, hs):
                n += 1
                if n == 1 and chunk == 0 and cid in ("Addi", "addi_ins", "Mov1", "RmMemDisp", "Movw"):
                    p.sample({"arch": an, "class": cid, "text": inst.text(), "bytes": inst.encode().hex()})
        if chunk == 0:
            p.count("classes")
            if ci.seeds()[0] is None:
                p.collect("unbuildable_classes", "%s:%s" % (an, cid))
        p.count("instances:" + an, n)


def explore(ctx, cfg, hs):
    items = work_items(cfg)
    ctx.pmap(worker, items, extra=(cfg, hs))


def run(ctx):
    from vf.gen import insgen
    hs = int(os.environ.get("PYTHONHASHSEED", "0") or 0)
    cfg = config(ctx.tier)
    archs = insgen.arch_names()
    ctx.note("archs", list(archs))
    ctx.note("config", cfg)
    ctx.note("skipped_classes_without_syntax", {an: len(insgen.get_arch_info(an).skipped) for an in archs})
    if os.environ.get("VF_ARCHS"):
        ctx.cap("VF_ARCHS=%s restricts the architectures (development aid)" % os.environ["VF_ARCHS"])
    explore(ctx, cfg, hs)
    if ctx.tier == "thorough":
        # ambiguous parses with equal priority could hide behind one hash seed: redo the sweep under three more
        sweep = {"mode": "sweep", "full_bits": 8, "nchunks": 2, "light": False}
        for k in (1, 2, 3):
            child = run_child(sweep, k)
            ctx.add(child["evaluations"])
            ctx.count("evaluations_hashseed_%d" % k, child["evaluations"])
            for key, (order, what, wit) in child["violations"].items():
                ctx.violation(key, what, wit, order=10 ** 9 + order)
        ctx.note("hashseeds", [hs, 1, 2, 3])
    # group the affected classes per key into one note
    affected = {k[len("classes:"):]: sorted(v) for k, v in ctx.sets.items() if k.startswith("classes:")}
    for k in list(ctx.sets):
        if k.startswith("classes:"):
            del ctx.sets[k]
    ctx.note("affected_classes_per_key", affected)


def run_child(cfg, hashseed):
    """Run the exploration in a child interpreter with another PYTHONHASHSEED; returns its merged Partial as JSON."""
    from vf import core
    env = dict(os.environ, PYTHONHASHSEED=str(hashseed), VF_C09_CHILD=json.dumps(cfg))
    r = subprocess.run([sys.executable, "-m", "vf.checks.c09"], env=env, cwd=core.VERIF, capture_output=True, text=True)
    if r.returncode != 0:
        raise core.HarnessError("C09 child (hashseed %d) failed: %s" % (hashseed, r.stderr[-2000:]))
    return json.loads(r.stdout.splitlines()[-1])


def child_main():
    from vf import core
    core.use_repo()
    cfg = json.loads(os.environ["VF_C09_CHILD"])
    hs = int(os.environ.get("PYTHONHASHSEED", "0"))
    ctx = core.Ctx(ID, "thorough", 0, LEVEL)
    explore(ctx, cfg, hs)
    print(json.dumps({"evaluations": ctx.evaluations, "violations": ctx.violations}))


def replay(w):
    from vf import core
    from vf.gen import insgen
    hs = int(w.get("hashseed", 0))
    cur = int(os.environ.get("PYTHONHASHSEED", "0") or 0)
    if hs != cur and not os.environ.get("VF_C09_REPLAY_CHILD"):
        env = dict(os.environ, PYTHONHASHSEED=str(hs), VF_C09_REPLAY_CHILD=json.dumps(w))
        r = subprocess.run([sys.executable, "-m", "vf.checks.c09"], env=env, cwd=core.VERIF, capture_output=True, text=True)
        if r.returncode != 0:
            raise core.HarnessError("C09 replay child failed: " + r.stderr[-2000:])
        violated, detail = json.loads(r.stdout.splitlines()[-1])
        return violated, detail
    inst = insgen.from_witness(w)
    ai = insgen.get_arch_info(w["arch"])
    p = core.Partial()
    if not check_instance(p, ai, inst, hs):
        return False, "direct encoding raises: not an input"
    # authoritative verdict: the public entry point ppci.api.asm
    p2 = core.Partial()
    check_instance(p2, ai, inst, hs, via_api=True)
    if bool(p.violations) != bool(p2.violations):
        return False, "HARNESS: replicated assembler call and ppci.api.asm disagree (%r / %r)" % (sorted(p.violations), sorted(p2.violations))
    if p.violations:
        k = sorted(p.violations)[0]
        return True, "[%s] %s" % (k, p.violations[k][1])
    return False, "%s %r assembles to the direct encoding" % (inst.cid, inst.text())


if __name__ == "__main__":
    if os.environ.get("VF_C09_REPLAY_CHILD"):
        from vf import core as _core
        _core.use_repo()
        print(json.dumps(replay(json.loads(os.environ["VF_C09_REPLAY_CHILD"]))))
    else:
        child_main()
