"""C07 - instruction read/write annotations (used_registers / defined_registers / clobbers) match machine semantics.

x86_64: every instance is executed on the host CPU by vf/native/c07_harness.c (one instruction, fully specified state:
16 GPRs incl. rsp, arithmetic flags, xmm0-15, a 16 KiB scratch memory region).
riscv / riscv:rvc: every instance is executed on the reference emulator vf/sem/rv32.py (x1-x31, a 16 KiB scratch region).

For each instance and each of two base states:
  (1) bits of registers that differ before/after must lie inside the declared writes (defined_registers incl. extra_defs),
      the clobbers, or the documented implicit state                                        -> key .../undeclared-write/...
  (2) for every register, the bits NOT covered by a declared read (used_registers incl. extra_uses) are perturbed (up to three
      patterns, stopping at the first that shows a dependence); the declared outputs, the scratch memory and the fault status
      must not change                                                                       -> key .../undeclared-read/...
A finding on a physical register is attributed to the operand slot that names it only if giving that slot another register makes
the finding go away; otherwise to `implicit-<register>`.  Key: <isa>/<class id>/<kind>/<slot or implicit-register>.
The x86_64 fast path does the perturbation loop inside the C harness; every reported finding is re-derived by the Python
function `derive` from raw single executions in a fresh harness process (the same code serves riscv and --replay).
"""
import os
import struct
import subprocess

ID = "C07"
LEVEL = "exploration"
RULE = ("x86_64 (host CPU) and riscv, riscv:rvc (reference emulator): every executable instruction class of the ISA plus the pseudo "
        "instructions (ArtificialInstruction subclasses with a syntax) defined in the ISA's modules (exclusions listed by name in the evidence) "
        "x both insgen base operand vectors (riscv: plus one with all registers in x8..x15) x every nested addressing-mode option x "
        "[every admissible register of each register slot, other slots at base] + [15 fixed integers per integer slot] + [every pair of "
        "register slots naming the same register]; thorough adds the full register product of every pair of register slots. Each instance "
        "runs from 2 base machine states (all-pointer sentinels / high-entropy sentinels; memory bases point into a scratch region) plus <= 3 "
        "perturbations of the not-declared-read bits of every register. An evaluation is one machine execution; distinct non-trivial = "
        "distinct (class, addressing options, memory written, registers changed outside the declaration, registers with undeclared dependence)")
ASSUMPTIONS = [
    "x86_64 executor: the host CPU (AMD64) running the encoded bytes inside vf/native/c07_harness.c; riscv executor: vf/sem/rv32.py (RV32IMC, "
    "written from the ISA manual, validated against clang/llvm by its own tests); every instruction of a multi-instruction pseudo encoding is "
    "executed once, in order",
    "arm, thumb, m68k, mips: no executor in this sandbox - NOT claimed; x86_64:x87 and riscv:rvf/rvfx: the executors keep no FPU state - NOT claimed",
    "RFLAGS is not a register in ppci's x86_64 model (no instruction declares it; compare+jcc are emitted adjacently): flags are documented "
    "implicit state - loaded with a fixed value per base state, never perturbed, never compared; rip/pc likewise; rsp is implicit for "
    "push/pop/call/ret (incl. the xmm push/pop pseudo instructions); x2 is implicit for c.lwsp/c.swsp/c.addi4spn/c.addi16sp; x0 is hard-wired",
    "x86_64 rsp is perturbed in bits 0..46 only (with a non-canonical rsp in flight this KVM guest occasionally delivers a spurious #UD)",
    "granularity: a declared ppci register maps to a bit range of a physical register (al=rax[0:8], ax=[0:16], eax=[0:32] and a declared eax write "
    "may also change rax[32:64], xmm single/double writes may change the whole xmm register); reads are judged at the same bit granularity",
    "operand registers: x86_64 ah/ch/dh/bh are not enumerated (not allocatable; ppci encodes them with a REX prefix, i.e. as spl/bpl/sil/dil - an "
    "encoding matter for C08); a riscv register slot in which the encoder maps several registers to the same bytes (3-bit RVC field) is "
    "enumerated over x8..x15 only",
    "addressing forms that cannot be redirected into the scratch region (RmRip, RmAbs, RmAbsLabel) are not executed; label operands are encoded "
    "with displacement 0 (relocation not applied), so direct jumps/calls/branches fall through and are checked for register/stack effects only; "
    "indirect call/jmp/ret targets are set to the address behind the instruction",
    "undeclared reads are judged on the declared outputs, memory and fault status only (as the property says): an instruction without declared "
    "outputs (x86 div/idiv/cqo) is flagged for its undeclared writes, and for an undeclared read only where that changes memory or trapping",
    "a finding whose responsible operand cannot be singled out on an instance (several operands name the register) is not reported from that "
    "instance (counted n_ambiguous); instances where the operands name different registers cover every slot",
    "instances that fault in every base state are skipped (counted per status); riscv classes the reference emulator does not implement "
    "(Zicsr csr*/rdcycle*, mret, ebreak) therefore end up in the evidence list classes_never_executed_riscv and are NOT claimed",
]
CLAIM = {
    "text": "For every enumerated x86_64 / RV32IMC instruction instance, executing the encoded bytes changes only declared-written or clobbered "
            "register bits (plus documented implicit state), and declared outputs and memory do not depend on register bits that are not declared read.",
    "note": "Trusted base: host CPU / rv32 reference emulator, the C harness, the register-name to physical-bits table in this module.",
    "technique": "bounded exhaustive operand enumeration, single-instruction execution with state perturbation",
    "engine": "K1",
}

HERE = os.path.dirname(os.path.abspath(__file__))
HARNESS_SRC = os.path.join(os.path.dirname(HERE), "native", "c07_harness.c")

M64 = (1 << 64) - 1
M128 = (1 << 128) - 1
M32 = (1 << 32) - 1

# perturbation patterns (same as in the C harness)
PG = (0xA5A5A5A5A5A5A5A5, 0x3C3C3C3C3C3CC3C3, 0x0000000000000048)
PX = (0x5A5A5A5A5A5A5A5AA5A5A5A5A5A5A5A5, 0xC3C3C3C33C3C3C3C3C3C3C3C3C3CC3C3, 0x00080000000800000008000000080000)

INTS = (0, 1, 2, 3, 8, -1, -8, 0x40, 0x7F, -0x80, 0x80, 0x7F8, -0x800, 0x12345678, -0x12345678)

X86_GPR = ("rax", "rcx", "rdx", "rbx", "rsp", "rbp", "rsi", "rdi", "r8", "r9", "r10", "r11", "r12", "r13", "r14", "r15")

X86_EXCLUDED = {
    "Int": "software interrupt (system)",
    "Syscall": "system call",
    "Rep": "prefix byte, not an instruction on its own",
}
X86_IMPLICIT_SP = {"Push", "Pop", "Call", "CallReg", "Ret", "PushXmmRegisterDouble", "PopXmmRegisterDouble",
                   "PushXmmRegisterSingle", "PopXmmRegisterSingle"}
X86_IMPLICIT_PTR = {"Movsb": (6, 7)}          # registers that must hold valid pointers although no operand names them
X86_SKIP_CTORS = {"RmRip", "RmAbs", "RmAbsLabel"}
X86_BASE_SLOTS = {("RmMem", "reg"), ("RmMemDisp", "reg"), ("RmMemDisp2", "regb")}
X86_INDEX_SLOTS = {("RmMemDisp2", "regi")}

# high-entropy sentinels (hardware register numbering); rdx is small so that div/idiv of rdx:rax by any other register does not overflow
X86_ENT = (0x4A17C3E259B1D683, 0x9B26D4F36AC2E783, 0x000000C300070013, 0x6D48F6158CE4A9B6, 0, 0xAE59A7269DF5BAC7,
           0x7F6AB8374E06CBD8, 0x517BC9485F17DCE9, 0xB28CDA596028EDFA, 0x439DEB6A7139FE0B, 0x84AEFC7B824A0F1C,
           0x65BF0D8C935B1A2D, 0xA6C01E9DA46C2B3E, 0x77D12FAEB57D3C4F, 0x58E230BFC68E4D51, 0x99F341C0D79F5E62)


# ====================================================================== native harness client

class HarnessDied(Exception):
    pass


def build_harness(d):
    exe = os.path.join(d, "c07_harness")
    for flags in (["-O2", "-mno-red-zone", "-static", "-no-pie"], ["-O2", "-mno-red-zone", "-no-pie"], ["-O2", "-mno-red-zone"]):
        r = subprocess.run(["gcc"] + flags + [HARNESS_SRC, "-o", exe], capture_output=True, text=True)
        if r.returncode == 0:
            return exe
    from vf.core import HarnessError
    raise HarnessError("cannot build c07_harness: " + r.stderr[-1500:])


class Harness:
    """One harness process.  check_batch() = fast path (perturbation logic in C); raw() = one execution, full state back."""

    def __init__(self, exe):
        self.exe = exe
        self.p = subprocess.Popen([exe], stdin=subprocess.PIPE, stdout=subprocess.PIPE)
        h = self._read(48)
        magic, self.data_base, self.data_size, self.ins_addr, self.maxcode, self.seccomp = struct.unpack("<6Q", h)
        if magic != 0x3730436676:
            raise HarnessDied("bad hello")

    def _read(self, n):
        b = self.p.stdout.read(n)
        if b is None or len(b) != n:
            rc = self.p.poll()
            raise HarnessDied("harness exited (rc=%r) after %d of %d bytes" % (rc, len(b or b""), n))
        return b

    def close(self):
        try:
            self.p.stdin.write(struct.pack("<I", 0))
            self.p.stdin.flush()
        except Exception:  # noqa
            pass
        try:
            self.p.stdin.close()
            self.p.stdout.close()
        except Exception:  # noqa
            pass
        self.p.wait()

    @staticmethod
    def _pack_state(st):
        xs = []
        for v in st["x"]:
            xs.append(v & M64)
            xs.append(v >> 64)
        return struct.pack("<50Q", *(list(st["g"]) + [st["flags"], 0x1F80] + xs))

    @staticmethod
    def _pack_masks(m):
        xs = []
        for v in m["x"]:
            xs.append(v & M64)
            xs.append(v >> 64)
        return struct.pack("<48Q", *(list(m["g"]) + xs))

    @classmethod
    def _pack_base(cls, st, patches):
        b = cls._pack_state(st) + struct.pack("<2I", len(patches), 0)
        for i in range(4):
            if i < len(patches):
                b += struct.pack("<2IQ", patches[i][0], 0, patches[i][1] & M64)
            else:
                b += struct.pack("<2IQ", 0, 0, 0)
        return b

    def pack_check(self, ident, prep):
        code = prep["code"]
        states = prep["states"]
        b = struct.pack("<4I", 1, ident, len(code), len(states)) + code.ljust(32, b"\x90")
        b += self._pack_masks(prep["rmask"]) + self._pack_masks(prep["amask"]) + self._pack_masks(prep["omask"])
        for i in range(2):
            st, patches = states[i] if i < len(states) else states[0]
            b += self._pack_base(st, patches)
        return b

    def check_batch(self, reqs):
        """reqs: list of packed check requests -> list of [per-state dict]"""
        self.p.stdin.write(b"".join(reqs))
        self.p.stdin.flush()
        out = []
        for _ in reqs:
            r = self._read(88)
            op, ident = struct.unpack_from("<2I", r, 0)
            per = []
            for s in range(2):
                status, nruns, chg_g, chg_x, dep_g, dep_x, memch, _pad, h = struct.unpack_from("<8IQ", r, 8 + 40 * s)
                per.append({"status": status, "nruns": nruns, "chg": {"g": chg_g, "x": chg_x}, "dep": {"g": dep_g, "x": dep_x},
                            "mem": memch, "hash": h, "how": _pad})
            out.append((ident, per))
        return out

    def raw(self, code, st, patches):
        """-> (status, final state dict, [(offset, new 8-byte word)], number of changed words)"""
        b = struct.pack("<4I", 2, 0, len(code), 0) + code.ljust(32, b"\x90") + self._pack_base(st, patches)
        self.p.stdin.write(b)
        self.p.stdin.flush()
        r = self._read(928)
        op, ident, status, ndiff = struct.unpack_from("<4I", r, 0)
        v = struct.unpack_from("<50Q", r, 16)
        fin = {"g": list(v[:16]), "flags": v[16], "x": [v[18 + 2 * i] | (v[19 + 2 * i] << 64) for i in range(16)]}
        diffs = []
        for i in range(min(ndiff, 32)):
            off, _p, val = struct.unpack_from("<2IQ", r, 416 + 16 * i)
            diffs.append((off, val))
        return status, fin, diffs, ndiff


# ====================================================================== generic derivation (Python; used for riscv, confirmation, replay)

def derive(prep, raw, patterns):
    """Re-derive both checks from raw executions.  raw(code, state, patches) -> (status, final, memdiffs, ndiff).
    Returns (findings, info): findings = [(kind, bank, idx, state_no, detail)], info = per state summary."""
    findings = []
    info = []
    banks = prep["banks"]
    for sno, (st, patches) in enumerate(prep["states"]):
        status, fin, diffs, ndiff = raw(prep["code"], st, patches)
        if status != 0:
            info.append({"status": status, "nruns": 1})
            continue
        nruns = 1
        changed = set()
        for bank in banks:
            for r, (a, b) in enumerate(zip(st[bank], fin[bank])):
                bad = (a ^ b) & ~prep["amask"][bank][r]
                if bad:
                    changed.add((bank, r))
                    findings.append(("undeclared-write", bank, r, sno,
                                     "%s %#x -> %#x (bits %#x changed outside the declared writes)" % (prep["regname"](bank, r), a, b, bad)))
        outs = [(ob, j, m) for ob in banks for j, m in enumerate(prep["omask"][ob]) if m]
        for bank in banks:
            pats = patterns[bank]
            vals = st[bank]
            for r in range(len(vals)):
                u = ~prep["rmask"][bank][r] & prep["width"][bank] & prep.get("pmask", {}).get((bank, r), -1)
                if not u:
                    continue
                last = None
                hit = None
                for pat in pats:
                    d = pat & u
                    if not d or d == last:
                        continue
                    last = d
                    st2 = dict(st)
                    st2[bank] = list(vals)
                    st2[bank][r] ^= d
                    s2, fin2, diffs2, nd2 = raw(prep["code"], st2, patches)
                    nruns += 1
                    if s2 != 0:
                        hit = "with %s = %#x instead of %#x the instruction faults (status %d)" % (prep["regname"](bank, r), st2[bank][r], vals[r], s2)
                        break
                    if nd2 != ndiff or diffs2 != diffs:
                        hit = "with %s = %#x instead of %#x the memory effect differs: %s vs %s" % (
                            prep["regname"](bank, r), st2[bank][r], vals[r], _fmt_diffs(diffs2), _fmt_diffs(diffs))
                        break
                    for ob, j, m in outs:
                        if (fin[ob][j] ^ fin2[ob][j]) & m:
                            hit = "with %s = %#x instead of %#x the declared output %s becomes %#x instead of %#x" % (
                                prep["regname"](bank, r), st2[bank][r], vals[r], prep["regname"](ob, j), fin2[ob][j], fin[ob][j])
                            break
                    if hit is not None:
                        break          # dependence established: no further perturbation of this register
                if hit is not None:
                    findings.append(("undeclared-read", bank, r, sno, hit))
        info.append({"status": 0, "nruns": nruns, "changed": sorted(changed), "mem": ndiff})
    return findings, info


def _fmt_diffs(diffs):
    return "[" + ", ".join("+%#x:=%#x" % d for d in diffs[:3]) + ("]" if len(diffs) <= 3 else ", ...]")


# ====================================================================== enumeration (on top of insgen's class tables)

def leaf_regs(ci, ops):
    """[(slot name, owner constructor/class name, operand name, register object, path)] for every register leaf."""
    out = []

    def walk(specs, vals, prefix, owner, path):
        for j, (spec, v) in enumerate(zip(specs, vals)):
            if v[0] == "c":
                cti = spec.options[v[1]]
                walk(cti.operands, v[2], prefix + [spec.name + ":" + cti.cls.__name__], cti.cls.__name__, path + (j,))
            elif v[0] == "r":
                out.append((".".join(prefix + [spec.name]), owner, spec.name, spec.regmap[v[1]], path + (j,)))
            elif v[0] == "rs":
                for n in v[1]:
                    out.append((".".join(prefix + [spec.name]), owner, spec.name, spec.regmap[n], None))

    walk(ci.operands, ops, [], ci.cls.__name__, ())
    return out


def ctor_names(ci, ops):
    out = []

    def walk(specs, vals):
        for spec, v in zip(specs, vals):
            if v[0] == "c":
                cti = spec.options[v[1]]
                out.append(cti.cls.__name__)
                walk(cti.operands, v[2])

    walk(ci.operands, ops)
    return out


def sanitize(target, ci, ops):
    """Make a base vector well-formed for the target: registers the target does not enumerate in a slot (x86 ah/ch/dh/bh; x1.. in a
    3-bit RVC register field) are replaced by the first admissible register that no other slot of the vector uses."""
    from vf.gen import insgen
    for path, val in insgen.leaves(ops):
        if val[0] != "r":
            continue
        allowed = target.slot_regs(ci, ops, path, ci.spec_at(ops, path))
        if val[1] in allowed:
            continue
        taken = {v[1] for p2, v in insgen.leaves(ops) if v[0] == "r" and p2 != path}
        for n2 in [target.stand_in(val[1])] + allowed:
            if n2 in allowed and n2 not in taken:
                ops = insgen.treplace(ops, path, ("r", n2))
                break
    return ops


def enum_instances(target, ci, thorough):
    """ops vectors of one class, simplest first (see RULE)."""
    from vf.gen import insgen
    a, b = ci.seeds()
    if a is None:
        return
    seen = set()

    def emit(ops):
        if ops in seen:
            return None
        seen.add(ops)
        if ci.try_encode(ops) is None:
            return None
        return ops

    bases = [a] if a == b else [a, b]
    bases += target.extra_bases(ci, a)
    configs = []
    for base in bases:
        cfgs = [base]
        for i, spec in enumerate(ci.operands):
            if spec.kind != "c":
                continue
            cur = base[i]
            for o in range(len(spec.options)):
                sub = ci._option_seed(base, (i,), spec, o, cur)
                if sub is not None:
                    cfgs.append(insgen.treplace(base, (i,), sub))
        for c in cfgs:
            c = sanitize(target, ci, c)
            if c not in configs and ci.try_encode(c) is not None:
                configs.append(c)
    for cfg in configs:
        r = emit(cfg)
        if r is not None:
            yield r
    for cfg in configs:
        for path, val in insgen.leaves(cfg):
            spec = ci.spec_at(cfg, path)
            if val[0] == "r":
                for name in target.slot_regs(ci, cfg, path, spec):
                    r = emit(insgen.treplace(cfg, path, ("r", name)))
                    if r is not None:
                        yield r
            elif val[0] == "i":
                for v in INTS:
                    r = emit(insgen.treplace(cfg, path, ("i", v)))
                    if r is not None:
                        yield r
    # pairs of register slots: the diagonal (both slots name the same register) always, the full product in thorough
    for cfg in configs:
        lv = [(p, v) for p, v in insgen.leaves(cfg) if v[0] == "r"]
        for x in range(len(lv)):
            for y in range(x + 1, len(lv)):
                px, py = lv[x][0], lv[y][0]
                nx = target.slot_regs(ci, cfg, px, ci.spec_at(cfg, px))
                ny = target.slot_regs(ci, cfg, py, ci.spec_at(cfg, py))
                for n1 in nx:
                    c1 = insgen.treplace(cfg, px, ("r", n1))
                    for n2 in (ny if thorough else [n for n in ny if n == n1]):
                        r = emit(insgen.treplace(c1, py, ("r", n2)))
                        if r is not None:
                            yield r


def arch_classes(arch):
    """(insgen ArchInfo, {cid: ClassInfo}) - the ISA's classes plus the pseudo instructions (ArtificialInstruction subclasses with a
    syntax) that live in the ISA's modules without being registered in the ISA: the code generator emits those (rvc: Subv, Lwv, ...)."""
    import sys
    from vf.gen import insgen
    from ppci.arch.generic_instructions import ArtificialInstruction
    ai = insgen.get_arch_info(arch)
    key = "c07:" + arch
    if key not in insgen._CACHE:
        by_cid = dict(ai.by_cid)
        have = {ci.cls for ci in ai.classes}
        extras = []
        for modname in sorted({ci.cls.__module__ for ci in ai.classes}):
            mod = sys.modules.get(modname)
            for name, obj in sorted(vars(mod).items()):
                if (isinstance(obj, type) and issubclass(obj, ArtificialInstruction) and obj.__module__ == modname
                        and getattr(obj, "syntax", None) and obj not in have and hasattr(obj, "render")):
                    cid = obj.__name__ if obj.__name__ not in by_cid else obj.__name__ + "@pseudo"
                    ci = insgen.ClassInfo(arch, cid, obj, lambda: [])
                    by_cid[cid] = ci
                    extras.append(cid)
                    have.add(obj)
        insgen._CACHE[key] = (by_cid, extras)
    by_cid, extras = insgen._CACHE[key]
    return ai, by_cid, extras


def instance_from_witness(w):
    from vf.gen import insgen
    _ai, by_cid, _extras = arch_classes(w["arch"])
    return insgen.Instance(by_cid[w["cls"]], insgen.from_json(w["ops"]))


class Unclassified(Exception):
    pass


def declared_masks(target, ins, nregs):
    """(rmask, amask, omask, used, defs, clob) from the instruction's own API."""
    used = list(ins.used_registers)
    defs = list(ins.defined_registers)
    clob = list(ins.clobbers)
    rmask = {b: [0] * n for b, n in nregs.items()}
    amask = {b: [0] * n for b, n in nregs.items()}
    omask = {b: [0] * n for b, n in nregs.items()}
    for r in used:
        b, i, m, _e = target.phys(r)
        rmask[b][i] |= m
    for r in defs:
        b, i, m, e = target.phys(r)
        omask[b][i] |= m
        amask[b][i] |= m | e
    for r in clob:
        b, i, m, e = target.phys(r)
        amask[b][i] |= m | e
    return rmask, amask, omask, used, defs, clob


# ====================================================================== x86_64 target

class X86Target:
    name = "x86_64"
    banks = ("g", "x")
    nregs = {"g": 16, "x": 16}
    width = {"g": M64, "x": M128}
    patterns = {"g": PG, "x": PX}
    REG8_STAND_IN = {"ah": "al", "ch": "cl", "dh": "dl", "bh": "bl"}

    def __init__(self):
        self.hello = None

    def stand_in(self, name):
        return self.REG8_STAND_IN.get(name, name)

    def slot_regs(self, ci, cfg, path, spec):
        return [r.name for r in spec.regs if r.name not in self.REG8_STAND_IN]

    @staticmethod
    def reserved(bank, idx):
        return bank == "g" and idx == 4

    @staticmethod
    def extra_bases(ci, a):
        return []

    def class_filter(self, classes):
        inc, exc = [], {}
        for ci in classes:
            if ci.cid in X86_EXCLUDED:
                exc[ci.cid] = X86_EXCLUDED[ci.cid]
            elif ci.cls.__module__.endswith("data_instructions"):
                exc[ci.cid] = "data directive, not an instruction"
            else:
                inc.append(ci.cid)
        return inc, exc

    @staticmethod
    def regname(bank, r):
        return X86_GPR[r] if bank == "g" else "xmm%d" % r

    @staticmethod
    def phys(reg):
        """ppci register -> (bank, index, mask of its bits, mask of the extra bits a write to it may change)"""
        t = type(reg).__name__
        n = reg.num
        if t == "Register64":
            if not 0 <= n < 16:
                raise Unclassified("register %s" % reg.name)
            return "g", n, M64, 0
        if t == "Register32":
            return "g", n, M32, M64 ^ M32
        if t == "Register16":
            return "g", n, 0xFFFF, 0
        if t == "Register8":
            if n < 4:
                return "g", n, 0xFF, 0
            return "g", n - 4, 0xFF00, 0
        if t == "XmmRegisterDouble":
            return "x", n, M64, M128 ^ M64
        if t == "XmmRegisterSingle":
            return "x", n, M32, M128 ^ M32
        raise Unclassified("register class %s" % t)

    def ptr(self, k, variant):
        base = self.hello["data_base"]
        if variant == 0:
            return base + 0x1C00 + 0x80 * k + 8 * ((5 * k) % 16)
        return base + 0x2400 - 0x80 * k + 8 * ((3 * k + 1) % 16)

    @staticmethod
    def xmm_sentinel(k, variant):
        # low 64 bits: a normal double whose low 32 bits are a normal float (so SSE arithmetic never degenerates to NaN)
        if variant == 0:
            lo = ((0x4031 + k) << 48) | ((0x2345 + 0x111 * k) << 32) | (0x41200077 + 0x00051234 * k)
            hi = ((0xC041 + k) << 48) | ((0x6789 + 0x111 * k) << 32) | (0xC1300055 + 0x00031234 * k)
        else:
            lo = ((0xC052 + k) << 48) | ((0x9ABC - 0x111 * k) << 32) | (0xC2480033 + 0x00071234 * k)
            hi = ((0x4063 + k) << 48) | ((0xDEF0 - 0x111 * k) << 32) | (0x42700011 + 0x00021234 * k)
        return lo | (hi << 64)

    _XMM = {}

    def _xmm(self, variant):
        if variant not in self._XMM:
            self._XMM[variant] = tuple(self.xmm_sentinel(k, variant) for k in range(16))
        return self._XMM[variant]

    def prepare(self, inst):
        """-> prep dict (see derive) or raises Unclassified"""
        from vf.gen import insgen
        ci = inst.ci
        cid = ci.cid
        ctors = ctor_names(ci, inst.ops)
        for c in ctors:
            if c in X86_SKIP_CTORS:
                raise Unclassified("addressing form %s cannot be redirected into the scratch region" % c)
        code = insgen.direct_bytes(inst.build())
        if not 0 < len(code) <= 32:
            raise Unclassified("encoded length %d" % len(code))
        ins = inst.build()
        rmask, amask, omask, used, defs, clob = declared_masks(self, ins, self.nregs)
        if cid in X86_IMPLICIT_SP:
            rmask["g"][4] = M64
            amask["g"][4] = M64
            omask["g"][4] = 0
        bases, indexes, codes = set(), set(), set()
        slots = []
        for slot, owner, opname, reg, path in leaf_regs(ci, inst.ops):
            b, i, _m, _e = self.phys(reg)
            slots.append((slot, b, i, path))
            if (owner, opname) in X86_BASE_SLOTS:
                bases.add(i)
            elif (owner, opname) in X86_INDEX_SLOTS:
                indexes.add(i)
            elif (cid == "CallReg" and opname == "reg") or (cid == "Jmp" and owner == "RmReg64"):
                codes.add(i)
        bases.update(X86_IMPLICIT_PTR.get(cid, ()))
        bases.add(4)
        landing = self.hello["ins_addr"] + len(code)
        states = []
        for variant in (0, 1):
            g = []
            for k in range(16):
                if k in codes and k != 4:
                    g.append(landing)
                elif k in bases:
                    g.append(self.ptr(k, variant))
                elif k in indexes:
                    g.append(0x10 + 8 * k if variant == 0 else 0x18 + 8 * (15 - k))
                elif variant == 0:
                    g.append(self.ptr(k, 0))
                else:
                    g.append(X86_ENT[k])
            st = {"g": g, "flags": 0x202 if variant == 0 else 0xAC3, "x": list(self._xmm(variant))}
            patches = []
            if cid == "Ret":
                patches.append((g[4] - self.hello["data_base"], landing))
            elif cid == "Jmp" and not codes:
                ea = self.effective_address(ci, inst.ops, g)
                if ea is not None and 0 <= ea - self.hello["data_base"] <= self.hello["data_size"] - 8:
                    patches.append((ea - self.hello["data_base"], landing))
            states.append((st, patches))
        return {"code": code, "states": states, "rmask": rmask, "amask": amask, "omask": omask, "slots": slots,
                "banks": self.banks, "width": self.width, "regname": self.regname,
                "pmask": {("g", 4): 0x00007FFFFFFFFFFF},      # rsp stays a canonical user address (same rule in the C harness)
                "text": str(ins), "used": [r.name for r in used], "defs": [r.name for r in defs], "clob": [r.name for r in clob],
                "ctors": ctors}

    @staticmethod
    def effective_address(ci, ops, g):
        for spec, v in zip(ci.operands, ops):
            if v[0] != "c":
                continue
            cti = spec.options[v[1]]
            n = cti.cls.__name__
            vals = {o.name: x for o, x in zip(cti.operands, v[2])}
            if n == "RmMem":
                return g[cti.operands[0].regmap[vals["reg"][1]].num]
            if n == "RmMemDisp":
                return (g[cti.operands[0].regmap[vals["reg"][1]].num] + vals["disp"][1]) & M64
            if n == "RmMemDisp2":
                return (g[cti.operands[0].regmap[vals["regb"][1]].num] + g[cti.operands[1].regmap[vals["regi"][1]].num] + vals["disp"][1]) & M64
        return None

    def executor(self, exe):
        return X86Exec(self, exe)


class X86Exec:
    """fast = perturbation logic inside the C harness; raw = single executions (used by derive)."""

    def __init__(self, target, exe):
        self.target = target
        self.h = Harness(exe)
        self.raw = self.h.raw

    def check_many(self, preps):
        res = self.h.check_batch([self.h.pack_check(i & M32, p) for i, p in enumerate(preps)])
        return [per[:len(p["states"])] for (_i, per), p in zip(res, preps)]

    def close(self):
        self.h.close()


# ====================================================================== riscv target (reference emulator)

RV_BASE = 0x00410000
RV_SIZE = 0x6000
RV_CODE = RV_BASE + 0x800
RV_DATA = RV_BASE + 0x2000
RV_DATA_SIZE = 0x4000
RV_EXCLUDED = {"Dcd2": "data directive, not an instruction"}
RV_IMPLICIT_SP = {"CLwsp", "CSwsp", "CAddi4spn", "CAddi16sp"}      # the ISA manual fixes x2 as base/destination of these
PG32 = (0xA5A5A5A5, 0x3C3CC3C3, 0x00000048)
RV_ENT = (0, 0x4A17C3E2, 0x59B1D683, 0x9B26D4F3, 0x6AC2E794, 0xC3E7F013, 0x6D48F615, 0x8CE4A9B6, 0xAE59A726, 0x9DF5BAC7,
          0x7F6AB837, 0x4E06CBD8, 0x517BC948, 0x5F17DCE9, 0xB28CDA59, 0x6028EDFA, 0x439DEB6A, 0x7139FE0B, 0x84AEFC7B,
          0x824A0F1C, 0x65BF0D8C, 0x935B1A2D, 0xA6C01E9D, 0xA46C2B3E, 0x77D12FAE, 0xB57D3C4F, 0x58E230BF, 0xC68E4D51,
          0x99F341C0, 0xD79F5E62, 0x2B04527A, 0xE8A06F95)


def rv_decode_all(code):
    """[Insn] of a code string with the reference decoder (raises rv32.EmuError)."""
    from vf.sem import rv32
    out = []
    off = 0
    while off < len(code):
        i = rv32.decode(int.from_bytes(code[off:off + 4].ljust(4, b"\0"), "little"))
        if off + i.size > len(code):
            raise rv32.IllegalInstruction(0, why="truncated")
        out.append(i)
        off += i.size
    return out


class RvTarget:
    banks = ("g",)
    nregs = {"g": 32}
    width = {"g": M32}
    patterns = {"g": PG32}

    def __init__(self, name):
        self.name = name
        self._slotcache = {}

    @staticmethod
    def stand_in(name):
        return name

    def slot_regs(self, ci, cfg, path, spec):
        """All registers of the slot, unless the encoder maps several registers to the same bytes (3-bit RVC register
        field): then only x8..x15, the registers such a field can name."""
        from vf.gen import insgen
        key = (ci.cid, cfg, path)
        r = self._slotcache.get(key)
        if r is None:
            enc = {}
            for reg in spec.regs:
                b = ci.try_encode(insgen.treplace(cfg, path, ("r", reg.name)))
                if b is not None:
                    enc.setdefault(b, []).append(reg)
            if any(len(v) > 1 for v in enc.values()):
                r = [reg.name for reg in spec.regs if 8 <= reg.num <= 15]
            else:
                r = [reg.name for reg in spec.regs]
            self._slotcache[key] = r
        return r

    @staticmethod
    def reserved(bank, idx):
        return idx in (0, 2)

    @staticmethod
    def extra_bases(ci, a):
        """One more base vector with every register in x8..x15, so that pseudo instructions render their compressed forms."""
        from vf.gen import insgen
        ops = a
        k = 9
        for path, val in insgen.leaves(a):
            if val[0] == "r":
                name = "x%d" % k
                if name in ci.spec_at(a, path).regmap:
                    ops = insgen.treplace(ops, path, ("r", name))
                    k = k + 1 if k < 15 else 8
        return [ops] if ops != a else []

    def class_filter(self, classes):
        inc, exc = [], {}
        for ci in classes:
            mod = ci.cls.__module__
            if mod.endswith("data_instructions") or ci.cid in RV_EXCLUDED:
                exc[ci.cid] = "data directive, not an instruction"
                continue
            if mod.endswith("rvf_instructions") or mod.endswith("rvfx_instructions"):
                exc[ci.cid] = "floating point: the reference emulator has no F state"
                continue
            a, _b = ci.seeds()
            if a is not None and not ci.try_encode(a):
                exc[ci.cid] = "assembler directive, emits no instruction bytes"
                continue
            inc.append(ci.cid)
        return inc, exc

    @staticmethod
    def regname(bank, r):
        return "x%d" % r

    @staticmethod
    def phys(reg):
        t = type(reg).__name__
        n = getattr(reg, "_num", None)
        if t != "RiscvRegister" or not isinstance(n, int) or not 0 <= n < 32:
            raise Unclassified("register %s of class %s" % (reg.name, t))
        return "g", n, M32, 0

    @staticmethod
    def ptr(k, variant):
        if variant == 0:
            return RV_DATA + 0x1C00 + 0x40 * k + 4 * ((5 * k) % 16)
        return RV_DATA + 0x2400 - 0x40 * k + 4 * ((3 * k + 1) % 16)

    def prepare(self, inst):
        from vf.gen import insgen
        from vf.sem import rv32
        ci = inst.ci
        code = insgen.direct_bytes(inst.build())
        if not 0 < len(code) <= 8:
            raise Unclassified("encoded length %d" % len(code))
        ins = inst.build()
        rmask, amask, omask, used, defs, clob = declared_masks(self, ins, self.nregs)
        # x0 is hard-wired: never perturbed, never an output
        rmask["g"][0] = M32
        omask["g"][0] = 0
        if ci.cid in RV_IMPLICIT_SP:
            rmask["g"][2] = M32
            amask["g"][2] = M32
            omask["g"][2] = 0
        slots = []
        for slot, owner, opname, reg, path in leaf_regs(ci, inst.ops):
            b, i, _m, _e = self.phys(reg)
            slots.append((slot, b, i, path))
        # registers the encoded bytes use as a load/store base get pointer sentinels in both base states (found with the
        # reference decoder; this only chooses the state, the judgement never looks at it)
        membase = set()
        try:
            for i in rv_decode_all(code):
                if i.op in rv32._LD or i.op in rv32._ST:
                    membase.add(i.rs1)
        except rv32.EmuError:
            pass
        states = []
        for variant in (0, 1):
            g = [0]
            for k in range(1, 32):
                if variant == 0 or k in membase:
                    g.append(self.ptr(k, variant))
                else:
                    g.append(RV_ENT[k])
            states.append(({"g": g}, []))
        return {"code": code, "states": states, "rmask": rmask, "amask": amask, "omask": omask, "slots": slots,
                "banks": self.banks, "width": self.width, "regname": self.regname,
                "text": str(ins), "used": [r.name for r in used], "defs": [r.name for r in defs], "clob": [r.name for r in clob],
                "ctors": ctor_names(ci, inst.ops)}

    def executor(self, exe):
        return RvExec(self)


class RvExec:
    """Runs the instruction(s) of one instance on vf/sem/rv32.py: every instruction of the encoding is executed exactly once, in
    order (a taken branch/jump does not redirect: control transfers are judged for their register effects only)."""

    def __init__(self, target):
        from vf.sem import rv32
        self.rv32 = rv32
        self.target = target
        img = bytearray(RV_SIZE)
        z = 12345
        for o in range(RV_DATA - RV_BASE, RV_DATA - RV_BASE + RV_DATA_SIZE, 4):
            z = (z * 1103515245 + 12345) & 0x7FFFFFFF
            w = 0x40010100 | ((z >> 3) & 0x0FFEFEFF)
            img[o:o + 4] = w.to_bytes(4, "little")
        self.img = img
        self.m = rv32.Machine(size=RV_SIZE, base=RV_BASE)
        self.m.mem[:] = img
        self.code = None

    def raw(self, code, st, patches):
        rv32 = self.rv32
        m = self.m
        if code != self.code:
            o = RV_CODE - RV_BASE
            self.img[o:o + 16] = code.ljust(16, b"\0")
            m.mem[o:o + 16] = self.img[o:o + 16]
            m.icache.clear()
            self.code = code
        m.x = list(st["g"])
        m.x[0] = 0
        m.writes = {}
        status = 0
        off = 0
        try:
            while off < len(code):
                m.pc = RV_CODE + off
                insn = m.fetch(m.pc)
                m.step()
                off += insn.size
        except rv32.IllegalInstruction:
            status = 4
        except rv32.MemoryFault:
            status = 11
        except rv32.Trap:
            status = 5
        except rv32.EmuError:
            status = 4
        diffs = []
        if m.writes:
            words = set()
            for addr, n in m.writes.items():
                for a in range((addr - RV_BASE) & ~3, addr - RV_BASE + n, 4):
                    words.add(a)
            for a in sorted(words):
                if 0 <= a <= RV_SIZE - 4:
                    if m.mem[a:a + 4] != self.img[a:a + 4]:
                        diffs.append((a - (RV_DATA - RV_BASE), int.from_bytes(m.mem[a:a + 4], "little")))
                        m.mem[a:a + 4] = self.img[a:a + 4]
            if any(RV_CODE - RV_BASE - 4 < a < RV_CODE - RV_BASE + 16 for a in words):
                m.icache.clear()
        if status != 0:
            return status, st, [], 0
        fin = {"g": list(m.x)}
        fin["g"][0] = 0
        return 0, fin, diffs, len(diffs)

    def check_many(self, preps):
        out = []
        for prep in preps:
            found, info = derive(prep, self.raw, self.target.patterns)
            per = []
            for sno, inf in enumerate(info):
                o = {"status": inf["status"], "nruns": inf["nruns"], "chg": {"g": 0}, "dep": {"g": 0}, "mem": inf.get("mem", 0)}
                for kind, bank, r, s2, _d in found:
                    if s2 == sno:
                        o["chg" if kind == "undeclared-write" else "dep"][bank] |= 1 << r
                per.append(o)
            out.append(per)
        return out

    def close(self):
        pass


# ====================================================================== judging

def get_target(arch):
    if arch == "x86_64":
        return X86Target()
    return RvTarget(arch)


def make_key(arch, cid, kind, where):
    return "%s/%s/%s/%s" % (arch, cid, kind, where)


def describe(arch, cid, prep, kind, detail, sno):
    decl = "used_registers=[%s] defined_registers=[%s]%s" % (
        ",".join(prep["used"]), ",".join(prep["defs"]), (" clobbers=[%s]" % ",".join(prep["clob"])) if prep["clob"] else "")
    if kind == "undeclared-write":
        return "%s %s '%s' (bytes %s), base state %d: executing it changes %s; declared: %s" % (
            arch, cid, prep["text"], prep["code"].hex(), sno, detail, decl)
    return "%s %s '%s' (bytes %s), base state %d: %s, although that register is not declared read; declared: %s" % (
        arch, cid, prep["text"], prep["code"].hex(), sno, detail, decl)


def bits(mask):
    return [i for i in range(32) if mask >> i & 1]


def has_finding(per, kind, bank, r):
    """True/False: the finding shows in some non-faulting base state; None: every base state faulted."""
    ok = [o for o in per if o["status"] == 0]
    if not ok:
        return None
    f = "chg" if kind == "undeclared-write" else "dep"
    return any((o[f].get(bank, 0) >> r) & 1 for o in ok)


def sibling(target, inst, prep, slot):
    """The same instance with the register of `slot` replaced by one that no operand of the instance names."""
    from vf.gen import insgen
    _name, _b, _i, path = slot
    if path is None:
        return None
    ci = inst.ci
    spec = ci.spec_at(inst.ops, path)
    usedphys = {(b, i) for _s, b, i, _p in prep["slots"]}
    for name in target.slot_regs(ci, inst.ops, path, spec):
        try:
            b, i, _m, _e = target.phys(spec.regmap[name])
        except Unclassified:
            continue
        if (b, i) in usedphys or target.reserved(b, i):
            continue
        ops2 = insgen.treplace(inst.ops, path, ("r", name))
        if ci.try_encode(ops2) is None:
            continue
        return insgen.Instance(ci, ops2)
    return None


def attribute(target, ex, inst, prep, kind, bank, r):
    """Which annotation is responsible for a finding on physical register (bank, r)?
      'implicit-<reg>'  no operand names the register, or the finding stays when the (only) operand naming it is given another register;
      '<slot name>'     the finding disappears when exactly that operand is given another register;
      None              not decidable on this instance (several operands name the register and none / several of them are
                        responsible, or the varied instance cannot be built or faults): nothing is reported from this instance."""
    here = [s for s in prep["slots"] if (s[1], s[2]) == (bank, r)]
    if not here:
        if isinstance(r, int) and 8 <= r <= 15 and any((s[1], s[2]) == (bank, r - 8) for s in prep["slots"]) and "rvc" in getattr(target, "name", "rvc"):
            # the 3-bit compressed register field stores num-8: an operand x0..x7 silently encodes x8..x15 (one root cause,
            # reported once per class, not once per register; C08 reports the same defect as riscv:rvc/creg3-field/accepts-x0-x7)
            return "creg3-field-wrap"
        return "implicit-" + prep["regname"](bank, r)
    responsible, undecided = [], 0
    for s in here:
        sib = sibling(target, inst, prep, s)
        if sib is None:
            undecided += 1
            continue
        try:
            prep2 = target.prepare(sib)
        except Unclassified:
            undecided += 1
            continue
        present = has_finding(ex.check_many([prep2])[0], kind, bank, r)
        if present is None:
            undecided += 1
        elif not present:
            responsible.append(s[0])
    responsible = sorted(set(responsible))
    if len(responsible) == 1 and not undecided:
        return responsible[0]
    if not responsible and not undecided and len(here) == 1:
        return "implicit-" + prep["regname"](bank, r)
    return None


def worker(p, shard, arch, exe, hello):
    import gc
    from vf.gen import insgen
    from vf.core import cpu_limit, CpuTimeout
    # a forked worker that lets the cyclic GC walk the inherited heap copies every page of it (copy on write); no reference
    # cycles are created here, so collection is switched off (for good in a pool process, for the call in the main process)
    import multiprocessing
    gc_was = gc.isenabled() and multiprocessing.current_process().name == "MainProcess"
    gc.disable()
    target = get_target(arch)
    if arch == "x86_64":
        target.hello = hello
    _ai, by_cid, _extras = arch_classes(arch)
    ex = target.executor(exe)

    def judge(idx, inst, prep, per):
        ok = 0
        for sno, o in enumerate(per):
            p.add(o["nruns"])
            if o["status"] != 0:
                p.count("base_state_faults_status%d" % o["status"])
                continue
            ok += 1
            p.outcome((arch, inst.cid, tuple(prep["ctors"]), bool(o["mem"]), tuple(sorted(o["chg"].items())), tuple(sorted(o["dep"].items()))))
            for kind, f in (("undeclared-write", "chg"), ("undeclared-read", "dep")):
                for bank in prep["banks"]:
                    for r in bits(o[f].get(bank, 0)):
                        p.count("raw_findings")
                        where = attribute(target, ex, inst, prep, kind, bank, r)
                        if where is None:
                            p.count("ambiguous")
                            continue
                        w = inst.witness()
                        w.update({"kind": kind, "bank": bank, "reg": r})
                        p.violation(make_key(arch, inst.cid, kind, where),
                                    describe(arch, inst.cid, prep, kind, "%s (%s)" % (prep["regname"](bank, r), kind), sno), w, order=idx)
        if ok:
            p.count("instances_checked")
            p.collect("classes_checked", arch + "/" + inst.cid)
            if idx % 1499 == 7:
                p.sample({"arch": arch, "class": inst.cid, "text": prep["text"], "bytes": prep["code"].hex(),
                          "declared_read": prep["used"], "declared_write": prep["defs"], "executions": sum(o["nruns"] for o in per)})
        else:
            p.count("instances_skipped_fault_in_every_base_state")

    batch = []

    def flush():
        if batch:
            res = ex.check_many([b[2] for b in batch])
            for (idx, inst, prep), per in zip(batch, res):
                judge(idx, inst, prep, per)
            del batch[:]

    try:
        for idx, cid, ops in shard:
            inst = insgen.Instance(by_cid[cid], ops)
            try:
                with cpu_limit(30):
                    prep = target.prepare(inst)
            except Unclassified as e:
                p.count("unclassified")
                p.collect("unclassified_reasons", str(e))
                continue
            except CpuTimeout:
                p.count("unclassified")
                p.collect("unclassified_reasons", "cpu timeout in prepare")
                continue
            batch.append((idx, inst, prep))
            if len(batch) >= 128:
                flush()
        flush()
    finally:
        ex.close()
        if gc_was:
            gc.enable()


def rederive(target, exe, inst):
    """All findings of ONE instance, from raw executions in a fresh executor (fresh harness process on x86_64)."""
    prep = target.prepare(inst)
    ex = target.executor(exe)
    try:
        found, _info = derive(prep, ex.raw, target.patterns)
    finally:
        ex.close()
    return prep, found


# ====================================================================== run / replay

def arch_list():
    if os.environ.get("C07_ARCHS"):          # development aid only
        return os.environ["C07_ARCHS"].split(",")
    archs = ["x86_64"]
    try:
        from vf.sem import rv32
        if hasattr(rv32, "Machine") and hasattr(rv32.Machine, "step") and hasattr(rv32, "decode"):
            archs += ["riscv", "riscv:rvc"]
    except Exception:  # noqa
        pass
    return archs


def harness_hello(exe):
    h = Harness(exe)
    hello = {"data_base": h.data_base, "data_size": h.data_size, "ins_addr": h.ins_addr, "seccomp": h.seccomp}
    h.close()
    return hello


def run(ctx):
    from vf.core import scratch, HarnessError
    from vf.gen import insgen
    thorough = ctx.tier == "thorough"
    archs = arch_list()
    ctx.note("targets", archs)
    if "riscv" not in archs:
        ctx.assumptions.append("riscv / riscv:rvc not checked in this run: vf/sem/rv32.py not available")
    unconfirmed = []
    with scratch(ID) as d:
        exe = build_harness(d)
        hello = harness_hello(exe)
        ctx.note("harness_seccomp_strict", bool(hello["seccomp"]))
        for arch in archs:
            target = get_target(arch)
            if arch == "x86_64":
                target.hello = hello
            ai, by_cid, extras = arch_classes(arch)
            classes = list(ai.classes) + [by_cid[c] for c in extras]
            if arch == "riscv:rvc":
                # classes shared with the base ISA are judged under "riscv"
                base_cls = {ci.cls for ci in insgen.get_arch_info("riscv").classes}
                ctx.note("classes_shared_with_riscv", len([ci for ci in classes if ci.cls in base_cls]))
                classes = [ci for ci in classes if ci.cls not in base_cls]
            inc, exc = target.class_filter(classes)
            ctx.note("excluded_classes_" + arch, ["%s: %s" % kv for kv in sorted(exc.items())])
            ctx.note("pseudo_classes_outside_isa_" + arch, extras)
            ctx.note("unbuildable_" + arch, [c for c in inc if by_cid[c].seeds()[0] is None])
            items = []
            for cid in inc:
                for ops in enum_instances(target, by_cid[cid], thorough):
                    items.append((len(items), cid, ops))
            ctx.note("instances_" + arch, len(items))
            ctx.note("classes_enumerated_" + arch, len(inc))
            ctx.pmap(worker, items, extra=(arch, exe, hello))
            checked = {c.split("/", 1)[1] for c in ctx.sets.get("classes_checked", ()) if c.startswith(arch + "/")}
            ctx.note("classes_never_executed_" + arch, [c for c in inc if c not in checked])
            # every reported finding is re-derived on its single witness instance from raw executions in a fresh executor
            for key in sorted(k for k in ctx.violations if k.startswith(arch + "/")):
                order, _what, w = ctx.violations[key]
                inst = instance_from_witness(w)
                prep, found = rederive(target, exe, inst)
                hit = [f for f in found if (f[0], f[1], f[2]) == (w["kind"], w["bank"], w["reg"])]
                if hit:
                    ctx.violations[key] = (order, describe(arch, inst.cid, prep, hit[0][0], hit[0][4], hit[0][3]), w)
                else:
                    del ctx.violations[key]
                    unconfirmed.append(key)
    ctx.note("n_confirmed_in_fresh_executor", len(ctx.violations))
    if unconfirmed:
        raise HarnessError("%d finding(s) of the fast path were not reproduced by the raw re-derivation: %s" % (len(unconfirmed), unconfirmed[:5]))


def replay(w):
    from vf.core import scratch
    from vf.gen import insgen
    arch = w["arch"]
    inst = instance_from_witness(w)
    target = get_target(arch)
    with scratch(ID + "r") as d:
        exe = None
        if arch == "x86_64":
            exe = build_harness(d)
            target.hello = harness_hello(exe)
        prep, found = rederive(target, exe, inst)
    hit = [f for f in found if (f[0], f[1], f[2]) == (w["kind"], w["bank"], w["reg"])]
    if hit:
        return True, describe(arch, inst.cid, prep, hit[0][0], hit[0][4], hit[0][3])
    return False, "%s %s '%s' (bytes %s): no %s of %s observed; declared reads %s, writes %s" % (
        arch, inst.cid, prep["text"], prep["code"].hex(), w["kind"], prep["regname"](w["bank"], w["reg"]), prep["used"], prep["defs"])
