"""C34 - the build runner executes every requested target and its transitive dependencies exactly once, dependencies first,
and reports a dependency loop exactly when the reachable part of the dependency graph has a cycle."""
import itertools

ID = "C34"
LEVEL = "model_checking"
RULE = ("explicit enumeration of initial configurations (dependency graph, requested list) and validation of the real TaskRunner's "
        "execution history against a reference model: every labelled dependency graph on n<=4 targets including self-dependencies "
        "(2^16 for n=4) x every non-empty requested subset (every order of the subset for n<=3, ascending and descending for n=4); "
        "n=5 without self-dependencies x all 31 subsets: quick = the 29281 acyclic graphs, thorough = all 2^20; n<=3 additionally "
        "through the XML recipe loader and ppci.api.construct; thorough re-runs the n<=4 space in sub-processes with "
        "PYTHONHASHSEED 1..3; every target carries one recording task registered with register_task; a state = one "
        "(graph, request) configuration, a transition = one task execution; distinct non-trivial = distinct verdicts "
        "(loop report / execution history of >= 2 targets, by target names)")
ASSUMPTIONS = [
    "reference model written in /verif: R = requested + transitive dependencies (bitmask closure); loop expected <=> the graph induced on R "
    "has a cycle (self-dependency included); otherwise the history must contain each member of R exactly once, every target after all its "
    "dependencies, and nothing else",
    "a TaskError from TaskRunner.run counts as the loop report (all requested targets exist, nothing else raises TaskError)",
    "whether anything may run before a loop is reported is not stated by the property: counted (n_loop_reported_after_partial_run), not judged",
    "target names are t0..t4; set iteration order of names is fixed by PYTHONHASHSEED=0 in the main run (all labellings are enumerated, "
    "which permutes the roles over that order); other hash seeds only in the thorough tier and only for n<=4",
    "while the runner executes, Python's recursion limit is lowered to 80 frames above the caller (a correct runner needs a few frames per "
    "target; a missed loop then fails after 80 frames instead of 1000, with the same RecursionError)",
    "VERIF_SEED is not used: both tiers explore their bound completely",
    "targets requested twice, unknown targets and task failures are outside the property; the default-target path (empty request) is explored for every graph with every single default target and with none",
]
CLAIM = {
    "text": "For every dependency graph and request inside the bound, the real TaskRunner ran exactly the requested targets and their "
            "transitive dependencies, once each, dependencies first, and raised a loop error exactly for cyclic reachable sub-graphs.",
    "note": "Trusted: the reference model in vf/checks/c34.py (closure + cycle test on bitmasks), the enumerator vf/gen/graphs.py.",
    "technique": "exhaustive configuration enumeration, execution histories vs reference model",
    "engine": "K2",
}

HISTORY = []
DEPTH = 80
_REGISTERED = []


def names(n):
    return ["t%d" % i for i in range(n)]


def register():
    """Register the recording task through the real registry (once per process)."""
    if _REGISTERED:
        return
    from ppci.build.tasks import Task, register_task, task_map

    class VfRecordTask(Task):
        def run(self):
            HISTORY.append((self.target.name, self.get_argument("who")))

    register_task(VfRecordTask)
    assert task_map.get("vfrecord") is VfRecordTask
    _REGISTERED.append(VfRecordTask)


def build_project(n, adj):
    from ppci.build.tasks import Project, Target
    nm = names(n)
    proj = Project("vf")
    proj.default = None
    for i in range(n):
        t = Target(nm[i], proj)
        for j in range(n):
            if adj[i] >> j & 1:
                t.add_dependency(nm[j])
        t.add_task(("vfrecord", {"who": nm[i]}))
        proj.add_target(t)
    return proj


def recipe_xml(n, adj):
    nm = names(n)
    out = ['<project name="vf" default="t0">']
    for i in range(n):
        deps = ",".join(nm[j] for j in range(n) if adj[i] >> j & 1)
        out.append('<target name="%s"%s><vfrecord who="%s"/></target>' % (nm[i], ' depends="%s"' % deps if deps else "", nm[i]))
    out.append("</project>")
    return "\n".join(out)


# ------------------------------------------------------------------------------------------------ reference model

def reference(n, adj, request):
    """(R mask, cyclic?)"""
    from vf.gen.graphs import closure
    start = 0
    for i in request:
        start |= 1 << i
    r = closure(adj, start)
    cyclic = False
    for i in range(n):
        if r >> i & 1 and closure(adj, adj[i]) >> i & 1:
            cyclic = True
            break
    return r, cyclic


def shape(n, adj, r):
    """Coarse feature of the sub-graph induced on R, used in violation keys."""
    from vf.gen.graphs import closure
    indeg = [0] * n
    for i in range(n):
        if r >> i & 1:
            for j in range(n):
                if adj[i] >> j & 1 and i != j:
                    indeg[j] += 1
    shared = any(d >= 2 for d in indeg)
    # two members of R with no dependency path between them
    unrelated = False
    for i in range(n):
        for j in range(i + 1, n):
            if r >> i & 1 and r >> j & 1:
                if not closure(adj, adj[i]) >> j & 1 and not closure(adj, adj[j]) >> i & 1:
                    unrelated = True
    return ("shared-dependency" if shared else "no-shared-dependency"), ("unrelated-targets" if unrelated else "total-order")


# ------------------------------------------------------------------------------------------------ one configuration

def fmt(n, adj, request):
    from vf.gen.graphs import edges
    return "deps{%s} request[%s]" % (",".join("t%d>t%d" % e for e in edges(n, adj)), ",".join("t%d" % i for i in request))


def execute(n, adj, request, via, project=None, runner=None):
    """Run the real runner; returns (kind, detail, history) with kind in ok / loop / exc."""
    from ppci.build.tasks import TaskRunner, TaskError
    import sys
    del HISTORY[:]
    nm = names(n)
    # A correct runner recurses at most a few frames per target (n <= 5).  Unbounded recursion (a missed loop) is cut off
    # at DEPTH extra frames instead of 1000: same RecursionError, but cheap enough to hit on a million configurations.
    old_limit = sys.getrecursionlimit()
    depth, fr = 0, sys._getframe()
    while fr is not None:
        depth, fr = depth + 1, fr.f_back
    sys.setrecursionlimit(depth + DEPTH)
    try:
        if via == "api":
            import io
            from ppci import api
            api.construct(io.StringIO(recipe_xml(n, adj)), [nm[i] for i in request])
        elif via == "default":
            # no target requested: the runner takes the project's default target (none: nothing runs)
            proj = build_project(n, adj)
            proj.default = nm[request[0]] if request else None
            TaskRunner().run(proj, [])
        else:
            (runner if runner is not None else TaskRunner()).run(project if project is not None else build_project(n, adj), [nm[i] for i in request])
    except TaskError as ex:
        return "loop", ex, list(HISTORY)
    except Exception as ex:  # noqa
        return "exc", ex, list(HISTORY)
    finally:
        sys.setrecursionlimit(old_limit)
    return "ok", None, list(HISTORY)


def check_config(p, n, adj, request, via="direct"):
    """Returns the number of task executions observed."""
    from vf.core import exc_key
    from vf.gen.graphs import rank
    p.add()
    r, cyclic = reference(n, adj, request)
    rc = 0
    for i in request:
        rc = rc * 5 + i
    order = (rank(n, adj) << 20) | (len(request) << 16) | (rc << 1) | (via == "api")
    wit = {"n": n, "adj": list(adj), "request": list(request), "via": via}
    desc = fmt(n, adj, request) + (" via ppci.api.construct" if via == "api" else " as the project's default target with an empty request" if via == "default" else "")
    kind, detail, hist = execute(n, adj, request, via)
    nm = names(n)
    ran = [a for a, _ in hist]
    if any(a != b for a, b in hist):
        p.violation("task/wrong-arguments", "%s: a task ran with the arguments of another target: %r" % (desc, hist), wit, order=order)
    if kind == "exc":
        prefix = "run" + ("/cyclic" if cyclic else "")
        # (a RecursionError has a 1000-frame traceback; walking it for every configuration would dominate the run)
        key = prefix + "/RecursionError" if isinstance(detail, RecursionError) else exc_key(prefix, detail)
        p.violation(key, "%s: TaskRunner.run raised %r (expected %s)" % (
            desc, detail, "a TaskError loop report" if cyclic else "execution of " + ",".join(nm[i] for i in range(n) if r >> i & 1)), wit, order=order)
        return len(hist)
    if cyclic:
        if kind != "loop":
            p.violation("loop/missed", "%s: the reachable dependency graph has a cycle but no loop was reported; ran %r" % (desc, ran), wit, order=order)
        else:
            p.outcome(("loop",))
            p.count("verdict_loop_reported_correctly")
            if hist:
                p.count("loop_reported_after_partial_run")
        return len(hist)
    sh = shape(n, adj, r)
    if kind == "loop":
        p.violation("loop/false-report/" + sh[0], "%s: no cycle is reachable from the request, but TaskError(%r) was raised" % (
            desc, getattr(detail, "msg", detail)), wit, order=order)
        return len(hist)
    expect = [nm[i] for i in range(n) if r >> i & 1]
    if sorted(ran) != sorted(expect):
        if len(set(ran)) != len(ran):
            key = "once/ran-twice"
        elif set(expect) - set(ran):
            key = "once/not-run"
        else:
            key = "once/ran-unrequested"
        p.violation(key, "%s: ran %r, expected each of %r exactly once" % (desc, ran, expect), wit, order=order)
        return len(hist)
    pos = {a: k for k, a in enumerate(ran)}
    for i in range(n):
        if r >> i & 1:
            for j in range(n):
                if adj[i] >> j & 1 and pos[nm[j]] > pos[nm[i]]:
                    p.violation("order/dependency-ran-later/" + sh[1], "%s: ran %r, but %s depends on %s" % (desc, ran, nm[i], nm[j]), wit, order=order)
                    return len(hist)
    p.count("verdict_history_correct")
    if len(ran) >= 2:
        p.outcome(("ok", tuple(ran)))
    return len(hist)


def outcome_of(res):
    kind, detail, hist = res
    return (kind, type(detail).__name__ if kind == "exc" else None, tuple(a for a, _ in hist))


def history_worker(p, shard, n):
    register()
    """K2 'start from non-initial states': two-step histories on ONE Project object -- run(request1) [which may end in a loop
    report], optionally add_dependency(i, j), then run(request2).  The second run on the re-used project must behave exactly
    like the same request on a freshly built project with the current graph (which the main family judges against the reference).
    Likewise one TaskRunner object used for two runs must behave like a fresh runner on the second."""
    from vf.gen.graphs import adj_from_code
    nm = names(n)
    subsets = [[i for i in range(n) if m >> i & 1] for m in range(1, 1 << n)]
    edits = [None] + [(i, j) for i in range(n) for j in range(n)]
    for code in shard:
        adj0 = list(adj_from_code(n, code, True))
        for r1 in subsets:
            for ed in edits:
                if ed is not None and adj0[ed[0]] >> ed[1] & 1:
                    continue  # edge already present: nothing new
                adj = list(adj0)
                if ed is not None:
                    adj[ed[0]] |= 1 << ed[1]
                for r2 in subsets:
                    proj = build_project(n, adj0)
                    first = execute(n, adj0, r1, "direct", project=proj)
                    if ed is not None:
                        proj.get_target(nm[ed[0]]).add_dependency(nm[ed[1]])
                    p.add()
                    p.count("history_runs")
                    got = outcome_of(execute(n, adj, r2, "direct", project=proj))
                    want = outcome_of(execute(n, adj, r2, "direct"))
                    if got != want:
                        wit = {"history": True, "n": n, "adj": list(adj0), "first": r1, "edit": list(ed) if ed else None, "request": r2}
                        p.violation("history/after-%s%s/differs-from-fresh-project" % (first[0], "+add_dependency" if ed else ""),
                                    "%s: after run(%s) -> %s%s, run(%s) on the same Project gives %r; a fresh project with the same graph gives %r" % (
                                        fmt(n, adj0, r1), ",".join(nm[i] for i in r1), first[0],
                                        (" and add_dependency(%s, %s)" % (nm[ed[0]], nm[ed[1]])) if ed else "",
                                        ",".join(nm[i] for i in r2), got, want), wit)
                    elif len(got[2]) >= 2:
                        p.outcome(("hist", got))
                    if ed is None:
                        # one TaskRunner object used for two runs (each on a fresh project): the second run must not see the first
                        from ppci.build.tasks import TaskRunner
                        runner = TaskRunner()
                        first_b = execute(n, adj0, r1, "direct", runner=runner)
                        p.add()
                        p.count("history_runs_same_runner")
                        got_b = outcome_of(execute(n, adj0, r2, "direct", runner=runner))
                        if got_b != want:
                            wit = {"history": True, "n": n, "adj": list(adj0), "first": r1, "edit": None, "request": r2, "same_runner": True}
                            p.violation("history/same-runner-after-%s/differs-from-fresh-runner" % first_b[0],
                                        "%s: after run(%s) -> %s, run(%s) with the same TaskRunner object (fresh project) gives %r; a fresh runner gives %r" % (
                                            fmt(n, adj0, r1), ",".join(nm[i] for i in r1), first_b[0], ",".join(nm[i] for i in r2), got_b, want), wit)


GRAPHS = {}


def requests(n, mode):
    """Requested lists: every non-empty subset; mode 'perm' = every order, 'updown' = ascending and descending, 'up' = ascending."""
    out = []
    for k in range(1, n + 1):
        for sub in itertools.combinations(range(n), k):
            if mode == "perm":
                out.extend(itertools.permutations(sub))
            elif mode == "updown" and k > 1:
                out.append(sub)
                out.append(sub[::-1])
            else:
                out.append(sub)
    return out


def mode_for(n):
    return "perm" if n <= 3 else ("updown" if n == 4 else "up")


def worker(p, shard, n, loops, nparts, only_dags, via):
    from vf.gen.graphs import all_codes, is_acyclic
    register()
    import logging
    logging.disable(logging.CRITICAL)  # the runner logs every step; nothing listens
    reqs = requests(n, mode_for(n))
    trans = 0
    for part in shard:
        for code, adj in all_codes(n, loops, part, nparts):
            if only_dags and not is_acyclic(n, adj):
                continue
            p.count("graphs_n%d%s" % (n, "_api" if via == "api" else ""))
            for rq in reqs:
                trans += check_config(p, n, adj, rq, via)
            if via == "direct":
                # the default-target path: run(project, []) with default = t_i must behave like the request [t_i]; without a default nothing runs
                for i in range(n):
                    trans += check_config(p, n, adj, (i,), "default")
                trans += check_config(p, n, adj, (), "default")
    p.count("task_executions", trans)


def run(ctx):
    import os
    import sys
    import json
    import subprocess
    from vf.core import HarnessError, REPO, VERIF
    ctx.sample({"deps": "t0>t1,t0>t2,t1>t2", "request": ["t0"], "reference": "no loop; history is t2,t1,t0"})
    ctx.sample({"deps": "t0>t1,t1>t0,t2", "request": ["t2"], "reference": "no loop (cycle not reachable from the request); history is t2"})
    ctx.sample({"deps": "t0>t1,t1>t1", "request": ["t0"], "reference": "loop (self-dependency of t1 is reachable)"})
    # hash-seed axis (thorough): the n<=4 space again under other string-hash seeds, one sub-process each, started first
    procs = []
    if not ctx.quick:
        for hs in (1, 2, 3):
            env = dict(os.environ, PYTHONHASHSEED=str(hs), VF_REPO=REPO)
            procs.append((hs, subprocess.Popen([sys.executable, "-m", "vf.checks.c34"], cwd=VERIF, env=env, stdout=subprocess.PIPE, text=True)))
    plan = [(1, True, 1, False, "direct"), (2, True, 1, False, "direct"), (3, True, 1, False, "direct"),
            (1, True, 1, False, "api"), (2, True, 1, False, "api"), (3, True, 1, False, "api"),
            (4, True, 61, False, "direct"),
            (5, False, 251, True, "direct") if ctx.quick else (5, False, 1021, False, "direct")]
    for n, loops, nparts, only_dags, via in plan:
        ctx.pmap(worker, list(range(nparts)), extra=(n, loops, nparts, only_dags, via))
    # histories on one Project object (non-initial states): all graphs with n <= 2 (quick: n = 3 graphs sliced by seed) 
    from vf.gen.graphs import ncodes
    for hn in (1, 2, 3):
        codes = list(range(ncodes(hn, True)))
        if hn == 3 and ctx.quick:
            codes = codes[ctx.seed % 8::8]
        ctx.pmap(history_worker, codes, extra=(hn,))
    ctx.note("history_family", "two-step histories run(r1) [+ add_dependency] ; run(r2) on one Project, n <= 3, compared with a fresh project")
    # enumerator self-check
    expect = {1: 2, 2: 16, 3: 512, 4: 65536, 5: 29281 if ctx.quick else 1 << 20}
    for n, e in expect.items():
        if ctx.counters.get("graphs_n%d" % n, 0) != e:
            raise HarnessError("enumerated %d graphs for n=%d, expected %d" % (ctx.counters.get("graphs_n%d" % n, 0), n, e))
    ctx.note("requests_per_graph", {n: len(requests(n, mode_for(n))) for n in (1, 2, 3, 4, 5)})
    ctx.note("hash_seed", os.environ.get("PYTHONHASHSEED", "random"))
    if procs:
        for hs, pr in procs:
            out, _ = pr.communicate()
            if pr.returncode != 0:
                raise HarnessError("hash-seed sub-process %d failed" % hs)
            rec = json.loads(out.strip().splitlines()[-1])
            ctx.add(rec["evaluations"])
            ctx.count("task_executions", rec["transitions"])
            ctx.count("configurations_hashseed_%d" % hs, rec["evaluations"])
            for key, (order, what, wit) in rec["violations"].items():
                wit["hashseed"] = hs
                ctx.violation(key, "%s [PYTHONHASHSEED=%d]" % (what, hs), wit, order=order * 4 + hs)
    ctx.states = ctx.evaluations
    ctx.transitions = ctx.counters.get("task_executions", 0)
    ctx.traces = ctx.evaluations


def sub_main():
    """Child of the thorough tier: n<=4 space, single process, this process' PYTHONHASHSEED; prints one JSON line."""
    import json
    from vf import core
    core.use_repo()
    p = core.Partial()
    for n, nparts in ((1, 1), (2, 1), (3, 1), (4, 1)):
        worker(p, [0], n, True, nparts, False, "direct")
    print(json.dumps({"evaluations": p.evaluations, "transitions": p.counters.get("task_executions", 0),
                      "violations": {k: [o, w, wit] for k, (o, w, wit) in p.violations.items()}}))


def replay_history(w):
    from vf.core import Partial
    from vf.gen.graphs import code_from_adj
    p = Partial()
    register()
    history_worker(p, [code_from_adj(w["n"], w["adj"], True)], w["n"])
    for k, v in p.violations.items():
        return True, v[1]
    return False, "re-used project behaves like a fresh one"


def replay(w):
    if w.get("history"):
        return replay_history(w)
    import os
    import sys
    import json
    import subprocess
    from vf.core import Partial, REPO, VERIF
    hs = w.get("hashseed")
    if hs is not None and os.environ.get("PYTHONHASHSEED") != str(hs):
        env = dict(os.environ, PYTHONHASHSEED=str(hs), VF_REPO=REPO)
        code = ("import sys, json; from vf import core; core.use_repo(); from vf.checks import c34; "
                "print(json.dumps(c34.replay(json.loads(sys.argv[1]))))")
        r = subprocess.run([sys.executable, "-c", code, json.dumps(w)], cwd=VERIF, env=env, capture_output=True, text=True)
        if r.returncode != 0:
            return False, "replay sub-process failed: " + r.stderr[-300:]
        v, d = json.loads(r.stdout.strip().splitlines()[-1])
        return v, d
    register()
    p = Partial()
    check_config(p, w["n"], tuple(w["adj"]), tuple(w["request"]), w.get("via", "direct"))
    if p.violations:
        k = sorted(p.violations)[0]
        return True, k + ": " + p.violations[k][1]
    return False, "history agrees with the reference on " + fmt(w["n"], tuple(w["adj"]), tuple(w["request"]))


if __name__ == "__main__":
    sub_main()
