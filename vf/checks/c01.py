"""C01 - C front end vs gcc: bounded-exhaustive families of C functions, Interp on ppci's IR vs gcc -fsanitize=undefined."""
import io

ID = "C01"
LEVEL = "exploration"
RULE = ("families E1 (every binary operator x every ordered pair of the 10 integer types), E2 (unary operators, every cast / assignment "
        "conversion pair), E3 (compound assignment for every operator and type pair, ++/--, ?:, comma), E4 (depth-2 expressions over a "
        "6-type alphabet, sliced by root operator), S (statement skeletons x body menu, C corpus), A (aggregates), F (floating point); "
        "each function is executed on the full product of V7 boundary values per parameter (cap 49); ppci: c_to_ir(x86_64) + reference "
        "IR interpreter; oracle: the same function compiled by gcc -O0 -fsanitize=undefined, calls with a UBSan report or signal discarded; "
        "distinct non-trivial = distinct (family feature, returned value) pairs")
ASSUMPTIONS = ["gcc 12.2 (-O0, -std=gnu11) on x86-64 SysV is the conforming compiler; implementation-defined choices follow it (arithmetic >> on signed, modulo narrowing)",
               "vf/sem/irinterp.py executes ppci's IR; it is cross-checked by C24 (ir2py) and by this very check",
               "calls with undefined behaviour (UBSan report, SIGFPE) are discarded, as are functions gcc rejects",
               "a CompilerError from ppci on a function gcc accepts is counted as 'rejected by ppci' (that is C28's business), not compared"]
CLAIM = {"technique": "bounded exhaustive enumeration of C functions x boundary argument vectors, executed on the real front end, against gcc+UBSan",
         "engine": "K1 input enumeration vs gcc"}


def families(tier, seed):
    from vf.gen import cgen
    out = []
    out += list(cgen.s_corpus())
    out += list(cgen.s_templates(depth2=(tier != "quick")))
    out += list(cgen.aggregates(extra=False))
    out += list(cgen.floats())
    out += list(cgen.e2())
    if tier == "quick":
        # E1/E3 complete over the type pairs for a seed-rotated half of the operators; all operators over the 6-type alphabet
        ops = cgen.BINOPS
        half = [ops[(i * 2 + seed) % len(ops)] for i in range(len(ops) // 2)]
        out += list(cgen.e1(ops=half))
        out += list(cgen.e1(types=cgen.SIX, ops=[o for o in ops if o not in half]))
        aops = cgen.ASSIGNOPS
        out += list(cgen.e3(types=cgen.SIX))
        root = ["+", "-", "*", "/", "%", "&", "|", "^", "<<", ">>", "<", "=="][seed % 12]
        out += list(cgen.e4([root], types=["signed char", "unsigned", "long"]))
        out += list(cgen.extended())
    else:
        out += list(cgen.e1())
        out += list(cgen.e3())
        roots = ["+", "-", "*", "/", "%", "&", "|", "^", "<<", ">>", "<", "=="]
        out += list(cgen.e4([roots[seed % 12], roots[(seed + 5) % 12]]))
        out += list(cgen.extended(maxlen={"struct": 3, "array": 4, "array-unsized": 3, "array-2d": 3, "array-of-struct": 3}))
    return out


def ppci_run(case, suffix, budget=30):
    """-> ('rejected', msg) | ('internal', exc) | {vi: ('ok', ret, mem, trace) | ('undef'|..., msg)}"""
    from ppci.api import get_arch
    from ppci.lang.c import c_to_ir, COptions
    from ppci.common import CompilerError
    from vf.sem.irinterp import Interp, Undefined, Horizon, Unsupported
    src = case["src"].replace("@", suffix)
    from vf.core import cpu_limit, CpuTimeout
    try:
        with cpu_limit(budget):
            m = c_to_ir(io.StringIO(src), get_arch("x86_64"), COptions())
    except CompilerError as e:
        return ("rejected", str(e)[:100])
    except CpuTimeout:
        if budget == 30:
            # a watchdog expiry must reproduce before it is believed (the CPU-time accounting of this VM has tripped a 10 s budget on a
            # one-line unit under heavy load): compile the unit again with a budget four times as large
            return ppci_run(case, suffix, budget=120)
        return ("internal", TimeoutError("front end did not finish within 120 CPU-seconds (second attempt; the first was stopped after 30)"))
    except Exception as e:  # noqa
        return ("internal", e)
    fname = case["fname"].replace("@", suffix)
    res = {}
    gl = [g.replace("@", suffix) for g in case.get("globals", [])]
    for vi, vec in enumerate(case["vectors"]):
        try:
            it = Interp(m, ptr_size=8, max_steps=20000 if not case.get("strict") else 60000)
            r = it.call(fname, vec)
            mem = {n: bytes(reg.data[:reg.size]).hex() for n, reg in it.globals if n in gl}
            trace = [t[1][0] for t in it.trace]
            res[vi] = ("ok", r, mem, trace)
        except Undefined as e:
            res[vi] = ("undef", str(e))
            if "read of uninitialised byte" in str(e) and case.get("strict"):
                # read-modify-write of a bit-field unit in fresh storage reads bytes whose value cannot matter: run again with the
                # uninitialised bytes reading as 0x00 and as 0xFF; only if both runs agree in every observation is that the result
                obs = []
                for fill in (0x00, 0xFF):
                    try:
                        it = Interp(m, ptr_size=8, max_steps=60000)
                        it.uninit_fill = fill
                        r = it.call(fname, vec)
                        obs.append((r, {n: bytes(reg.data[:reg.size]).hex() for n, reg in it.globals if n in gl}, [t[1][0] for t in it.trace]))
                    except (Undefined, Horizon, Unsupported, RecursionError):
                        obs = []
                        break
                if len(obs) == 2 and repr(obs[0]) == repr(obs[1]):
                    res[vi] = ("ok",) + obs[0]
        except Horizon as e:
            res[vi] = ("horizon", str(e))
        except Unsupported as e:
            res[vi] = ("unsupported", str(e))
        except RecursionError:
            res[vi] = ("horizon", "recursion")
    return res


def same(a, b):
    if isinstance(a, float) or isinstance(b, float):
        import struct
        if a is None or b is None:
            return False
        if a != a and b != b:
            return True
        return struct.pack("<d", float(a)) == struct.pack("<d", float(b))
    return a == b


def compare(p, case, k, gres, pres):
    feat = case["fam"] + "/" + case["feat"]
    wit = {"src": case["src"], "fname": case["fname"], "ret": case["ret"], "params": case["params"], "globals": case.get("globals", []), "restore": case.get("restore", []),
           "fam": case["fam"], "feat": case["feat"]}
    for opt in ("strict", "locus"):
        if case.get(opt):
            wit[opt] = case[opt]
    if gres is None:
        p.count("gcc_rejects")
        return
    if isinstance(pres, tuple):
        if pres[0] == "rejected":
            p.count("ppci_rejects")
            p.collect("ppci_rejects_features", feat.split("/")[0] + "/" + case["feat"].split("/")[0])
        else:
            p.count("ppci_internal_error")
        return
    for vi, g in sorted(gres.items()):
        p.add()
        if g[0] != "ok":
            p.count("discarded_ub")
            continue
        r = pres.get(vi)
        vec = case["vectors"][vi]
        w = dict(wit, vector=vec)
        if r is not None and r[0] == "unsupported" and "initializer larger than variable" in r[1]:
            p.violation(case["fam"] + "/" + generalise(case) + "/initial-image-larger-than-object",
                        "%s: the initial value ppci emits for a variable has more bytes than the variable (%s); gcc returns %r" % (feat, r[1], g[1]), w)
            continue
        if r is None or r[0] in ("horizon", "unsupported"):
            p.count("unclassified_" + (r[0] if r else "missing"))
            continue
        fkey = case["fam"] + "/" + generalise(case)
        if r[0] == "undef":
            p.violation(fkey + "/ir-undefined", "%s: gcc returns %r for %r but ppci's IR run is undefined: %s" % (feat, g[1], vec, r[1]), w)
            continue
        if not same(r[1], g[1]):
            p.violation(fkey + "/result", "%s: f%r = %r in ppci's IR, gcc gives %r" % (feat, tuple(vec), r[1], g[1]), w)
        elif r[2] != g[2]:
            p.violation(fkey + "/memory", "%s: f%r leaves globals %r, gcc %r" % (feat, tuple(vec), r[2], g[2]), w)
        elif list(r[3]) != list(g[3]):
            p.violation(fkey + "/calls", "%s: f%r calls ext with %r, gcc %r" % (feat, tuple(vec), r[3], g[3]), w)
        else:
            p.outcome((case["fam"], case["feat"].split("/")[0], repr(g[1])))


def generalise(case):
    """Locus feature: operator plus signedness/width class instead of the exact type pair."""
    from vf.oracles.gccrun import BITS, is_unsigned
    if case.get("locus"):
        return case["locus"]
    parts = case["feat"].split("/")
    if case["fam"] in ("E1", "E3", "E4") and len(parts) >= 3:
        def cls(t):
            if t not in BITS:
                return t
            return ("u" if is_unsigned(t) else "s") + ("<int" if BITS[t] < 32 else ("int" if BITS[t] == 32 else ">int"))
        return parts[0] + "/" + "/".join(cls(t) for t in parts[1:])
    return case["feat"]


def worker(p, shard):
    from vf.core import scratch
    from vf.oracles import gccrun
    import os
    cases = [c for _, c in shard]
    with scratch("C01") as d:
        gres = gccrun.run_cases_policy(cases, d, batch=120, tag="w%d_" % os.getpid())
    for k, case in enumerate(cases):
        pres = ppci_run(case, "_%d" % k)
        compare(p, case, k, gres[k], pres)


def run(ctx):
    cases = families(ctx.tier, ctx.seed)
    ctx.note("functions", len(cases))
    fam = {}
    for c in cases:
        fam[c["fam"]] = fam.get(c["fam"], 0) + 1
    ctx.note("families", fam)
    ctx.sample({"src": cases[0]["src"], "vectors": cases[0]["vectors"][:3]})
    ctx.sample({"src": cases[-1]["src"], "vectors": cases[-1]["vectors"][:3]})
    items = list(enumerate(cases))
    # contiguous shards keep gcc batches large
    ctx.pmap(worker, items, nshards=64, interleave=True)
    total = ctx.evaluations
    if total and ctx.counters.get("discarded_ub", 0) > 0.6 * total:
        from vf.core import HarnessError
        raise HarnessError("more than 60%% of the calls were discarded as UB (%d of %d)" % (ctx.counters["discarded_ub"], total))


def replay(w):
    from vf.core import Partial, scratch
    from vf.oracles import gccrun
    case = dict(w)
    case["vectors"] = [w["vector"]]
    p = Partial()
    with scratch("C01r") as d:
        gres = gccrun.run_cases_policy([case], d)
    compare(p, case, 0, gres[0], ppci_run(case, "_0"))
    if p.violations:
        k = sorted(p.violations)[0]
        return True, p.violations[k][1]
    return False, "ppci's IR agrees with gcc on this call (or the call is discarded as UB)"
