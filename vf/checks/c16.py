"""C16 - IR JSON serialisation round-trips: from_json(to_json(m)) is structurally identical to m (module families of C15)."""
from vf.checks import c15 as common

ID = "C16"
LEVEL = "exploration"
RULE = ("the module families of C15 (irgen_feat atoms - every instruction kind, operator, type, constant class, global/external/binding kind, "
        "volatile access, name and block-order shape - each alone and ALL unordered pairs of the 122-atom pair alphabet; thorough: ordered pairs + all "
        "triples of the 58-atom core + the seed-selected quarter of all triples of the pair alphabet; irgen L1-L5 and cast programs; C corpus unoptimised and optimised; extra C / Python / C3 / brainfuck sources); "
        "each well-formed module goes through ppci.irutils.to_json and from_json and is compared field by field; "
        "distinct non-trivial = distinct JSON texts that were judged")
ASSUMPTIONS = ["comparator written in /verif: externals with signatures; variables: name, binding, amount, alignment, initial value (adjacent byte parts merged); functions: kind, "
               "name, binding, return type, parameter types and names; blocks in order with names; instructions: class, value name, type, operands by position, operator, "
               "constant value and Python type (floats bit-exact), amount/alignment, volatile, phi inputs per block, jump targets",
               "vf/sem/irtools.canon of both modules must also be equal, the reconstructed module must satisfy irtools.wellformed, to_json(from_json(to_json(m))) must equal to_json(m), "
               "and vf/sem/irinterp observations on V7 vectors (<= 49 per function) must agree",
               "modules rejected by irtools.wellformed or by ppci.irutils.verify_module, and sources a front end cannot translate, are counted and not judged",
               "a rejection by to_json is attributed to the instruction DictWriter.write_instruction refuses; a rejection by from_json to the instruction dict being constructed (read from the traceback frame)"]
CLAIM = {"text": "Inside the stated bound every well-formed module is reconstructed identically from its JSON form (names, types, constants, initial values, volatility, bindings), or the failing feature is reported under its own key.",
         "note": "Trusted: the comparator walk, irtools.canon and the reference interpreter, all written in /verif.",
         "technique": "bounded-exhaustive feature/pair enumeration with field-by-field structural comparison", "engine": "K1"}


def _failing_json_instruction(ex):
    """(name of the subroutine, instruction dict) DictReader was constructing when it raised."""
    tb = ex.__traceback__
    ji = sub = None
    while tb is not None:
        co = tb.tb_frame.f_code.co_name
        if co == "construct_instruction":
            ji = tb.tb_frame.f_locals.get("json_instruction")
        elif co == "construct_subroutine":
            js = tb.tb_frame.f_locals.get("json_subroutine")
            if isinstance(js, dict):
                sub = js.get("name")
        tb = tb.tb_next
    return sub, ji


def _original_of(ir, x, m, sub, ji):
    """The instruction of the original module that was written as the dict `ji` (same subroutine, kind, name / operand names)."""
    if not isinstance(ji, dict):
        return None
    cands = []
    for f in m.functions:
        if sub is not None and f.name != sub:
            continue
        for b in f.blocks:
            for o in b.instructions:
                if type(o).__name__.lower() != ji.get("kind"):
                    continue
                if "name" in ji:
                    if getattr(o, "name", None) == ji["name"]:
                        cands.append(o)
                else:
                    refs = [ji[k] for k in ("address", "value", "a", "b", "result", "callee", "target") if k in ji]
                    have = [getattr(v, "name", None) for v in x.operands(o)] + [getattr(t, "name", None) for t in getattr(o, "targets", [])]
                    if all(r in have for r in refs):
                        cands.append(o)
    return cands[0] if cands else None


def _writer_culprit(ir, m):
    """First object that DictWriter refuses on its own."""
    from ppci.irutils import io as irio
    w = irio.DictWriter()
    for f in m.functions:
        for b in f.blocks:
            for ins in b.instructions:
                try:
                    w.write_instruction(ins)
                except Exception:  # noqa
                    return ins
    return None


def judge_json(p, ident, order):
    from ppci import ir
    from ppci.irutils import to_json, from_json
    from vf.core import cpu_limit, CpuTimeout
    m = common.prepare(p, ident)
    if m is None:
        return
    p.add()
    p.count("modules_" + ident["fam"])
    x = common.Index(ir, m)
    for o in common.all_objects(ir, m):
        p.collect("features", x.feature(o))
    wit = lambda key: {"ident": ident, "key": key}  # noqa
    what = common.describe(ident)
    try:
        j1 = to_json(m)
    except Exception as ex:  # noqa
        try:
            obj = _writer_culprit(ir, m)
        except Exception:  # noqa
            obj = None
        key = "json/writer-rejects/" + (x.feature(obj) if obj is not None else "unlocated")
        p.violation(key, "%s: to_json raised %s(%s)%s" % (what, type(ex).__name__, common._short(str(ex), 80), (" on instruction '%s'" % obj) if obj is not None else ""), wit(key), order=order)
        return
    try:
        with cpu_limit(20):
            m2 = from_json(j1)
    except CpuTimeout:
        key = "json/reader-hangs"
        p.violation(key, "%s: from_json did not finish in 20 CPU seconds" % what, wit(key), order=order)
        return
    except Exception as ex:  # noqa
        sub, ji = _failing_json_instruction(ex)
        try:
            obj = _original_of(ir, x, m, sub, ji)
        except Exception:  # noqa
            obj = None
        key = "json/reader-rejects/" + (x.feature(obj) if obj is not None else "unlocated")
        p.violation(key, "%s: from_json raised %s(%s)%s" % (what, type(ex).__name__, common._short(str(ex), 80), (" while constructing '%s'" % obj) if obj is not None else ""), wit(key), order=order)
        return
    try:
        j2 = to_json(m2)
    except Exception as ex:  # noqa
        j2 = "to_json raised %r" % ex
    ok = common.report_differences(p, "json", ident, order, ir, m, m2, j1, True)
    if ok:
        if j2 != j1:
            l1, l2 = j1.split("\n"), j2.split("\n")
            k = next((i for i, (a, b) in enumerate(zip(l1, l2)) if a != b), min(len(l1), len(l2)))
            key = "json/to_json-not-idempotent"
            p.violation(key, "%s: to_json(from_json(to_json(m))) differs from to_json(m) at line %d: %r -> %r" % (what, k + 1, l1[k:k + 1], l2[k:k + 1]), wit(key), order=order)
            return
        p.outcome(j1)
        if ident["fam"] != "feat" or len(ident["atoms"]) == 1:
            p.sample({"module": what, "json_bytes": len(j1), "round_trip": "field-by-field, canonical-form, idempotence and behavioural agreement"})


def run(ctx):
    common.run_common(ctx, judge_json)


def replay(w):
    return common.replay_common(w, judge_json)
