"""C19 - S-record writer vs a record checker/reader written from the Motorola specification and vs BFD."""
import io
import os
import re
import subprocess

ID = "C19"
LEVEL = "exploration"
RULE = ("every object whose `code` section has size in SIZES (empty, 1, around the 16-byte and the writer's 30-byte record length, "
        "around 64 KiB incl. the first sizes at which a record starts above 0xFFFF, 70000, 16 MiB + 16) x contents in {zeros, 0xFF, "
        "non-periodic counting pattern} at section address 0, plus the counting pattern at 7 (address, size) pairs with a non-zero "
        "section address; each object is written with write_srecord and the text is (a) checked record by record and decoded by a reader "
        "written from the Motorola S-record definition, (b) decoded by BFD (objdump -s -b srec; objdump -h + objcopy -O binary for the "
        "16 MiB objects); both must give exactly the code bytes at the section's addresses; distinct non-trivial = distinct "
        "(record prefixes used in the text, number of lines, verdict classes)")
ASSUMPTIONS = [
    "reference reader/checker written in /verif from the Motorola S-record definition (M68000 family programmer's reference, appendix C / "
    "unix srec(5)): 'S', type digit 0-9 except 4, count = address + data + checksum bytes, address width 2/3/4 by type, checksum = ones' "
    "complement of the byte sum, one termination record (S7/S8/S9) last, S0 = header, S5/S6 = record count",
    "second reader: GNU binutils 2.40 BFD srec backend (objdump, objcopy)",
    "the address of the code bytes is the `address` attribute of the object's code section (0 unless a layout placed it)",
    "a data record whose bytes run past the largest address its type can express is read linearly (as BFD does) and only counted",
    "a termination record type that does not pair with the data record type (S1/S9, S2/S8, S3/S7) is only counted: no standard reader cares",
]
CLAIM = {
    "text": "For the enumerated code sizes/contents/addresses the S-record text has well-formed records, keeps header text out of data "
            "records and decodes (two independent readers) to exactly the code bytes at their addresses.",
    "note": "trusted: the reader in vf/checks/c19.py and GNU BFD; sizes between the listed ones are not explored",
    "technique": "bounded input enumeration against two independent S-record readers",
    "engine": "K1",
}

SIZES = [0, 1, 15, 16, 17, 29, 30, 31, 32, 33, 59, 60, 61, 65535, 65536, 65537, 65550, 65551, 70000]
BIG = [0x1000010]
BIG_THOROUGH = [0xFFFFFF, 0x1000000, 0x1000001]
CONTENTS = ["zeros", "counting", "ff"]
ADDRESSED = [(0x100, 1), (0x100, 33), (0xFFF0, 16), (0xFFF0, 17), (0x10000, 1), (0x10000, 33), (0xFFFFFFF0, 16)]
ADDR_BYTES = {0: 2, 1: 2, 2: 3, 3: 4, 5: 2, 6: 3, 7: 4, 8: 3, 9: 2}
HEXPAIRS = re.compile(r"(?:[0-9A-Fa-f]{2})+\Z")


def content(name, n):
    if name == "zeros":
        return bytes(n)
    if name == "ff":
        return b"\xff" * n
    # counting with carries, byte i = (i + (i >> 8) + (i >> 16)) mod 256: no period of 2^k, so a block placed
    # 64 KiB or 16 MiB off is visible.  Built 256 bytes at a time (block k is the table rotated by k + (k >> 8)).
    table = bytes(range(256)) * 2
    blocks = []
    for k in range((n + 255) // 256):
        s = (k + (k >> 8)) & 0xFF
        blocks.append(table[s:s + 256])
    return b"".join(blocks)[:n]


def canon(pieces):
    """Sorted maximal runs [(address, bytes)] of an address->byte map given as pieces; None if pieces overlap."""
    out = []
    for a, d in sorted(pieces, key=lambda r: r[0]):
        if not d:
            continue
        if out:
            pa, pd = out[-1]
            if pa + len(pd) > a:
                return None
            if pa + len(pd) == a:
                pd.extend(d)
                continue
        out.append((a, bytearray(d)))
    return [(a, bytes(d)) for a, d in out]


def srec_read(text):
    """Returns (errors [(class, message)], records [(type, address, payload)], notes set)."""
    errors, records, notes = [], [], set()
    unparsed = 0
    lines = text.split("\n")
    if lines and lines[-1] == "":
        lines.pop()
    terminators = 0
    ndata = 0
    for no, line in enumerate(lines, 1):
        line = line.rstrip("\r")
        if terminators:
            errors.append(("structure/terminator-not-last", "line %d follows the termination record" % no))
            break
        if len(line) < 2 or line[0] != "S" or line[1] not in "012356789":
            errors.append(("record/type", "line %d %r does not start with S0-S3/S5-S9" % (no, line[:12])))
            unparsed += 1
            continue
        typ = int(line[1])
        body = line[2:]
        if not HEXPAIRS.match(body):
            errors.append(("record/not-hex-pairs", "line %d is not a sequence of hex digit pairs" % no))
            unparsed += 1
            continue
        b = bytes.fromhex(body)
        asz = ADDR_BYTES[typ]
        if b[0] != len(b) - 1:
            errors.append(("record/count", "line %d: count byte %d but %d bytes follow it" % (no, b[0], len(b) - 1)))
            unparsed += 1
            continue
        if b[0] < asz + 1:
            errors.append(("record/count", "line %d: count %d too small for an S%d record" % (no, b[0], typ)))
            unparsed += 1
            continue
        if (sum(b) & 0xFF) != 0xFF:
            errors.append(("record/checksum", "line %d: checksum %02X, expected %02X" % (no, b[-1], (~sum(b[:-1])) & 0xFF)))
        addr = int.from_bytes(b[1:1 + asz], "big")
        payload = b[1 + asz:-1]
        records.append((typ, addr, payload))
        if typ in (1, 2, 3):
            ndata += 1
            if addr + len(payload) > (1 << (8 * asz)):
                notes.add("data_record_runs_past_address_width")
        elif typ in (7, 8, 9):
            terminators += 1
            if payload:
                errors.append(("record/terminator-has-data", "line %d: termination record carries data" % no))
        elif typ in (5, 6):
            if payload:
                errors.append(("record/count-record-has-data", "line %d: S%d record carries data" % (no, typ)))
            elif addr != ndata:
                errors.append(("structure/count-record", "line %d: S%d says %d data records, %d were written" % (no, typ, addr, ndata)))
        elif typ == 0 and addr != 0:
            notes.add("s0_address_nonzero")
    if terminators != 1 and not unparsed:
        errors.append(("structure/terminator-missing", "no termination record (S7/S8/S9)"))
    if unparsed:
        notes.add("unparsed_records")
    return errors, records, notes


def locate(data, code, base, has_s0):
    """Name the defect(s) of a wrong image record by record, reading the data records as a sequential stream.
    Only used to choose the locus key once the decoded memory is known to be wrong."""
    found = {}
    pos = 0
    for idx, (t, a, pl) in enumerate(data):
        n = len(pl)
        off = a - base
        if 0 <= off and off + n <= len(code) and code[off:off + n] == pl and off == pos:
            pos += n
            continue
        if n and code[pos:pos + n] == pl:
            want = base + pos
            asz = ADDR_BYTES[t]
            if a == want % (1 << (8 * asz)) and want >= (1 << (8 * asz)):
                found.setdefault("address-truncated", "S%d record %d carries address %#x for code offset %#x (address %#x needs more than %d address bytes)" % (
                    t, idx, a, pos, want, asz))
            elif base and a == pos:
                found.setdefault("section-address-ignored", "S%d record %d puts code offset %#x at address %#x; the code section is at %#x" % (t, idx, pos, a, base))
            else:
                found.setdefault("wrong-address", "S%d record %d puts code offset %#x at address %#x, expected %#x" % (t, idx, pos, a, want))
            pos += n
            continue
        if idx == 0 and not has_s0:
            found.setdefault("header-in-data-record", "first record is a data record S%d at %#x with %r, which is not code, and there is no S0 record" % (t, a, pl[:16]))
        else:
            found.setdefault("foreign-data", "S%d record %d at %#x carries %d bytes that are not the code at that place" % (t, idx, a, n))
    return found


def judge(text, code, base):
    """-> (classes {class: message}, notes, shape).  Empty classes = the text is a correct S-record image of `code` at `base`."""
    errors, records, notes = srec_read(text)
    classes = {}
    for cls, msg in errors:
        classes.setdefault(cls, msg)
    data = [(t, a, pl) for t, a, pl in records if t in (1, 2, 3)]
    has_s0 = any(t == 0 for t, a, pl in records)
    dtypes = sorted({t for t, a, pl in data})
    terms = [t for t, a, pl in records if t in (7, 8, 9)]
    if dtypes and terms and any(terms[0] != {1: 9, 2: 8, 3: 7}[t] for t in dtypes):
        notes.add("terminator_type_does_not_pair_with_data_type")
    # verdict: the decoded memory as a whole
    mem = canon([(a, pl) for t, a, pl in data])
    want = [(base, bytes(code))] if code else []
    if mem != want and "unparsed_records" not in notes:  # unreadable records are reported as such, not as lost data
        found = locate(data, code, base, has_s0)
        if not found:
            if mem is None:
                found["overlapping-records"] = "two data records define the same address"
            else:
                got = sum(len(d) for a, d in mem)
                found["lost-data" if got < len(code) else "wrong-data"] = "data records decode to %s, expected %d bytes at %#x" % (
                    [(hex(a), len(d)) for a, d in mem][:4], len(code), base)
        for k, v in found.items():
            classes.setdefault(k, v)
    # shape of the text itself (independent of whether the records parse): record prefixes used, number of lines
    lines = text.split("\n")
    nl = len(lines) - 1
    shape = (tuple(sorted({ln[:2] for ln in lines if ln})), nl if nl < 3000 else nl // 1000 * 1000)
    return classes, notes, shape, mem == want


# ---------------------------------------------------------------- BFD

def parse_objdump_s(out):
    pieces = []
    seen = False
    for line in out.split("\n"):
        if "file format srec" in line:
            seen = True
        elif line.startswith(" ") and len(line) > 2 and line[1] != " ":
            sp = line.index(" ", 1)
            pieces.append((int(line[1:sp], 16), bytes.fromhex(line[sp + 1:sp + 36].replace(" ", ""))))
    return seen, pieces


def bfd_decode(path, big, d):
    """-> (ok, memory as canonical runs or None if sections overlap, message)."""
    if not big:
        r = subprocess.run(["objdump", "-s", "-b", "srec", path], capture_output=True, text=True)
        seen, pieces = parse_objdump_s(r.stdout)
        if r.returncode != 0 or not seen:
            return False, None, (r.stderr.strip().split("\n") or ["?"])[0][-200:]
        return True, canon(pieces), ""
    r = subprocess.run(["objdump", "-h", "-b", "srec", path], capture_output=True, text=True)
    if r.returncode != 0:
        return False, None, (r.stderr.strip().split("\n") or ["?"])[0][-200:]
    secs = []
    for line in r.stdout.split("\n"):
        f = line.split()
        if len(f) >= 7 and f[0].isdigit() and f[1].startswith(".sec"):
            secs.append((int(f[3], 16), int(f[2], 16)))
    if len(secs) != 1:
        return True, None, "%d sections" % len(secs)
    binf = os.path.join(d, "out.bin")
    r = subprocess.run(["objcopy", "-I", "srec", "-O", "binary", path, binf], capture_output=True, text=True)
    if r.returncode != 0:
        return False, None, (r.stderr.strip().split("\n") or ["?"])[0][-200:]
    with open(binf, "rb") as fh:
        blob = fh.read()
    os.unlink(binf)
    return True, [(secs[0][0], blob)], ""


# ---------------------------------------------------------------- one case

def case_name(case):
    size, cname, base = case
    return "code section of %d bytes (%s) at address %#x" % (size, cname, base)


def check_case(p, case, d):
    from ppci.binutils.objectfile import ObjectFile
    from ppci.arch.m68k.arch import M68kArch
    from ppci.format.srecord import write_srecord
    from vf.core import exc_key
    size, cname, base = case
    wit = {"size": size, "content": cname, "base": base}
    code = content(cname, size)
    obj = ObjectFile(M68kArch())
    sec = obj.get_section("code", create=True)
    sec.add_data(code)
    sec.address = base
    p.add()
    f = io.StringIO()
    try:
        write_srecord(obj, f)
    except Exception as ex:  # noqa
        _viol(p, exc_key("write_srecord/raises", ex), "write_srecord raised %r for a %s" % (ex, case_name(case)), wit)
        return
    text = f.getvalue()
    classes, notes, shape, mem_ok = judge(text, code, base)
    for n in sorted(notes):
        p.count(n)
    for cls in sorted(classes):
        _viol(p, "write_srecord/" + cls, "%s: %s" % (case_name(case), classes[cls]), wit)
    p.outcome((shape, tuple(sorted(classes))))
    if size in (17, 65551) and cname == "counting" and base == 0:
        lines = text.split("\n")
        p.sample({"size": size, "content": cname, "section_address": base, "text_head": lines[:2], "text_tail": lines[-3:-1],
                  "records": len(lines) - 1, "verdict": sorted(classes) or "correct image"})
    # BFD
    p.add()
    path = os.path.join(d, "c%d_%s_%x.srec" % (size, cname, base))
    with open(path, "w") as fh:
        fh.write(text)
    ok, mem, msg = bfd_decode(path, size > 0x100000, d)
    os.unlink(path)
    want = [(base, bytes(code))] if code else []
    if not ok:
        if any(c.startswith("record/") for c in classes):
            p.count("bfd_rejects_what_the_record_checker_rejects")
        else:
            _viol(p, "bfd/rejects", "BFD rejects the S-record text of a %s: %s" % (case_name(case), msg), wit)
    elif mem != want:
        if classes:
            p.count("bfd_confirms_wrong_decode")
        else:
            _viol(p, "bfd/decode-differs", "BFD decodes the text of a %s to %s (%s)" % (
                case_name(case), "overlapping sections" if mem is None else [(hex(a), len(x)) for a, x in mem][:4], msg), wit)
    else:
        p.count("bfd_decodes_to_code")
        if not mem_ok:
            p.count("bfd_accepts_what_the_reference_reader_flags")


_ORDER = [None]


def _viol(p, key, what, wit):
    p.violation(key, what, wit, order=_ORDER[0])


def worker(p, shard):
    from vf.core import scratch, cpu_limit, CpuTimeout
    with scratch(ID) as d:
        for rank, case in shard:
            _ORDER[0] = rank  # global simplest-first rank: the kept witness is the minimal one whatever the sharding
            try:
                with cpu_limit(600):
                    check_case(p, case, d)
            except CpuTimeout:
                _viol(p, "hang", "more than 600 s of CPU for a %s" % case_name(case), {"size": case[0], "content": case[1], "base": case[2]})


def cases(tier):
    out = [(s, c, 0) for s in SIZES for c in CONTENTS]
    out += [(s, "counting", a) for a, s in ADDRESSED]
    out += [(s, c, 0) for s in BIG for c in CONTENTS]
    if tier == "thorough":
        out += [(s, "counting", 0) for s in BIG_THOROUGH]
    # simplest first for witnesses, but start the big ones early so that shards balance
    return out


def run(ctx):
    import ppci.binutils.objectfile, ppci.arch.m68k.arch, ppci.format.srecord  # noqa: import before forking
    cs = cases(ctx.tier)
    ctx.note("cases", len(cs))
    ctx.note("sizes", SIZES + BIG + (BIG_THOROUGH if ctx.tier == "thorough" else []))
    ctx.note("addressed_cases", [[hex(a), s] for a, s in ADDRESSED])
    big = [c for c in cs if c[0] > 0x100000]
    small = [c for c in cs if c[0] <= 0x100000]
    # order key for violations = index in the simplest-first list
    order = {c: i for i, c in enumerate(small + big)}
    ctx.pmap(worker, [(order[c], c) for c in big + small], nshards=min(len(cs), 32))


def replay(w):
    from vf.core import Partial
    p = Partial()
    worker(p, [(0, (w["size"], w["content"], w["base"]))])
    if p.violations:
        k = sorted(p.violations)[0]
        return True, "; ".join("%s: %s" % (k, p.violations[k][1]) for k in sorted(p.violations))[:600]
    return False, "text is a correct S-record image of the code"
