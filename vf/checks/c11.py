"""C11 - linked references resolve exactly to their symbols (relocation exactness for in-range distances)."""
import os
import re
import subprocess

ID = "C11"
LEVEL = "exploration"
RULE = ("every relocation type of riscv, riscv:rvc, arm, arm:thumb, x86_64, avr, msp430, m68k, mips that an instruction of the ISA tables emits "
        "(hi/lo types as adjacent pairs: lui+addi, auipc+addi/lw, ldi lo+hi), plus the data relocations absaddr16/32/64 on little- and big-endian targets: "
        "the emitting unit at section offset s in `code`; the symbol placed by one of 14 link topologies (same section local/global, other section "
        "local/global in its own memory, sections sharing one memory in both orders, symbol in a second object before/after, symbol in the other "
        "object's code, DEFINESYMBOL in its own memory / after / before the code, extra_symbols, decoy local of the same name) so that the field value "
        "sweeps the lattice {0,+-step..+-3 step,+-2^k,+-(2^k+-step),min,min+step,max-step,max} strictly inside the representable range of the type "
        "(ranges written down from the ISA manuals in this file), addend offsets {0,+-1,+-4}; and the two clearly unrepresentable values 2*min, 2*(max+step). "
        "A case is one (unit, topology, s, field value, addend); distinct non-trivial = distinct (arch, relocation, topology, verdict, sign and size class of the distance, low bits)")
ASSUMPTIONS = [
    "reference address computation (ref_link, 25 lines): leaves are concatenated per section name at multiples of their alignment, a memory places its inputs "
    "sequentially (output section alignment = max(4, leaves)), symbol address = section address + leaf offset + symbol offset; a link whose section addresses "
    "differ from this reference is counted as unclassified (placement is C12's subject), never reported here",
    "the relocated field is read by llvm-mc 14 --disassemble (riscv32 +c, armv7a, thumbv7m, x86_64, msp430, m68k, mipsel, avr for ldi); branch targets are "
    "printed operand + the ISA's pc bias (written down per type in this file and validated at start-up against llvm-mc's own assembler resolving a label); "
    "avr rjmp/brne (llvm-mc prints <unknown>) and the m68k 68020 long branch (not decoded by LLVM 14) are read by a field extractor written from the ISA manual",
    "data words (absaddr16/32/64 = dw/dcd/dq label references) are read directly from the linked bytes as little-endian words: the relocation types are "
    "defined over little-endian tokens and ppci's code generator refuses to use them on big-endian targets (KeyError in generate_global), so the "
    "little-endian word that `dcd =label` produces on m68k/or1k/microblaze is read according to its type and not counted here",
    "any exception from link() counts as refusal; refusing a representable value is counted (note rejected_in_range), not reported",
    "values between the representable range and twice the range are not explored (C10 reports wrapping at the range boundary under keys reloc/<Class>/wraps)",
    "relaxable relocations (rvc cb_imm11 / cbl_imm11) are explored only in topologies where shrinking the instruction cannot move the symbol or the site",
    "register operands of hi/lo pairs are not checked for consistency (only the composed immediate); or1k, xtensa, microblaze, mcs6500 instruction relocations "
    "are not covered (no reference decoder), their data relocations are",
]
CLAIM = {
    "text": "For every covered relocation type and every enumerated placement, a successful link leaves at the relocation site a field that an independent "
            "decoder reads as exactly address(symbol)+addend (absolute) or that minus the ISA's pc anchor (relative); values at twice the range are refused.",
    "note": "Trusted: llvm-mc 14 as decoder, the range/bias table and the 25-line placement reference in this file.",
    "technique": "bounded exhaustive distance-lattice x link-topology enumeration with independent read-back",
    "engine": "K1",
}

SYM = "tgt"
LLVM = {
    "arm": ["-triple=armv7a"],
    "thumb": ["-triple=thumbv7m"],
    "riscv": ["-triple=riscv32", "-mattr=+c,+m,+f", "-M", "no-aliases"],
    "x86_64": ["-triple=x86_64"],
    "msp430": ["-triple=msp430"],
    "avr": ["-triple=avr", "-mcpu=atmega328p"],
    "m68k": ["-triple=m68k"],
    "mips": ["-triple=mipsel"],
}
SENTINEL = {
    "armv7a": bytes.fromhex("f000f0e7"), "thumbv7m": bytes.fromhex("fede"), "riscv32": bytes.fromhex("73005010"),
    "x86_64": bytes.fromhex("0f0b"), "msp430": bytes.fromhex("0013"), "avr": bytes.fromhex("8895"),
    "m68k": bytes.fromhex("4e71"), "mipsel": bytes.fromhex("0c000000"),
}
ADDR_BITS = {"x86_64": 64, "avr": 16, "msp430": 16}
ARCHS = ("riscv", "riscv:rvc", "arm", "arm:thumb", "x86_64", "avr", "msp430", "m68k", "mips")
DATA_ONLY_ARCHS = ("or1k", "microblaze", "xtensa", "mcs6500")


def family(arch_name):
    if arch_name == "arm:thumb":
        return "thumb"
    return arch_name.split(":")[0]


# ------------------------------------------------------------------ reference decoder

_COMMENT = re.compile(r"\s+[#@;]\s+(imm = |encoding:|fixup |<MCOperand).*$")
_WARN = re.compile(r":(\d+):\d+: (warning|error)")
_SENT_TEXT = {}


def _mc_lines(out):
    res = []
    for line in out.splitlines():
        if not line.startswith("\t") or line.startswith("\t."):
            continue
        res.append(_COMMENT.sub("", line).strip().replace("\t", " "))
    return res


def _blockline(b):
    return "[" + " ".join("0x%02x" % x for x in b) + "]\n"


def llvm_disasm(flags, blobs):
    """[text of the first instruction | None] per blob; every blob is followed by a sentinel instruction so that output is attributed exactly."""
    from vf.core import HarnessError
    if not blobs:
        return []
    triple = [f for f in flags if f.startswith("-triple=")][0][8:]
    sent = SENTINEL[triple]
    base = ["llvm-mc", "--disassemble"] + flags
    if triple not in _SENT_TEXT:
        r = subprocess.run(base, input=_blockline(sent), capture_output=True, text=True)
        ls = _mc_lines(r.stdout)
        if len(ls) != 1:
            raise HarnessError("sentinel does not decode for %s: %r %s" % (triple, ls, r.stderr[-200:]))
        _SENT_TEXT[triple] = ls[0]
    stext = _SENT_TEXT[triple]
    res = [None] * len(blobs)
    live = [i for i in range(len(blobs)) if blobs[i]]
    for _ in range(50):
        if not live:
            return res
        text = "".join(_blockline(blobs[i]) + _blockline(sent) for i in live)
        r = subprocess.run(base, input=text, capture_output=True, text=True)
        bad = set((int(m.group(1)) - 1) // 2 for m in _WARN.finditer(r.stderr))
        chunks, cur = [], []
        for t in _mc_lines(r.stdout):
            if t == stext:
                chunks.append(cur)
                cur = []
            else:
                cur.append(t)
        if r.returncode < 0 or "Stack dump" in r.stderr:
            culprit = len(chunks)
            if culprit >= len(live):
                raise HarnessError("llvm-mc failed without a culprit: %s" % r.stderr[-300:])
            live = [i for k, i in enumerate(live) if k != culprit]
            continue
        if len(chunks) != len(live) or cur:
            raise HarnessError("llvm-mc output out of step with its input (%r): %d chunks for %d blobs" % (flags, len(chunks), len(live)))
        for k, i in enumerate(live):
            if chunks[k] and not (k in bad and len(chunks[k]) == 0):
                res[i] = chunks[k][0]
        return res
    return res


# ------------------------------------------------------------------ what each relocation type means (from the ISA manuals, not from ppci)

def _i(s):
    return int(s, 0)


def rd_rel(mnem, bias):
    """Branch-like text whose last operand is the displacement; target = instruction address + bias + displacement."""
    rx = re.compile(r"^(?:%s)\b[^#$\n]*?[#$]?(-?(?:0x[0-9a-fA-F]+|\d+))$" % mnem)

    def read(texts, addrs, blobs, lens):
        m = rx.match(texts[0] or "")
        if not m:
            return None
        b = lens[0] if bias == "end" else bias
        return addrs[0] + b + _i(m.group(1))
    return read


def rd_arm_ldr(texts, addrs, blobs, lens):
    m = re.match(r"^ldr\w* r\d+, \[pc(?:, #(-?\d+))?\]$", texts[0] or "")
    return None if not m else addrs[0] + 8 + int(m.group(1) or 0)


def rd_arm_adr(texts, addrs, blobs, lens):
    m = re.match(r"^(add|sub|adr)\w* r\d+, (?:pc, )?#(-?\d+)$", texts[0] or "")
    if not m:
        return None
    v = int(m.group(2))
    return addrs[0] + 8 + (-v if m.group(1) == "sub" else v)


def rd_thumb_lit(texts, addrs, blobs, lens):
    m = re.match(r"^ldr\w* r\d+, \[pc(?:, #(-?\d+))?\]$", texts[0] or "")
    return None if not m else ((addrs[0] + 4) & ~3) + int(m.group(1) or 0)


def rd_rv_abs_hilo(texts, addrs, blobs, lens):
    h = re.match(r"^lui \w+, (\d+)$", texts[0] or "")
    lo = re.match(r"^(?:addi \w+, \w+, (-?\d+)|l\w+ \w+, (-?\d+)\(\w+\)|s\w+ \w+, (-?\d+)\(\w+\))$", texts[1] or "")
    if not h or not lo:
        return None
    return ((int(h.group(1)) << 12) + int([g for g in lo.groups() if g is not None][0])) & 0xFFFFFFFF


def rd_rv_pc_hilo(texts, addrs, blobs, lens):
    h = re.match(r"^auipc \w+, (\d+)$", texts[0] or "")
    lo = re.match(r"^(?:addi \w+, \w+, (-?\d+)|l\w+ \w+, (-?\d+)\(\w+\))$", texts[1] or "")
    if not h or not lo:
        return None
    return (addrs[0] + (int(h.group(1)) << 12) + int([g for g in lo.groups() if g is not None][0])) & 0xFFFFFFFF


def rd_x86_mem(texts, addrs, blobs, lens):
    m = re.match(r"^\w+ (-?\d+)$", texts[0] or "")
    return None if not m else int(m.group(1))


def rd_x86_movabs(texts, addrs, blobs, lens):
    m = re.match(r"^movabsq \$(-?\d+), %\w+$", texts[0] or "")
    return None if not m else int(m.group(1)) & (2 ** 64 - 1)


def rd_avr_rjmp(texts, addrs, blobs, lens):
    """AVR manual: RJMP 1100 kkkk kkkk kkkk, PC <- PC + k + 1 (words)."""
    if not re.match(r"^r(jmp|call)\b", texts[0] or ""):
        return None
    w = int.from_bytes(blobs[0][:2], "little")
    k = w & 0xFFF
    if k >= 0x800:
        k -= 0x1000
    return addrs[0] + 2 + 2 * k


def rd_avr_br(texts, addrs, blobs, lens):
    """AVR manual: BRxx 1111 0?kk kkkk ksss, PC <- PC + k + 1 (words)."""
    if not re.match(r"^br\w+\b", texts[0] or ""):
        return None
    w = int.from_bytes(blobs[0][:2], "little")
    k = (w >> 3) & 0x7F
    if k >= 0x40:
        k -= 0x80
    return addrs[0] + 2 + 2 * k


def rd_avr_ldi_pair(texts, addrs, blobs, lens):
    a = re.match(r"^ldi r\d+, (\d+)$", texts[0] or "")
    b = re.match(r"^ldi r\d+, (\d+)$", texts[1] or "")
    if not a or not b:
        return None
    return (int(b.group(1)) << 8) | int(a.group(1))       # unit order: low, high


def rd_msp_jmp(texts, addrs, blobs, lens):
    m = re.match(r"^j\w+ \$([+-]\d+)$", texts[0] or "")
    return None if not m else addrs[0] + int(m.group(1))


def rd_msp_abs(texts, addrs, blobs, lens):
    m = re.match(r"^[\w.]+ &(-?\d+)$", texts[0] or "")
    return None if not m else int(m.group(1)) & 0xFFFF


def rd_m68k_long_branch(texts, addrs, blobs, lens):
    """M68000 PRM: Bcc 0110 cccc dddddddd; displacement byte 0xFF -> 32-bit displacement follows; target = (address of instruction + 2) + d."""
    b = blobs[0]
    if len(b) < 6 or (b[0] >> 4) != 6 or b[1] != 0xFF:
        return None
    return addrs[0] + 2 + int.from_bytes(b[2:6], "big", signed=True)


def rd_m68k_pcrel16(texts, addrs, blobs, lens):
    m = re.match(r"^[\w.]+ \((-?\d+),%pc\), %\w+$", texts[0] or "")
    if not m:
        return None
    d = int(m.group(1)) & 0xFFFF
    if d >= 0x8000:
        d -= 0x10000
    return addrs[0] + 2 + d


def rd_mips_j(texts, addrs, blobs, lens):
    m = re.match(r"^j(al)? (\d+)$", texts[0] or "")
    return None if not m else ((addrs[0] + 4) & 0xF0000000) | int(m.group(2))


def arm_modimm(v):
    """ARM ARM A5.2.4: an 8-bit value rotated right by an even amount."""
    v &= 0xFFFFFFFF
    for r in range(0, 32, 2):
        if ((v << r) | (v >> (32 - r))) & 0xFFFFFFFF < 256:
            return True
    return False


class Spec:
    """kind 'pc': field value x = want - anchor(site);  'abs': x = want.  [lo, hi] step: representable x.  oor: test 2x the range."""

    def __init__(self, kind, lo, hi, step, reader, anchor=0, decode=True, oor=True, rep=None, relax=False, site_steps=(0, 4), branch=False, rep_site=None):
        self.kind, self.lo, self.hi, self.step, self.reader = kind, lo, hi, step, reader
        self.anchor, self.decode, self.oor, self.rep, self.relax, self.site_steps, self.branch = anchor, decode, oor, rep, relax, site_steps, branch
        self.rep_site = rep_site

    def anchor_of(self, site, ulen):
        if self.anchor == "end":
            return site + ulen
        if self.anchor == "align4+4":
            return (site + 4) & ~3
        return site + self.anchor

    def representable(self, x, site=None):
        if x < self.lo or x > self.hi or x % self.step:
            return False
        if self.rep_site and site is not None and not self.rep_site(x, site):
            return False
        return self.rep(x) if self.rep else True


RV_BR = r"b\w+|jal|c\.jal|c\.j|c\.beqz|c\.bnez"
SPECS = {
    "riscv": {
        ("b_imm12",): Spec("pc", -4096, 4094, 2, rd_rel(RV_BR, 0), branch=True),
        ("b_imm20",): Spec("pc", -2 ** 20, 2 ** 20 - 2, 2, rd_rel(RV_BR, 0), branch=True),
        ("cb_imm11",): Spec("pc", -2 ** 20, 2 ** 20 - 2, 2, rd_rel(RV_BR, 0), relax=True, site_steps=(0, 4, 2)),
        ("cbl_imm11",): Spec("pc", -2 ** 20, 2 ** 20 - 2, 2, rd_rel(RV_BR, 0), relax=True, site_steps=(0, 4, 2)),
        ("bc_imm11",): Spec("pc", -2048, 2046, 2, rd_rel(RV_BR, 0), site_steps=(0, 2, 4)),
        ("bc_imm8",): Spec("pc", -256, 254, 2, rd_rel(RV_BR, 0), site_steps=(0, 2, 4)),
        ("abs32_imm20", "abs32_imm12"): Spec("abs", 0, 2 ** 32 - 1, 1, rd_rv_abs_hilo, oor=False),
        ("rel_imm20", "rel_imm12"): Spec("pc", -2 ** 31, 2 ** 31 - 1, 1, rd_rv_pc_hilo, oor=False),
    },
    "arm": {
        ("imm24",): Spec("pc", -2 ** 25, 2 ** 25 - 4, 4, rd_rel(r"bl?\w*", 8), anchor=8, branch=True),
        ("ldr_imm12",): Spec("pc", -4095, 4095, 1, rd_arm_ldr, anchor=8),
        ("adr_imm12",): Spec("pc", -0xFF000000, 0xFF000000, 1, rd_arm_adr, anchor=8, rep=lambda x: arm_modimm(abs(x)), oor=False),
    },
    "thumb": {
        ("wrap_new11",): Spec("pc", -2048, 2046, 2, rd_rel(r"b\w*", 4), anchor=4, site_steps=(0, 2, 4), branch=True),
        ("rel8",): Spec("pc", -256, 254, 2, rd_rel(r"b\w*", 4), anchor=4, site_steps=(0, 2, 4), branch=True),
        ("bl_imm11",): Spec("pc", -2 ** 24, 2 ** 24 - 2, 2, rd_rel(r"bl?(?:\.w)?", 4), anchor=4, site_steps=(0, 2, 4), branch=True),
        ("b_imm11_imm6",): Spec("pc", -2 ** 20, 2 ** 20 - 2, 2, rd_rel(r"b\w*(?:\.w)?", 4), anchor=4, site_steps=(0, 2, 4), branch=True),
        ("lit8",): Spec("pc", 0, 1020, 4, rd_thumb_lit, anchor="align4+4", site_steps=(0, 2, 4)),
    },
    "x86_64": {
        ("rel32",): Spec("pc", -2 ** 31, 2 ** 31 - 1, 1, rd_rel(r"j\w+|call\w*", "end"), anchor="end", site_steps=(0, 1, 3), branch=True),
        ("jmp8",): Spec("pc", -128, 127, 1, rd_rel(r"j\w+", "end"), anchor="end", site_steps=(0, 1, 3), branch=True),
        ("abs32",): Spec("abs", 0, 2 ** 31 - 1, 1, rd_x86_mem, site_steps=(0, 1, 3)),
        ("abs64",): Spec("abs", 0, 2 ** 64 - 1, 1, rd_x86_movabs, oor=False, site_steps=(0, 1, 3)),
    },
    "avr": {
        ("12bit",): Spec("pc", -4096, 4094, 2, rd_avr_rjmp, anchor=2, site_steps=(0, 2)),
        ("7bit",): Spec("pc", -128, 126, 2, rd_avr_br, anchor=2, site_steps=(0, 2)),
        ("ldilo", "ldihi"): Spec("abs", 0, 65535, 1, rd_avr_ldi_pair, oor=False, site_steps=(0, 2)),
    },
    "msp430": {
        ("rel10",): Spec("pc", -1024, 1022, 2, rd_msp_jmp, anchor=2, site_steps=(0, 2)),
        ("abs16",): Spec("abs", 0, 65535, 1, rd_msp_abs, site_steps=(0, 2)),
    },
    "m68k": {
        ("branch_rel32",): Spec("pc", -2 ** 31, 2 ** 31 - 1, 1, rd_m68k_long_branch, anchor=2, decode=False, oor=False, site_steps=(0, 2)),
        ("rel16",): Spec("pc", -32768, 32767, 1, rd_m68k_pcrel16, anchor=2, site_steps=(0, 2)),
    },
    "mips": {
        # MIPS32 J: target = (address of the delay slot)[31:28] : instr_index : 00 - representable iff the symbol is in the 256 MB region of site + 4
        ("abs26",): Spec("abs", 0, 2 ** 32 - 4, 4, rd_mips_j, rep_site=lambda x, site: (x >> 28) == ((site + 4) >> 28), oor=False),
    },
}


def rd_data(nbytes):
    def read(texts, addrs, blobs, lens):
        return int.from_bytes(blobs[0][:nbytes], "little")
    return read


DATA_SPECS = {
    ("absaddr16",): Spec("abs", 0, 2 ** 16 - 1, 1, rd_data(2), decode=False, site_steps=(0, 4)),
    ("absaddr32",): Spec("abs", 0, 2 ** 32 - 1, 1, rd_data(4), decode=False, site_steps=(0, 4)),
    ("absaddr64",): Spec("abs", 0, 2 ** 64 - 1, 1, rd_data(8), decode=False, oor=False, site_steps=(0, 4)),
}


def spec_for(arch_name, names):
    names = tuple(names)
    if names in DATA_SPECS:
        return DATA_SPECS[names]
    return SPECS.get(family(arch_name), {}).get(names)


# ------------------------------------------------------------------ units: what emits a relocation (from the instruction tables)

def emit_unit(arch, instrs):
    """Emit instruction objects through the real BinaryOutputStream: (bytes, [(type, offset, addend)], [length of each instruction])."""
    from ppci.binutils.objectfile import ObjectFile
    from ppci.binutils.outstream import BinaryOutputStream
    obj = ObjectFile(arch)
    st = BinaryOutputStream(obj)
    st.select_section("code")
    from ppci.arch.generic_instructions import ArtificialInstruction

    def flat(i):
        if isinstance(i, ArtificialInstruction):
            for x in i.render():
                yield from flat(x)
        else:
            yield i
    lens = []
    for ins in instrs:
        before = obj.get_section("code").size if obj.has_section("code") else 0
        st.emit(ins)
        mine = [len(x.encode()) for x in flat(ins)]
        assert sum(mine) == obj.get_section("code").size - before
        lens.extend(mine)
    data = bytes(obj.get_section("code").data)
    rels = [(r.reloc_type, r.offset, r.addend) for r in obj.relocations]
    return data, rels, lens


_UNITS = {}


def find_units(arch_name, max_users=1):
    """{relocation names tuple: [unit]}, unit = {"arch", "insts": [insgen witness...]} whose emission produces exactly those relocation types in order."""
    from vf.gen import insgen
    from ppci.arch.generic_instructions import ArtificialInstruction
    key = (arch_name, max_users)
    if key in _UNITS:
        return _UNITS[key]
    ai = insgen.get_arch_info(arch_name)
    singles = {}
    multi = {}
    for ci in ai.classes:
        a, _ = ci.seeds()
        if a is None:
            continue
        cands = [a]
        for i, spec in enumerate(ci.operands):
            if spec.kind == "c":
                for v in ci.domain(a, (i,), 4, True):
                    if any(x[0] == "s" for _, x in insgen.leaves((v,))):
                        cands.append(insgen.treplace(a, (i,), v))
        for ops in cands:
            lv = [(pth, v) for pth, v in insgen.leaves(ops) if v[0] == "s"]
            if len(lv) != 1:
                continue
            ops = insgen.treplace(ops, lv[0][0], ("s", SYM))
            inst = insgen.Instance(ci, ops)
            try:
                data, rels, lens = emit_unit(ai.arch, [inst.build()])
            except Exception:  # noqa
                continue
            types = tuple(t for t, _, _ in rels)
            if len(types) == 1:
                singles.setdefault(types[0], []).append(inst)
            elif len(types) == 2 and isinstance(inst.build(), ArtificialInstruction):
                multi.setdefault(types, []).append(inst)
            break
    out = {}
    fam_specs = dict(SPECS.get(family(arch_name), {}))
    fam_specs.update(DATA_SPECS)
    for names, spec in fam_specs.items():
        units = []
        if len(names) == 1:
            users = singles.get(names[0], [])
            n = max_users if spec.branch else 1
            for inst in users[:n]:
                units.append({"arch": arch_name, "insts": [inst.witness()]})
        else:
            for inst in multi.get(names, [])[:2]:
                units.append({"arch": arch_name, "insts": [inst.witness()]})
            if names[0] in singles and names[1] in singles:
                units.append({"arch": arch_name, "insts": [singles[names[0]][0].witness(), singles[names[1]][0].witness()]})
        if units:
            out[names] = units
    out["_all_types"] = sorted(ai.arch.isa.relocation_map)
    out["_single_users"] = {k: len(v) for k, v in singles.items()}
    _UNITS[key] = out
    return out


_UNIT_CACHE = {}


def unit_info(unit):
    """(bytes, rels, lens, names) of a unit description."""
    from vf.gen import insgen
    import json
    k = json.dumps(unit, sort_keys=True)
    if k not in _UNIT_CACHE:
        ai = insgen.get_arch_info(unit["arch"])
        instrs = [insgen.from_witness(w).build() for w in unit["insts"]]
        data, rels, lens = emit_unit(ai.arch, instrs)
        _UNIT_CACHE[k] = (data, rels, lens, tuple(t for t, _, _ in rels))
    return _UNIT_CACHE[k]


# ------------------------------------------------------------------ the 25-line reference: where things end up

def _up(v, a):
    return (v + a - 1) // a * a


def ref_link(objs, ldesc, extra=None):
    """-> ({section name: address}, {(obj index, section name): leaf offset}, {(obj index | None, symbol name): address}, {section name: merged size})"""
    size, align, leaf = {}, {}, {}
    for k, o in enumerate(objs):
        for s in o["sections"]:
            n = s["name"]
            off = _up(size.get(n, 0), s.get("align", 4))
            leaf[(k, n)] = off
            size[n] = off + s["size"]
            align[n] = max(align.get(n, 4), s.get("align", 4))
    addr, defsyms = {}, {}
    for m in ldesc["memories"]:
        cur = m["location"]
        for kind, arg in m["inputs"]:
            if kind == "SECTION":
                cur = _up(cur, align.get(arg, 4))
                addr[arg] = cur
                cur += size.get(arg, 0)
            elif kind == "DEFINESYMBOL":
                defsyms[arg] = cur
            elif kind == "ALIGN":
                cur = _up(cur, arg)
    syms = {}
    for k, o in enumerate(objs):
        for y in o["symbols"]:
            if y["offset"] is not None and y["section"] in addr:
                syms[(k if y["binding"] == "local" else None, y["name"])] = addr[y["section"]] + leaf[(k, y["section"])] + y["offset"]
    for n, v in defsyms.items():
        syms[(None, n)] = v
    for n, v in (extra or {}).items():
        syms[(None, n)] = v
    return addr, leaf, syms, size


# ------------------------------------------------------------------ topologies

TOPOS = ("same-l", "same-g", "sect-l", "sect-g", "sect-l2", "onemem-f", "onemem-b", "obj2", "obj2-swap", "obj2-code",
         "defsym", "defsym-after", "defsym-before", "extra")
# topologies in which shrinking the site's instruction cannot move the site or the symbol (the symbol sits in front of the site or in another memory)
RELAX_SAFE = ("sect-l", "sect-g", "sect-l2", "obj2", "obj2-swap", "obj2-code", "onemem-b", "defsym", "extra", "defsym-before")
RELAX_SAFE_BACKWARD = ("same-l", "same-g")
NEAR = 0x600      # largest distance realised inside one section / one memory


def _zeros_with(n, at, data):
    b = bytearray(n)
    b[at:at + len(data)] = data
    return bytes(b).hex()


def build_case(case):
    """case: {"unit", "topo", "s", "x", "delta"}  ->  scenario {"objs", "layout", "extra", "site": (obj index, offset in leaf), "symkey"} or None if the
    topology cannot realise the value.  x is the aimed field value (pc: want - anchor, abs: want); the verdict never relies on the aim."""
    from vf.gen import objgen as G
    unit, topo, s, x, delta = case["unit"], case["topo"], case["s"], case["x"], case["delta"]
    arch = unit["arch"]
    data, rels, lens, names = unit_info(unit)
    spec = spec_for(arch, names)
    ulen = len(data)
    bits = ADDR_BITS.get(family(arch), 32)
    top = 1 << bits
    pre = 8 if topo == "obj2-swap" else 0       # bytes of another object's code in front of the site's leaf

    def mkrels(symid):
        return [G.rel(t, symid, "code", s + off, add + delta) for t, off, add in rels]

    def code_sec(total=None):
        n = max(s + ulen + 4, total or 0)
        n = _up(n, 4)
        return {"name": "code", "size": n, "align": 4, "fill": "zero", "data": _zeros_with(n, s, data)}

    if topo == "obj2-code":
        # symbol lives in the code leaf of the first object, the site in the code leaf of the second
        if spec.kind == "pc":
            c1 = _up(max(8, -x + 16), 4)
            if c1 > NEAR:
                return None
            base = 0x1000 if bits > 16 else 0x200
            site = base + c1 + s
            toff = spec.anchor_of(site, ulen) + x - delta - base
        else:
            c1 = 16
            base = ((x - delta) & ~3) - 8
            toff = x - delta - base
            if base < 0:
                return None
        if not (0 <= toff <= c1):
            return None
        o1 = G.obj([G.sec("code", c1, 4, "tag")], [G.sym(SYM, "global", "code", toff)], arch=arch, tag=1)
        o0 = G.obj([code_sec()], [G.sym(SYM, "global", None, None)], mkrels(0), arch=arch, tag=0)
        lay = G.layout([G.mem("m0", base, G.BIG, [["SECTION", "code"]])])
        return {"objs": [o1, o0], "layout": lay, "extra": None, "site": (1, s), "symkey": [None, SYM]}

    # where the code goes and what address we aim the symbol at
    if spec.kind == "pc":
        base = 0x1000 if bits > 16 else 0x800
        if x < 0:
            base = _up(base + (-x), 0x1000 if bits > 16 else 0x100)
        site = base + pre + s
        T = spec.anchor_of(site, ulen) + x - delta
    else:
        T = x - delta
        cands = (0x10000, 0x80000) if bits > 16 else (0x4000, 0x400)
        base = [b for b in cands if not (b - 0x1000 < T < b + 0x1000)][0] if bits > 16 else [b for b in cands if not (b - 0x100 < T < b + 0x300)][0]
        if topo in ("same-l", "same-g", "onemem-f", "onemem-b", "defsym-after", "defsym-before"):
            # near topologies: put the code just below / above the wanted address instead
            if topo in ("onemem-b",):
                base = _up(T, 4) + 16
            elif topo == "defsym-before":
                base = T
            else:
                base = ((T - s - ulen - 16) & ~3)
            if base < 0 or base % 4:
                return None
        site = base + pre + s
    if T < 0 or T >= top or base + NEAR + 0x100 >= top:
        return None
    codesize = _up(s + ulen + 4, 4)
    binding = "local" if topo.endswith("-l") or topo.endswith("-l2") else "global"
    undefined = [G.sym(SYM, "global", None, None)]
    extra = None

    def disjoint(addr, n):
        return addr + n <= base or addr >= base + pre + codesize

    if topo in ("same-l", "same-g"):
        toff = T - base
        if not (0 <= toff <= NEAR):
            return None
        o0 = G.obj([code_sec(toff + 1)], [G.sym(SYM, binding, "code", toff)], mkrels(0), arch=arch)
        lay = G.layout([G.mem("m0", base, G.BIG, [["SECTION", "code"]])])
        return {"objs": [o0], "layout": lay, "extra": None, "site": (0, s), "symkey": [0 if binding == "local" else None, SYM]}
    if topo in ("sect-l", "sect-g", "sect-l2", "obj2", "obj2-swap"):
        t = T & 3
        front = 8 if topo == "obj2" else 0          # bytes of the other object's data in front of the symbol's leaf
        daddr = T - t - front
        if daddr < 0 or not disjoint(daddr, front + t + 8):
            return None
        dsec = G.sec("data", t + 4, 4, "tag")
        if topo in ("sect-l", "sect-g"):
            o0 = G.obj([code_sec(), dsec], [G.sym(SYM, binding, "data", t)], mkrels(0), arch=arch)
            objs, siteobj, symkey = [o0], 0, [0 if binding == "local" else None, SYM]
        elif topo == "sect-l2":
            decoy = G.obj([G.sec("extra", 12, 4, "tag")], [G.sym(SYM, "local", "extra", 4)], arch=arch, tag=1)
            o0 = G.obj([code_sec(), dsec], [G.sym(SYM, "local", "data", t)], mkrels(0), arch=arch)
            objs, siteobj, symkey = [decoy, o0], 1, [1, SYM]
        elif topo == "obj2":
            o0 = G.obj([code_sec(), G.sec("data", 8, 4, "tag")], undefined, mkrels(0), arch=arch)
            o1 = G.obj([dsec], [G.sym(SYM, "global", "data", t)], arch=arch, tag=1)
            objs, siteobj, symkey = [o0, o1], 0, [None, SYM]
        else:
            o1 = G.obj([G.sec("code", 8, 4, "tag"), dsec], [G.sym("other", "global", "code", 4), G.sym(SYM, "global", "data", t)], arch=arch, tag=1)
            o0 = G.obj([code_sec(), G.sec("data", 8, 4, "tag")], [G.sym("pad", "local", "code", 0)] + undefined, mkrels(1), arch=arch)
            objs, siteobj, symkey = [o1, o0], 1, [None, SYM]
        mems = [G.mem("m0", base, G.BIG, [["SECTION", "code"]]), G.mem("m1", daddr, G.BIG, [["SECTION", "data"]])]
        if topo == "sect-l2":
            mems.append(G.mem("m2", base + 0x4000 if base + 0x8000 < top else 0x10, G.BIG, [["SECTION", "extra"]]))
        return {"objs": objs, "layout": G.layout(mems), "extra": None, "site": (siteobj, s), "symkey": symkey}
    if topo == "onemem-f":
        t = T & 3
        csz = (T - t) - base
        if csz < s + ulen or csz > NEAR or csz % 4:
            return None
        o0 = G.obj([code_sec(csz), G.sec("data", t + 4, 4, "tag")], [G.sym(SYM, "global", "data", t)], mkrels(0), arch=arch)
        lay = G.layout([G.mem("m0", base, G.BIG, [["SECTION", "code"], ["SECTION", "data"]])])
        return {"objs": [o0], "layout": lay, "extra": None, "site": (0, s), "symkey": [None, SYM]}
    if topo == "onemem-b":
        t = T & 3
        b0 = T - t
        dsz = base - b0
        if b0 < 0 or dsz < t + 1 or dsz > NEAR:
            return None
        o0 = G.obj([code_sec(), G.sec("data", dsz, 4, "ramp")], [G.sym(SYM, "global", "data", t)], mkrels(0), arch=arch)
        lay = G.layout([G.mem("m0", b0, G.BIG, [["SECTION", "data"], ["SECTION", "code"]])])
        return {"objs": [o0], "layout": lay, "extra": None, "site": (0, s), "symkey": [None, SYM]}
    o0 = G.obj([code_sec()], undefined, mkrels(0), arch=arch)
    if topo == "defsym":
        if not disjoint(T, 1):
            return None
        lay = G.layout([G.mem("m0", base, G.BIG, [["SECTION", "code"]]), G.mem("m1", T, G.BIG, [["DEFINESYMBOL", SYM]])])
    elif topo == "defsym-after":
        csz = T - base
        if csz < s + ulen or csz > NEAR or csz % 4:
            return None
        o0 = G.obj([code_sec(csz)], undefined, mkrels(0), arch=arch)
        lay = G.layout([G.mem("m0", base, G.BIG, [["SECTION", "code"], ["DEFINESYMBOL", SYM]])])
    elif topo == "defsym-before":
        if T != base:
            return None
        lay = G.layout([G.mem("m0", base, G.BIG, [["DEFINESYMBOL", SYM], ["SECTION", "code"]])])
    elif topo == "extra":
        lay = G.layout([G.mem("m0", base, G.BIG, [["SECTION", "code"]])])
        extra = {SYM: T}
    else:
        raise ValueError(topo)
    return {"objs": [o0], "layout": lay, "extra": extra, "site": (0, s), "symkey": [None, SYM]}


# ------------------------------------------------------------------ enumeration

def lattice(spec, tier):
    lo, hi, st = spec.lo, spec.hi, spec.step
    vs = {0, lo, hi, lo + st, hi - st}
    for m in (1, 2, 3, 5):
        vs.update((m * st, -m * st))
    k = 1
    while (1 << k) <= max(abs(lo), abs(hi)) * 2:
        p = 1 << k
        for d in (0, st, -st) + ((2 * st, -2 * st, 3 * st) if tier == "thorough" else ()):
            vs.update((p + d, -(p + d), -p + d))
        k += 1
    out = sorted((v for v in vs if spec.representable(v)), key=lambda v: (abs(v), v < 0))
    return out


def out_of_range(spec):
    if not spec.oor:
        return []
    vs = [2 * (spec.hi + spec.step)]
    if spec.lo < 0:
        vs.append(2 * spec.lo)
    return vs


def cases_for(unit, tier):
    """All cases of one unit, simplest first: [(topo, s, x, delta, expect_oor)]."""
    data, rels, lens, names = unit_info(unit)
    spec = spec_for(unit["arch"], names)
    lat = lattice(spec, tier)
    small = [v for v in lat if abs(v) <= 64][:9] + [v for v in lat if abs(v) > 64][:4]
    def allowed(topo, x):
        return not spec.relax or topo in RELAX_SAFE or (topo in RELAX_SAFE_BACKWARD and x < 0)
    topos = list(TOPOS)
    svals = spec.site_steps if tier == "quick" else tuple(sorted(set(spec.site_steps) | {8, 12} | ({6} if 2 in spec.site_steps else set())))
    out = []
    for x in lat:
        for topo in topos:
            if not allowed(topo, x):
                continue
            for s in (svals[:2] if tier == "quick" else svals):
                out.append((topo, s, x, 0, False))
    for delta in (1, -1, 4, -4):
        for x in (small if tier == "quick" else lat):
            for topo in (("same-g", "sect-l", "obj2", "extra") if tier == "quick" else topos):
                if not allowed(topo, x - delta):
                    continue
                for s in svals[:1] if tier == "quick" else svals[:2]:
                    out.append((topo, s, x, delta, False))
    for x in out_of_range(spec):
        for topo in ("sect-g", "extra", "defsym"):
            out.append((topo, svals[0], x, 0, True))
    return out


# ------------------------------------------------------------------ judging

def size_class(v):
    a = abs(v)
    return ("neg" if v < 0 else "pos", 0 if a < 256 else 1 if a < 4096 else 2 if a < (1 << 20) else 3)


def do_link(sc):
    from vf.gen import objgen as G
    from ppci.binutils.linker import link
    objs = [G.build(o) for o in sc["objs"]]
    return link(objs, layout=G.build_layout(sc["layout"]), extra_symbols=sc.get("extra"))


def judge_cases(p, unit, cases, only_key=None):
    """cases: [(topo, s, x, delta, expect_oor)] of one unit."""
    from vf.core import cpu_limit, CpuTimeout, exc_key
    arch = unit["arch"]
    fam = family(arch)
    data, rels, lens, names = unit_info(unit)
    spec = spec_for(arch, names)
    rname = "+".join(names)
    ulen = len(data)
    bits = ADDR_BITS.get(fam, 32)
    mask = (1 << bits) - 1
    pend = []
    blobs = []
    for (topo, s, x, delta, expect_oor) in cases:
        case = {"unit": unit, "topo": topo, "s": s, "x": x, "delta": delta}
        sc = build_case(case)
        if sc is None:
            p.count("topology_cannot_realise_value")
            continue
        addr, leaf, syms, sizes = ref_link(sc["objs"], sc["layout"], sc.get("extra"))
        k, soff = sc["site"]
        site_off = leaf[(k, "code")] + soff
        site = addr["code"] + site_off
        S = syms[tuple(sc["symkey"])]
        want = S + delta
        anchor = spec.anchor_of(site, ulen)
        xa = want - anchor if spec.kind == "pc" else want
        wit = {"unit": unit, "topo": topo, "s": s, "x": str(x), "delta": delta}
        rep = spec.representable(xa, site)
        if delta and rep and not spec.representable(xa - delta, site):
            # a type that ignored the addend would be judged on another (unrepresentable) value: that mixes two mechanisms, not explored
            p.count("addend_case_not_separable")
            continue
        clearly_out = spec.oor and (xa >= 2 * (spec.hi + spec.step) or (spec.lo < 0 and xa <= 2 * spec.lo) or (spec.lo == 0 and xa < -spec.hi))
        if spec.rep_site and spec.lo <= xa <= spec.hi and xa % spec.step == 0 and not spec.rep_site(xa, site):
            clearly_out = True      # e.g. a MIPS j into another 256 MB region: no encoding designates the symbol
        if not rep and not clearly_out:
            p.count("between_range_and_twice_range_not_judged")
            continue
        p.add()
        try:
            with cpu_limit(30):
                out = do_link(sc)
        except CpuTimeout:
            p.violation("timeout/link", "link exceeded 30 s CPU: %s %s %s" % (arch, rname, topo), wit)
            continue
        except Exception as ex:  # noqa
            if rep:
                p.count("rejected_in_range")
                p.collect("rejected_in_range", "%s:%s:%s" % (arch, rname, type(ex).__name__))
                p.outcome((arch, rname, topo, "rejected-representable", size_class(xa), xa & 3))
            else:
                p.count("rejected_out_of_range")
                p.outcome((arch, rname, topo, "rejected-unrepresentable", size_class(xa)))
            continue
        # placement must match the reference, else this is not C11's case
        try:
            sec = out.get_section("code")
            placed = all(out.get_section(n).address == a for n, a in addr.items() if out.has_section(n))
            ssec = symbol_section(sc)
            got_S = S in [out.get_symbol_id_value(y.id) for y in out.symbols if y.name == SYM and y.defined and y.section == ssec]
        except Exception as ex:  # noqa
            p.violation(exc_key("inspect", ex), "reading the linked object raised %r" % (ex,), wit)
            continue
        relaxed = sec.size < sizes["code"]
        # for the locus only: does ppci's own relocation list still point at the site?
        rel_ok = relaxed or all(any(r.section == "code" and r.offset == site_off + off for r in out.relocations) for _, off, _ in rels)
        if not placed:
            p.count("unclassified_placement_differs_from_reference")
            continue
        if relaxed and not spec.relax:
            p.count("unclassified_unexpected_shrink")
            continue
        if not rep:
            key = "accepts-unrepresentable/%s" % rname_class(arch, names)
            if only_key in (None, key):
                why = "range [%d, %d] step %d" % (spec.lo, spec.hi, spec.step)
                if spec.rep_site and spec.lo <= xa <= spec.hi:
                    why = "no encoding at site 0x%x designates it: the field only reaches the site's own 256 MB region" % site
                p.violation(key, "%s %s via %s: %s = %d (0x%x) is not representable (%s) but link succeeded; site bytes %s"
                            % (arch, rname, topo, "distance to anchor" if spec.kind == "pc" else "address", xa, xa & (2 ** 64 - 1), why,
                               bytes(sec.data[site_off:site_off + ulen]).hex()), wit)
            p.outcome((arch, rname, topo, "accepted-unrepresentable", size_class(xa)))
            continue
        raw = bytes(sec.data[site_off:site_off + ulen])
        parts, addrs, o = [], [], 0
        for n in lens:
            parts.append(raw[o:o + n])
            addrs.append(site + o)
            o += n
        rec = {"wit": wit, "topo": topo, "site": site, "want": want, "xa": xa, "delta": delta, "parts": parts, "addrs": addrs, "S": S, "sym_ok": got_S, "rel_ok": rel_ok, "ti": None}
        if spec.decode:
            rec["ti"] = len(blobs)
            blobs.extend(parts)
        pend.append(rec)
    texts = llvm_disasm(LLVM[fam], blobs) if blobs else []
    for rec in pend:
        parts = rec["parts"]
        ts = texts[rec["ti"]:rec["ti"] + len(parts)] if rec["ti"] is not None else [None] * len(parts)
        got = spec.reader(ts, rec["addrs"], parts, lens)
        xa, want, topo = rec["xa"], rec["want"], rec["topo"]
        if got is None:
            p.count("unclassified_reference_cannot_read")
            p.collect("unclassified_texts", "%s:%s:%r" % (arch, rname, ts))
            continue
        width = bits
        if names in DATA_SPECS:
            width = {"absaddr16": 16, "absaddr32": 32, "absaddr64": 64}[names[0]]
        m = min(mask, (1 << width) - 1)
        if (got - want) & m == 0:
            p.count("exact")
            p.outcome((arch, rname, topo, "exact", size_class(xa), xa & 3, rec["delta"] != 0))
            continue
        err = got - want
        if bits < 64 or names in DATA_SPECS:
            err = ((err + (m + 1) // 2) & m) - (m + 1) // 2
        cls = rname_class(arch, names)
        if rec["delta"] and err == -rec["delta"]:
            key = "addend-ignored"
        elif not rec["rel_ok"]:
            key = "linker/relocation-offset/" + TOPO_GROUP[topo]          # the output's relocation entries do not sit at the site: applied somewhere else
        elif not rec["sym_ok"]:
            key = "symbol-address/" + TOPO_GROUP[topo]
        elif abs(err) <= 16:
            key = "reloc/%s/bias" % cls
        else:
            key = "reloc/%s/high-bits" % cls
        p.collect("affected:" + key, "%s:%s" % (arch, rname))
        if only_key in (None, key):
            p.violation(key, "%s %s via %s: symbol at 0x%x, addend offset %d, site at 0x%x: linked bytes %s read back as 0x%x (%s), expected 0x%x (error %+d)"
                        % (arch, rname, topo, rec["S"], rec["delta"], rec["site"], b"".join(parts).hex(), got & m,
                           " ; ".join(t or "?" for t in ts) if spec.decode else "field extractor", want & m, err), rec["wit"])
        p.outcome((arch, rname, topo, "wrong", size_class(xa), xa & 3, rec["delta"] != 0))


TOPO_GROUP = {"same-l": "same-section", "same-g": "same-section", "sect-l": "other-section", "sect-g": "other-section", "sect-l2": "other-section",
              "onemem-f": "other-section", "onemem-b": "other-section", "obj2": "other-object", "obj2-swap": "other-object", "obj2-code": "other-object",
              "defsym": "layout-symbol", "defsym-after": "layout-symbol", "defsym-before": "layout-symbol", "extra": "extra-symbol"}


def symbol_section(sc):
    """Name of the output section the referenced symbol must end up in (None: absolute)."""
    k, name = sc["symkey"]
    for i, o in enumerate(sc["objs"]):
        for y in o["symbols"]:
            if y["name"] == name and y["offset"] is not None and (k is None or k == i) and (y["binding"] == "local") == (k is not None):
                return y["section"]
    for m in sc["layout"]["memories"]:
        for kind, arg in m["inputs"]:
            if kind == "DEFINESYMBOL" and arg == name:
                return "_$%s_" % name
    return None


def rname_class(arch, names):
    from vf.gen import insgen
    ai = insgen.get_arch_info(arch)
    return "+".join(ai.arch.isa.relocation_map[n].__name__ for n in names)


# ------------------------------------------------------------------ start-up validation of the readers against LLVM's own assembler

SELFTEST = {
    # family: [(assembler text with label L, relocation names, expected: 'L' address given that the instruction is at 0)]
    "riscv": [("beq ra, sp, L", ("b_imm12",)), ("jal ra, L", ("b_imm20",)), ("c.j L", ("bc_imm11",)), ("c.beqz s1, L", ("bc_imm8",))],
    "arm": [("b L", ("imm24",)), ("bne L", ("imm24",)), ("ldr r1, L", ("ldr_imm12",)), ("adr r1, L", ("adr_imm12",))],
    "thumb": [("b L", ("wrap_new11",)), ("beq L", ("rel8",)), ("b.w L", ("bl_imm11",)), ("beq.w L", ("b_imm11_imm6",)), ("ldr r1, L", ("lit8",), {"triple": "-triple=thumbv6m", "fwd_only": True, "align_label": True})],
    "x86_64": [("jmp L", ("rel32",)), ("jne L", ("rel32",)), ("call L", ("rel32",))],
    "msp430": [("jne L", ("rel10",))],
    "mips": [],
}


def selftest_worker(p, shard):
    """The pc bias of every reader, checked against llvm-mc's assembler: `insn L` at block+0x40 (and +0x42 for 2-byte ISAs) with L at block+0x100
    (forward) or block+0x10 (backward); one assembly per family, blocks 0x200 apart, instruction length found through a 4-byte marker that follows it."""
    from vf.core import scratch
    for fam in shard:
        tests = SELFTEST[fam]
        if not tests:
            continue
        flags = [f for f in LLVM[fam] if f not in ("-M", "no-aliases")]
        if fam == "riscv":
            flags = ["-triple=riscv32", "-mattr=+c,+m,+f,-relax"]
        groups = {}
        for test in tests:
            opts = test[2] if len(test) > 2 else {}
            groups.setdefault(opts.get("triple"), []).append(test)
        for triple, ts in groups.items():
            aflags = [triple if f.startswith("-triple=") else f for f in flags] if triple else flags
            blocks = []
            src = [".text"]
            for test in ts:
                text, names = test[0], test[1]
                opts = test[2] if len(test) > 2 else {}
                for pre, lab in ((0x40, 0x100), (0x40, 0x10)) + (((0x42, 0x100),) if fam in ("thumb", "msp430") else ()):
                    if lab < pre and opts.get("fwd_only"):
                        continue
                    k = len(blocks)
                    base = k * 0x200
                    blocks.append((text, names, base + pre, base + lab))
                    if lab < pre:
                        src += [".org 0x%x" % (base + lab), "L%d:" % k, ".org 0x%x" % (base + pre), "X%d:" % k, text.replace("L", "L%d" % k), ".byte 0xa5, 0x5a, 0xc3, 0x3c"]
                    else:
                        src += [".org 0x%x" % (base + pre), "X%d:" % k, text.replace("L", "L%d" % k), ".byte 0xa5, 0x5a, 0xc3, 0x3c", ".org 0x%x" % (base + lab), "L%d:" % k]
            src.append(".org 0x%x" % (len(blocks) * 0x200))
            with scratch(ID + "s") as d:
                sfile, ofile, bfile = os.path.join(d, "t.s"), os.path.join(d, "t.o"), os.path.join(d, "t.bin")
                open(sfile, "w").write("\n".join(src) + "\n")
                r = subprocess.run(["llvm-mc", "-filetype=obj", "-o", ofile] + aflags + [sfile], capture_output=True, text=True)
                if r.returncode != 0:
                    p.collect("selftest_failures", "llvm-mc rejects the self-test source for %s: %s" % (fam, r.stderr[-300:]))
                    continue
                subprocess.run(["llvm-objcopy", "-O", "binary", "--only-section=.text", ofile, bfile], check=True)
                blob = open(bfile, "rb").read()
                rr = subprocess.run(["llvm-readobj", "-r", ofile], capture_output=True, text=True).stdout
            if "0x" in rr.split("Relocations [")[1]:
                p.collect("selftest_failures", "llvm-mc left relocations for %s: %s" % (fam, rr[-300:]))    # choose other instruction forms
                continue
            ibs, lens = [], []
            for k, (text, names, xaddr, laddr) in enumerate(blocks):
                n = blob.find(bytes.fromhex("a55ac33c"), xaddr + 1) - xaddr
                lens.append(n)
                ibs.append(blob[xaddr:xaddr + n])
            texts = llvm_disasm(LLVM[fam], ibs)
            for (text, names, xaddr, laddr), ib, n, t in zip(blocks, ibs, lens, texts):
                got = SPECS[fam][names].reader([t], [xaddr], [ib], [n])
                if got != laddr:
                    p.collect("selftest_failures", "%s %r at 0x%x assembled by llvm-mc to %s (label at 0x%x) but the reader of %s gives %r (text %r)"
                              % (fam, text, xaddr, ib.hex(), laddr, names, got, t))
                else:
                    p.count("reader_selftests_passed")


def selftest(ctx):
    from vf.core import HarnessError
    ctx.pmap(selftest_worker, [f for f in SELFTEST if SELFTEST[f]], nshards=len(SELFTEST))
    if ctx.sets.get("selftest_failures"):
        raise HarnessError("reader self-test failed: " + " | ".join(sorted(ctx.sets["selftest_failures"])))
    if not ctx.counters.get("reader_selftests_passed"):
        raise HarnessError("reader self-test did not run")


# ------------------------------------------------------------------ driver

def worker(p, shard, tier):
    for unit, lo, hi in shard:
        cs = cases_for(unit, tier)[lo:hi]
        judge_cases(p, unit, cs)


def run(ctx):
    from vf.gen import insgen
    selftest(ctx)
    archs = list(ARCHS)
    if os.environ.get("VF_ARCHS"):
        archs = [a for a in archs if a in os.environ["VF_ARCHS"].split(",")]
        ctx.cap("VF_ARCHS restricts the architectures (development aid)")
    max_users = 1 if ctx.quick else 4
    items = []
    covered, uncovered = [], []
    seen_cls = set()
    nunits = 0
    for an in archs + [a for a in DATA_ONLY_ARCHS if not os.environ.get("VF_ARCHS")]:
        units = find_units(an, max_users)
        ai = insgen.get_arch_info(an)
        used = set()
        for names, us in units.items():
            if names in ("_all_types", "_single_users"):
                continue
            if names in DATA_SPECS:
                # data relocations are one class shared by all targets: all three widths on arm and x86_64,
                # absaddr32 everywhere
                if not (an in ("arm", "x86_64") or names == ("absaddr32",)):
                    used.update(names)
                    continue
            if an in DATA_ONLY_ARCHS and names not in DATA_SPECS:
                continue
            # the same relocation class reached through an option variant is explored once (riscv:rvc repeats riscv's classes)
            cls = tuple(ai.arch.isa.relocation_map[n] for n in names)
            used.update(names)
            if (cls, names in DATA_SPECS and an) in seen_cls:
                continue
            seen_cls.add((cls, names in DATA_SPECS and an))
            for u in us:
                n = len(cases_for(u, ctx.tier))
                nunits += 1
                covered.append("%s:%s:%s" % (an, "+".join(names), "+".join(w["cls"] for w in u["insts"])))
                chunk = 800
                for lo in range(0, n, chunk):
                    items.append((u, lo, min(n, lo + chunk)))
        for t in units["_all_types"]:
            if t not in used:
                uncovered.append("%s:%s" % (an, t))
    ctx.note("units", covered)
    ctx.note("relocation_types_not_covered", uncovered)
    ctx.note("n_units", nunits)
    if items:
        u = items[0][0]
        ctx.sample({"unit": u, "first_cases": [list(c) for c in cases_for(u, ctx.tier)[:3]]})
    ctx.pmap(worker, items, extra=(ctx.tier,))
    affected = {k[len("affected:"):]: sorted(v) for k, v in ctx.sets.items() if k.startswith("affected:")}
    for k in list(ctx.sets):
        if k.startswith("affected:"):
            del ctx.sets[k]
    ctx.note("affected_per_key", affected)
    if not ctx.counters.get("exact"):
        from vf.core import HarnessError
        raise HarnessError("no relocation was ever read back exactly: the harness is broken")


def replay(w):
    from vf.core import Partial
    p = Partial()
    case = (w["topo"], w["s"], int(w["x"]), w["delta"], False)
    judge_cases(p, w["unit"], [case])
    if p.violations:
        k = sorted(p.violations)[0]
        return True, "[%s] %s" % (k, p.violations[k][1])
    return False, "rejected or read back exactly (%s)" % dict(p.counters)
