"""C06 - register allocation never clobbers a live value.

K4 (abstract-state reachability, vf/flow.py) over K1 inputs: every frame handed to
GraphColoringRegisterAllocator.alloc_frame is snapshotted before allocation, the spill code the allocator asks MiniGen
for is tagged, and after allocation the final instruction list is abstractly interpreted with the state
"which source values does every physical location (register, aliasing register, stack slot) hold".
"""
import io
import itertools

ID = "C06"
LEVEL = "model_checking"
RULE = ("(i) hand-built frames for the `example` target: every token sequence of each alphabet family (FAMILIES: core = def/use/add/mov/cmp/use3/jc "
        "with 3 allocatable registers R0,R1,R10 + aliasing half register R10l; pre = + pre-coloured R0/R1 defs, uses, moves and call-like clobbers; "
        "alias = + half-register defs/uses, pre-coloured R10/R10l, clobber of R10; usedef = + RegisterUseDef uses/defs/undefined-value markers; "
        "k2 / k5 = mixed alphabet with 2 / 5 allocatable registers; lean = def/use/mov/use3/jc) up to length quick: core 5, pre/alias/usedef/k2 4, "
        "k5 3; thorough: core/pre/alias/usedef/k2/k5 5, lean 6; <= 7 virtual registers named in order of first definition, sources taken from "
        "registers defined earlier in the text, sources of commutative instructions ordered, at most one conditional jump (to every position, "
        "forward and backward), at least one instruction that reads a virtual register; (ii) every frame ppci.api.cc produces for the C corpus "
        "(vf/gen/ccorpus.py + 8 register-pressure functions: 12 live values, calls inside live ranges, loops, mixed 8/16/32/64-bit, pointers, "
        "division, doubles) at -O0 and -O2 (thorough: -O0, -O1, -O2, -Os), and ir_to_object produces for IR pressure modules (6/12 live values x plain/call/loop for every integer "
        "type, all ordered pairs of integer types mixed), on 13 target configurations.  Each allocated frame: fixpoint of location -> set of "
        "source values over the final instruction list (all paths), every read checked, plus a liveness-based overlap check.  "
        "distinct non-trivial = distinct (target, allocator events coalesced/constrained/frozen/spilled/rounds, set of registers used, frame size) "
        "among frames with at least one checked read of a defined value")
ASSUMPTIONS = [
    "each instruction's used_registers / defined_registers / clobbers / jumps / ismove annotations are trusted (property C07 checks them); "
    "an instruction with `jumps` continues only at those instructions, any other instruction falls through",
    "frame convention of ppci's selectors (and of FlowGraph): a label is entered only through explicit jumps, every block ends with a jump; the "
    "hand-built frames insert an unconditional jump before each label accordingly",
    "the physical location of a register object after allocation is type(reg).from_num(reg.color); two locations overlap iff one is reachable "
    "from the other through the `aliases` attribute of the register definitions (own computation, not arch.info.alias)",
    "spill code is identified by wrapping MiniGen.gen_load/gen_store: the instruction of the returned sequence that (through moves) defines the "
    "requested register is read as 'register := slot', the one that uses it as 'slot := register'; registers the allocator created as stand-ins "
    "for a spilled register only transport values (their reads are not judged, the reads of the original instructions are); helper temporaries "
    "of spill sequences are checked like ordinary values; distinct spill slots overlap iff their byte ranges overlap; other stack traffic is not "
    "modelled; a frame whose spill sequence cannot be interpreted this way is counted as unjudged, never a violation",
    "a value that has no definition on a path (upward-exposed virtual register, RegisterUseDef(defs=(vreg,)) 'undefined value' marker, copy of "
    "such a value) may be read from anywhere on that path; a pre-coloured register holds its own value on entry and after every write the "
    "program itself directs at it or at an overlapping register (pre-coloured operand, clobber list)",
    "RegisterUseDef emits no code: its definitions do not invalidate the locations of its own uses (ppci's 'view part of a register' idiom)",
    "on targets whose register classes do not implement from_num (riscv, stm8) the location is the unique register of the virtual register's class "
    "hierarchy in arch.info.register_classes whose number equals the colour",
    "frames on which alloc_frame raises or does not finish are counted, not judged (that is property C29): exceptions, more than 6 (hand-built) / 8 "
    "(real targets) spill rounds -- an unallocatable frame doubles in size every round and ppci gives up only after 30 -- and CPU limits of "
    "20 s per hand-built frame, 10 s per IR module and 60 s per C compilation",
    "hand-built frames use a stub instruction selector that answers MiniGen's spill trees with abstract slot-load / slot-store instructions",
    "IR pressure modules use the operators among + - ^ | & for which the target can select a three-instruction probe function of that type",
]
CLAIM = {"text": "inside the enumerated bound every read in every allocated frame finds the most recent definition of its value on every path, and "
                 "no two simultaneously live non-copy values overlap in a register",
         "note": "trusted: instruction annotations (C07), the `aliases` data of register definitions, MiniGen call arguments as spill tags",
         "technique": "distributive forward dataflow fixpoint (meet over all paths) on the allocated frame + independent liveness check",
         "engine": "K4 over K1"}

REAL_TARGETS = ["x86_64", "arm", "arm:thumb", "riscv", "riscv:rvc", "m68k", "mips", "avr", "msp430", "xtensa", "or1k", "microblaze", "stm8"]
CPU_TINY = 20
CPU_REAL = 60
CPU_IR = 10


# =================================================================================================== the model

class Node:
    __slots__ = ("kind", "uses", "defs", "clob", "slot", "idx", "text", "inserted", "fuses", "fdefs", "su", "sd")

    def __init__(self):
        self.kind = "op"       # op | move | usedef | reload | store | ghost | omitted
        self.uses = []         # [(name, loc)]  name = creation-time register, loc = final location (None = uncoloured)
        self.defs = []
        self.clob = []         # [loc]
        self.slot = None       # loc of the stack slot for reload/store
        self.idx = 0           # index into defs (reload) / uses (store) of the transferred register
        self.text = ""
        self.inserted = False  # created by the allocator (spill code)
        self.fuses = []        # [(final register name, loc)]
        self.fdefs = []
        self.su = frozenset()  # indices into uses / defs whose creation-time register is a stand-in made by the allocator for a
        self.sd = frozenset()  # spilled register (argument of gen_load/gen_store): spill code only transports such values


class Model:
    """Pure-data description of one allocated frame."""

    def __init__(self, arch_name):
        self.arch = arch_name
        self.names = []        # display
        self.virt = []         # name is a virtual register
        self.home = []         # name -> loc of a physical register name (None for virtual)
        self.locs = ["<undef>"]
        self.isslot = [False]
        self.alias = [frozenset([0])]
        self.nodes = []
        self.succ = []
        self.floc = {}         # final register name -> loc
        self.physhome = {}     # loc -> [pre-coloured names whose own register it is]
        self.anomalies = []
        self.events = {}

    def describe(self, i):
        nd = self.nodes[i]
        if not isinstance(nd.text, str):
            nd.text = ins_text(nd.text)
        return "%d:%s" % (i, nd.text)


def ins_text(ins):
    from ppci.arch.generic_instructions import RegisterUseDef
    if isinstance(ins, RegisterUseDef):
        return "usedef(uses=%s, defs=%s)" % (",".join(str(r) for r in ins.used_registers), ",".join(str(r) for r in ins.defined_registers))
    try:
        return str(ins)
    except Exception:  # noqa
        return type(ins).__name__


class LocProblem:
    """state = frozenset of facts  loc * NN + name  ("loc holds the current value of name"); loc 0 is the pseudo location
    <undef>: a name recorded there has no definition on the path and is implicitly held by every location."""

    def __init__(self, model, only=None):
        self.m = model
        self.NN = len(model.names) + 1
        self.only = only

    def meet(self, a, b):
        if a == b:
            return a
        NN = self.NN
        ua = {f for f in a if f < NN}
        ub = {f for f in b if f < NN}
        out = set(a & b)
        if ub:
            out.update(f for f in a if f >= NN and (f % NN) in ub)
        if ua:
            out.update(f for f in b if f >= NN and (f % NN) in ua)
        return frozenset(out)

    def holds(self, st, name, loc):
        return name in st or (loc * self.NN + name) in st

    def names_at(self, st, loc):
        NN = self.NN
        return {f % NN for f in st if f // NN == loc}

    def transfer(self, i, st):
        m = self.m
        nd = m.nodes[i]
        NN = self.NN
        k = nd.kind
        if k == "omitted":
            return st
        T = set(st)

        def remove_name(d):
            for f in [f for f in T if f % NN == d]:
                T.discard(f)

        def kill(locs, by_program=False):
            for f in [f for f in T if f >= NN and f // NN in locs]:
                T.discard(f)
            if by_program:
                # a write the *program* directs at a physical register (pre-coloured operand, clobber list): the
                # pre-coloured names living there now denote the new content, whatever it is
                for l in locs:
                    for pn in m.physhome.get(l, ()):
                        if self.only is None or pn in self.only:
                            T.add(l * NN + pn)

        def plain_def(d, ld, keep=()):
            remove_name(d)
            if ld is not None:
                ks = m.alias[ld]
                if keep:
                    ks = (ks - keep) | {ld}
                kill(ks, not m.virt[d])
                T.add(ld * NN + d)

        if k in ("move", "ghost"):
            (s, ls), (d, ld) = nd.uses[0], nd.defs[0]
            if ls is None or ld is None:
                if 0 in nd.sd:
                    if ld is not None:
                        kill(m.alias[ld])
                else:
                    plain_def(d, ld)
            elif 0 in nd.sd:
                # spill code: pure transport of whatever the source location holds
                if ls != ld and k == "move":
                    src = self.names_at(T, ls)
                    kill(m.alias[ld])
                    for n in src:
                        T.add(ld * NN + n)
            elif s == d:
                if ls != ld:
                    src = self.names_at(T, ls)
                    kill(m.alias[ld], not m.virt[d])
                    for n in src:
                        T.add(ld * NN + n)
            else:
                s_undef = s in T and 0 not in nd.su
                src = self.names_at(T, ls)
                s_ok = (s_undef or s in src) and 0 not in nd.su
                remove_name(d)
                src.discard(d)
                if ls != ld and k == "move":
                    kill(m.alias[ld], not m.virt[d])
                    for n in src:
                        T.add(ld * NN + n)
                if s_undef:
                    T.add(d)
                elif s_ok:
                    for f in [f for f in T if f % NN == s]:
                        T.add(f - s + d)
                else:
                    T.add(ld * NN + d)
        elif k == "usedef":
            keep = frozenset(l for _, l in nd.uses if l is not None)
            for d, ld in nd.defs:
                if m.virt[d] and not nd.uses:
                    remove_name(d)
                    T.add(d)          # undefined-value marker
                else:
                    plain_def(d, ld, keep)
        else:
            for c in nd.clob:
                kill(m.alias[c], True)
            for j, (d, ld) in enumerate(nd.defs):
                if k == "reload" and j == nd.idx:
                    continue
                if j in nd.sd:
                    if ld is not None:
                        kill(m.alias[ld])      # unknown content
                else:
                    plain_def(d, ld)
            if k == "reload":
                d, ld = nd.defs[nd.idx]
                content = self.names_at(T, nd.slot)
                fresh = nd.idx not in nd.sd          # helper temporary: a new value name; stand-in: pure transport
                if fresh:
                    remove_name(d)
                    content.discard(d)
                if ld is not None:
                    kill(m.alias[ld])
                    for n in content:
                        T.add(ld * NN + n)
                    if fresh:
                        T.add(ld * NN + d)
            elif k == "store":
                s, ls = nd.uses[nd.idx]
                content = self.names_at(T, ls) if ls is not None else set()
                kill(m.alias[nd.slot])
                for n in content:
                    T.add(nd.slot * NN + n)
        if self.only is not None:
            only = self.only
            return frozenset(f for f in T if f % NN in only)
        return frozenset(T)

    def entry(self):
        m = self.m
        NN = self.NN
        st = set()
        for n in range(len(m.names)):
            if m.virt[n]:
                st.add(n)
            elif m.home[n] is not None:
                st.add(m.home[n] * NN + n)
        if self.only is not None:
            st = {f for f in st if f % NN in self.only}
        return frozenset(st)


class LiveProblem:
    """backward may-analysis on the reversed graph over final register names"""

    def __init__(self, model):
        self.m = model

    def meet(self, a, b):
        return a | b

    def transfer(self, i, st):
        nd = self.m.nodes[i]
        if nd.kind == "omitted":
            return st
        return (st - frozenset(n for n, _ in nd.fdefs)) | frozenset(n for n, _ in nd.fuses)


class MayDefProblem:
    def __init__(self, model):
        self.m = model

    def meet(self, a, b):
        return a | b

    def transfer(self, i, st):
        nd = self.m.nodes[i]
        if nd.kind == "omitted":
            return st
        if nd.kind == "usedef" and not nd.fuses:
            return st | frozenset(n for n, _ in nd.fdefs if not self.m.virt[n])
        return st | frozenset(n for n, _ in nd.fdefs)


class CopyProblem:
    """forward must-analysis: set of unordered pairs of final names (and slot pseudo names) that surely hold equal values"""

    def __init__(self, model):
        self.m = model
        self.NN = len(model.names) + len(model.locs) + 1

    def meet(self, a, b):
        return a & b

    def pair(self, a, b):
        return (a * self.NN + b) if a < b else (b * self.NN + a)

    def _copy(self, T, d, s):
        NN = self.NN
        T = {p for p in T if p // NN != d and p % NN != d}
        if d != s:
            for p in list(T):
                x, y = p // NN, p % NN
                if x == s:
                    T.add(self.pair(d, y))
                elif y == s:
                    T.add(self.pair(d, x))
            T.add(self.pair(d, s))
        return T

    def transfer(self, i, st):
        m = self.m
        nd = m.nodes[i]
        NN = self.NN
        if nd.kind == "omitted":
            return st
        T = set(st)
        if nd.kind in ("move", "ghost"):
            T = self._copy(T, nd.fdefs[0][0], nd.fuses[0][0])
        else:
            skip = nd.idx if nd.kind == "reload" else -1
            for j, (d, _) in enumerate(nd.fdefs):
                if j != skip:
                    T = {p for p in T if p // NN != d and p % NN != d}
            if nd.kind == "reload":
                T = self._copy(T, nd.fdefs[nd.idx][0], len(m.names) + nd.slot)
            elif nd.kind == "store":
                T = self._copy(T, len(m.names) + nd.slot, nd.fuses[nd.idx][0])
        return frozenset(T)


# =================================================================================================== analysis of one model

def relevant_names(m, name):
    """names from which `name` can receive its value through moves (flow-insensitive closure)"""
    rel = {name}
    changed = True
    while changed:
        changed = False
        for nd in m.nodes:
            if nd.kind in ("move", "ghost") and nd.defs[0][0] in rel and nd.uses[0][0] not in rel:
                rel.add(nd.uses[0][0])
                changed = True
    return frozenset(rel)


def explain(m, path, name, loc):
    """Walk the witness path backwards from the failing read and say why `loc` does not hold `name`.
    -> (mechanism, text)"""
    prefix = ""
    via = []
    fact_loc = loc
    i = len(path) - 1
    while True:
        hit = None
        for j in range(i - 1, -1, -1):
            nd = m.nodes[path[j]]
            if nd.kind == "omitted":
                continue
            al = m.alias[fact_loc]
            k = nd.kind
            if k == "ghost":
                if nd.defs[0][0] == name and nd.uses[0][0] != name:
                    hit = (j, "copy", nd.uses[0][1], nd)
                    break
                continue
            if k == "store" and nd.slot in al:
                hit = (j, "copy" if nd.slot == fact_loc else "kill", nd.uses[nd.idx][1], nd)
                break
            if any(c in al for c in nd.clob):
                hit = (j, "clobber", None, nd)
                break
            written = [(d, ld) for d, ld in nd.defs if ld is not None and ld in al]
            if k == "usedef":
                keep = {l for _, l in nd.uses}
                written = [(d, ld) for d, ld in written if ld == fact_loc or fact_loc not in keep]
            if written:
                d, ld = written[0]
                if k == "move" and ld == fact_loc and (0 in nd.sd or d == name):
                    hit = (j, "copy", nd.uses[0][1], nd)
                elif k == "reload" and ld == fact_loc and nd.defs[nd.idx][1] == ld:
                    hit = (j, "reload", nd.slot, nd)
                elif d == name and ld == fact_loc:
                    hit = (j, "defined-here", None, nd)
                else:
                    hit = (j, "kill", ld, nd)
                break
            if any(d == name for d, _ in nd.defs):
                hit = (j, "redefined", [ld for d, ld in nd.defs if d == name][0], nd)
                break
        if hit is None:
            if m.isslot[fact_loc]:
                return prefix + "slot-never-stored", "%s is never written on this path%s" % (m.locs[fact_loc], "".join(via))
            return prefix + "never-defined-here", "%s never receives %s on this path%s" % (m.locs[fact_loc], m.names[name], "".join(via))
        j, what, other, nd = hit
        where = m.describe(path[j])
        if what == "reload":
            prefix = "spill/"
            via.append("; %s was reloaded from %s by [%s]" % (m.locs[fact_loc], m.locs[other], where))
            fact_loc = other
            i = j
            continue
        if what == "copy":
            if other is None:
                return prefix + "copy-from-uncoloured", "[%s] copies from an uncoloured register%s" % (where, "".join(via))
            via.append("; %s was copied from %s by [%s]" % (m.locs[fact_loc], m.locs[other], where))
            if nd.kind == "store":
                prefix = "spill/"
            fact_loc = other
            i = j
            continue
        if what == "clobber":
            return prefix + "clobber", "%s is clobbered by [%s]%s" % (m.locs[fact_loc], where, "".join(via))
        if what == "kill":
            if m.isslot[fact_loc]:
                return prefix + "slot-overwritten", "%s is overwritten by [%s]%s" % (m.locs[fact_loc], where, "".join(via))
            same = other == fact_loc
            ins = "/spill-code" if nd.inserted else ""
            return (prefix + ("overlap/same" if same else "overlap/alias") + ins,
                    "%s is overwritten by [%s] writing %s%s" % (m.locs[fact_loc], where, m.locs[other], "".join(via)))
        if what == "redefined":
            return (prefix + "stale-location", "%s was last defined into %s by [%s] but is read from %s%s"
                    % (m.names[name], m.locs[other] if other is not None else "?", where, m.locs[fact_loc], "".join(via)))
        # defined-here yet absent: the value was invalidated between; should not happen
        return prefix + "unexplained", "fact lost after [%s]%s" % (where, "".join(via))


def analyse(m, stats=None, want_path=True):
    """-> list of findings (mechanism, what, extra-json) for one model, plus counters dict"""
    from vf import flow
    findings = []
    info = {"reads": 0, "reads_defined": 0, "pairs": 0}
    n = len(m.nodes)
    if n == 0:
        return findings, info
    prob = LocProblem(m)
    entries = {0: prob.entry()}
    IN, OUT = flow.fixpoint(m.succ, entries, prob, stats)
    reported = set()
    for i in range(n):
        st = IN[i]
        nd = m.nodes[i]
        if st is None or nd.kind == "omitted":
            continue
        for j, (name, loc) in enumerate(nd.uses):
            if j in nd.su:
                continue
            info["reads"] += 1
            if loc is None:
                if ("uncoloured", name) not in reported:
                    reported.add(("uncoloured", name))
                    findings.append(("uncoloured", "[%s] reads %s which has no register after allocation" % (m.describe(i), m.names[name]), {"node": i}))
                continue
            if name not in st:
                info["reads_defined"] += 1
            if prob.holds(st, name, loc):
                continue
            if (name, loc) in reported:
                continue
            reported.add((name, loc))
            path = None
            if want_path:
                rel = relevant_names(m, name)
                pp = LocProblem(m, only=rel)
                path = flow.witness_path(m.succ, {0: pp.entry()}, pp, i, lambda s, name=name, loc=loc, pp=pp: not pp.holds(s, name, loc))
            if path is None:
                mech, why = "unexplained", "(no witness path within the search limit)"
            else:
                mech, why = explain(m, path, name, loc)
            held = sorted(m.names[x] for x in prob.names_at(st, loc))
            shown = path if path is None or len(path) <= 12 else "%s...%s (%d nodes)" % (path[:3], path[-6:], len(path))
            findings.append((mech, "[%s] reads %s from %s which holds {%s} on path %s: %s"
                             % (m.describe(i), m.names[name], m.locs[loc], ",".join(held), shown, why), {"node": i, "path": path}))
    # ghost sanity: removed moves must be identities
    for i, nd in enumerate(m.nodes):
        if nd.kind == "omitted" and IN[i] is not None:
            findings.append(("coalesce/removed-instruction", "[%s] was removed from the frame but is not a move between identical registers" % m.describe(i), {"node": i}))
    # ---- direct overlap check with independent liveness
    pred = flow.reverse(m.succ)
    lp = LiveProblem(m)
    LIN, _ = flow.fixpoint(pred, {i: frozenset() for i in range(n)}, lp, stats)   # LIN[i] = live-out of i
    md = MayDefProblem(m)
    MIN, _ = flow.fixpoint(m.succ, {0: frozenset()}, md, stats)
    cp = CopyProblem(m)
    _, COUT = flow.fixpoint(m.succ, {0: frozenset()}, cp, stats)
    for i in range(n):
        nd = m.nodes[i]
        if IN[i] is None or nd.kind in ("omitted", "ghost"):
            continue
        live = LIN[i]
        defined_here = {d for d, _ in nd.fdefs}
        maydef = MIN[i] | defined_here
        keep = {l for _, l in nd.fuses} if nd.kind == "usedef" else ()
        for d, ld in nd.fdefs:
            if ld is None:
                continue
            for v in live:
                if v == d:
                    continue
                lv = m.floc.get(v)
                if lv is None or lv not in m.alias[ld]:
                    continue
                info["pairs"] += 1
                if not m.virt[d] and not m.virt[v]:
                    continue
                if m.virt[v] and v not in maydef:
                    continue
                if lv in keep and lv != ld:
                    continue
                if cp.pair(d, v) in COUT[i]:
                    continue
                key = ("pair", min(d, v), max(d, v))
                if key in reported:
                    continue
                reported.add(key)
                mech = "overlap/same" if lv == ld else "overlap/alias"
                if nd.inserted:
                    mech += "/spill-code"
                findings.append((mech, "[%s] defines %s in %s while %s is live in %s and is not a copy of it"
                                 % (m.describe(i), m.names[d], m.locs[ld], m.names[v], m.locs[lv]), {"node": i, "direct": True}))
        for c in nd.clob:
            for v in live:
                if v in defined_here or not m.virt[v] or v not in maydef:
                    continue
                lv = m.floc.get(v)
                if lv is None or lv not in m.alias[c]:
                    continue
                key = ("clob", v)
                if key in reported:
                    continue
                reported.add(key)
                findings.append(("clobber", "[%s] clobbers %s while %s is live in %s" % (m.describe(i), m.locs[c], m.names[v], m.locs[lv]),
                                 {"node": i, "direct": True}))
    return findings, info


# =================================================================================================== recording

_STATE = {"installed": False, "stack": [], "done": [], "keep": False, "round_cap": None, "lazy_text": False}
ROUND_CAP_TINY = 6
ROUND_CAP_REAL = 8


class RoundCap(Exception):
    """raised by the harness inside alloc_frame when a hand-built frame needs more spill rounds than ROUND_CAP_TINY
    (unallocatable frames double in size every round; ppci gives up only after 30)"""


_ALIAS_CACHE = {}


def _closure(r, universe, down):
    """register r and everything below it (transitively through `aliases`) into universe; down[id] = ids of all descendants"""
    if id(r) in universe:
        return down[id(r)]
    universe[id(r)] = r
    acc = set()
    down[id(r)] = acc
    for a in getattr(r, "aliases", ()) or ():
        acc.add(id(a))
        acc |= _closure(a, universe, down)
    return acc


class Recorder:
    def __init__(self, alloc, frame):
        self.alloc = alloc
        self.arch = alloc.arch
        self.frame = frame
        self.view = {}          # id(ins) -> (ins, uses, defs)
        self.inserted = set()
        self.standins = {}
        self.tags = {}          # id(ins) -> (kind, slot, index)
        self.bad_tags = 0
        self.before_removal = None
        self.ev = {"rounds": 0, "coalesced": 0, "constrained": 0, "frozen": 0, "spilled": 0, "simplify": 0, "coalesce_calls": 0,
                   "freeze": 0, "select_spill": 0, "combine": 0}
        self.error = None
        self.model = None
        self.lazy_text = _STATE["lazy_text"]
        for ins in frame.instructions:
            self.capture(ins)

    def capture(self, ins):
        self.view[id(ins)] = (ins, list(ins.used_registers), list(ins.defined_registers))

    def on_load(self, code, vreg, slot):
        self.standins[id(vreg)] = vreg
        for ins in code:
            self.capture(ins)
            self.inserted.add(id(ins))
        target = vreg
        root = None
        for ins in reversed(code):
            defs = self.view[id(ins)][2]
            if any(r is target for r in defs):
                uses = self.view[id(ins)][1]
                if ins.ismove and len(uses) == 1 and len(defs) == 1:
                    target = uses[0]
                    continue
                root = (ins, [j for j, r in enumerate(defs) if r is target][0])
                break
        if root is None:
            self.bad_tags += 1
        else:
            self.tags[id(root[0])] = ("reload", slot, root[1])

    def on_store(self, code, vreg, slot):
        self.standins[id(vreg)] = vreg
        for ins in code:
            self.capture(ins)
            self.inserted.add(id(ins))
        group = [vreg]
        found = None
        for ins in code:
            uses, defs = self.view[id(ins)][1], self.view[id(ins)][2]
            hit = [j for j, r in enumerate(uses) if any(r is g for g in group)]
            if not hit:
                continue
            if ins.ismove and len(uses) == 1 and len(defs) == 1:
                group.append(defs[0])
            else:
                found = (ins, hit[0])
        if found is None:
            self.bad_tags += 1
        else:
            self.tags[id(found[0])] = ("store", slot, found[1])

    # ---------------------------------------------------------------- model construction
    def build(self):
        from ppci.arch.generic_instructions import RegisterUseDef
        arch = self.arch
        m = Model(arch.name if isinstance(getattr(arch, "name", None), str) else type(arch).__name__)
        final = list(self.frame.instructions)
        L = self.before_removal if self.before_removal is not None else final
        final_ids = {id(x) for x in final}
        if [id(x) for x in L if id(x) in final_ids] != [id(x) for x in final]:
            m.anomalies.append("final instruction list is not a sub-sequence of the list before remove_redundant_moves")
            L = final
        name_ix = {}
        loc_ix = {}
        keepalive = []

        def loc_of_phys(r):
            k = id(r)
            if k not in loc_ix:
                loc_ix[k] = len(m.locs)
                nm = r.name
                if nm in m.locs:
                    nm = "%s.%s" % (r.name, type(r).__name__)
                m.locs.append(nm)
                m.isslot.append(False)
                keepalive.append(r)
                self._phys.append(r)
            return loc_ix[k]

        self._phys = []

        def name_of(r):
            k = id(r)
            if k not in name_ix:
                name_ix[k] = len(m.names)
                virt = r._num is None
                m.names.append(r.name)
                m.virt.append(virt)
                m.home.append(None if virt else loc_of_phys(r))
                keepalive.append(r)
            return name_ix[k]

        def final_loc(r):
            if r._num is not None:
                return loc_of_phys(r)
            if r.color is None:
                return None
            try:
                p = type(r).from_num(r.color)
            except NotImplementedError:
                p = by_num(r)
            except Exception:  # noqa
                return None
            if p is None:
                return None
            return loc_of_phys(p)

        bynum_cache = {}

        def by_num(r):
            """targets without from_num (riscv, stm8): the register of r's class hierarchy whose number is r's colour"""
            key = (type(r), r.color)
            if key not in bynum_cache:
                cands = []
                for rc in arch.info.register_classes:
                    for c in rc.registers or []:
                        if c._num == r.color and (isinstance(c, type(r)) or isinstance(r, type(c))) and c not in cands:
                            cands.append(c)
                exact = [c for c in cands if type(c) is type(r)]
                pick = exact or cands
                bynum_cache[key] = pick[0] if len(pick) == 1 else None
            return bynum_cache[key]

        slot_ix = {}
        slots = []

        def loc_of_slot(s):
            k = id(s)
            if k not in slot_ix:
                slot_ix[k] = len(m.locs)
                m.locs.append("slot[%d:%d]" % (s.offset, s.size))
                m.isslot.append(True)
                slots.append((slot_ix[k], s.offset, s.size))
                keepalive.append(s)
            return slot_ix[k]

        index = {id(ins): i for i, ins in enumerate(L)}
        for i, ins in enumerate(L):
            nd = Node()
            m.nodes.append(nd)
            nd.text = ins if self.lazy_text else ins_text(ins)
            nd.inserted = id(ins) in self.inserted
            fu, fd = list(ins.used_registers), list(ins.defined_registers)
            if id(ins) in self.view:
                _, nu, ndf = self.view[id(ins)]
            else:
                m.anomalies.append("instruction %r appeared without passing through MiniGen" % ins_text(ins))
                nu, ndf = fu, fd
            if len(nu) != len(fu) or len(ndf) != len(fd):
                m.anomalies.append("operand count of %r changed during allocation" % ins_text(ins))
                nu, ndf = fu, fd
            if nd.inserted:
                nd.su = frozenset(j for j, r in enumerate(nu) if id(r) in self.standins)
                nd.sd = frozenset(j for j, r in enumerate(ndf) if id(r) in self.standins)
            nd.uses = [(name_of(a), final_loc(b)) for a, b in zip(nu, fu)]
            nd.defs = [(name_of(a), final_loc(b)) for a, b in zip(ndf, fd)]
            nd.fuses = [(name_of(b), final_loc(b)) for b in fu]
            nd.fdefs = [(name_of(b), final_loc(b)) for b in fd]
            for b, l in nd.fuses + nd.fdefs:
                m.floc[b] = l
            nd.clob = [loc_of_phys(c) for c in ins.clobbers]
            removed = id(ins) not in final_ids
            is_move = bool(ins.ismove) and len(fu) == 1 and len(fd) == 1
            if removed:
                if is_move and nd.uses[0][1] is not None and nd.uses[0][1] == nd.defs[0][1]:
                    nd.kind = "ghost"
                else:
                    nd.kind = "omitted"
            elif id(ins) in self.tags:
                kind, slot, idx = self.tags[id(ins)]
                nd.kind, nd.slot, nd.idx = kind, loc_of_slot(slot), idx
                if (kind == "reload" and idx >= len(nd.defs)) or (kind == "store" and idx >= len(nd.uses)):
                    m.anomalies.append("spill tag does not fit %r" % ins_text(ins))
                    nd.kind = "op"
            elif isinstance(ins, RegisterUseDef):
                nd.kind = "usedef"
            elif is_move:
                nd.kind = "move"
            if ins.jumps:
                ss = []
                for j in ins.jumps:
                    if id(j) in index:
                        ss.append(index[id(j)])
                    else:
                        m.anomalies.append("jump target of %r is not in the frame" % ins_text(ins))
                m.succ.append(sorted(set(ss)))
            else:
                m.succ.append([i + 1] if i + 1 < len(L) else [])
        # alias closure over `aliases` attributes (descendants and ancestors); the class registers are cached per arch
        cache = _ALIAS_CACHE.get(id(arch))
        if cache is None:
            cache = (arch, {}, {})
            _ALIAS_CACHE[id(arch)] = cache
            for rc in arch.info.register_classes:
                for r in rc.registers or []:
                    _closure(r, cache[1], cache[2])
        universe, down = cache[1], cache[2]
        for r in self._phys:
            if id(r) not in universe:
                _closure(r, universe, down)
        al = [set([i]) for i in range(len(m.locs))]
        for k, li in loc_ix.items():
            for d in down[k]:
                if d in loc_ix:
                    al[li].add(loc_ix[d])
                    al[loc_ix[d]].add(li)
        for a, oa, sa in slots:
            for b, ob, sb in slots:
                if a != b and oa < ob + sb and ob < oa + sa:
                    al[a].add(b)
        m.alias = [frozenset(s) for s in al]
        for nm, h in enumerate(m.home):
            if h is not None:
                m.physhome.setdefault(h, []).append(nm)
        m.events = dict(self.ev)
        m.events["bad_tags"] = self.bad_tags
        m.events["inserted"] = len(self.inserted)
        m.events["ghosts"] = sum(1 for nd in m.nodes if nd.kind == "ghost")
        self._keepalive = keepalive
        return m


def install():
    """Monkeypatch the allocator and the spill-code generator (idempotent, process-wide, no repo change)."""
    if _STATE["installed"]:
        return
    from ppci.codegen import registerallocator as ra
    A = ra.GraphColoringRegisterAllocator
    G = ra.MiniGen
    orig_alloc = A.alloc_frame
    orig_load = G.gen_load
    orig_store = G.gen_store
    orig_remove = A.remove_redundant_moves
    orig_assign = A.assign_colors

    def cur():
        return _STATE["stack"][-1] if _STATE["stack"] else None

    def alloc_frame(self, frame):
        if not _STATE["keep"]:
            return orig_alloc(self, frame)
        rec = Recorder(self, frame)
        _STATE["stack"].append(rec)
        try:
            orig_alloc(self, frame)
        except Exception as ex:  # noqa
            rec.error = ex
            _STATE["done"].append(rec)
            raise
        finally:
            _STATE["stack"].pop()
        try:
            rec.model = rec.build()
        except Exception as ex:  # noqa
            rec.error = ex
            rec.build_failed = True
        _STATE["done"].append(rec)

    def gen_load(self, frame, vreg, slot):
        code = orig_load(self, frame, vreg, slot)
        r = cur()
        if r is not None:
            code = list(code)
            r.on_load(code, vreg, slot)
        return code

    def gen_store(self, frame, vreg, slot):
        code = orig_store(self, frame, vreg, slot)
        r = cur()
        if r is not None:
            code = list(code)
            r.on_store(code, vreg, slot)
        return code

    def remove_redundant_moves(self):
        r = cur()
        if r is not None:
            r.before_removal = list(self.frame.instructions)
        return orig_remove(self)

    def assign_colors(self):
        spilled = orig_assign(self)
        r = cur()
        if r is not None:
            r.ev["rounds"] += 1
            r.ev["coalesced"] += len(self.coalescedMoves)
            r.ev["constrained"] += len(self.constrainedMoves)
            r.ev["frozen"] += len(self.frozenMoves)
            r.ev["spilled"] += len(spilled)
            cap = _STATE["round_cap"]
            if cap is not None and spilled and r.ev["rounds"] > cap:
                raise RoundCap()
        return spilled

    def counted(name, orig):
        def f(self, *a, **k):
            r = cur()
            if r is not None:
                r.ev[name] += 1
            return orig(self, *a, **k)
        return f

    A.alloc_frame = alloc_frame
    A.remove_redundant_moves = remove_redundant_moves
    A.assign_colors = assign_colors
    A.simplify = counted("simplify", A.simplify)
    A.coalesc = counted("coalesce_calls", A.coalesc)
    A.freeze = counted("freeze", A.freeze)
    A.select_spill = counted("select_spill", A.select_spill)
    A.combine = counted("combine", A.combine)
    G.gen_load = gen_load
    G.gen_store = gen_store
    _STATE["installed"] = True


def record(fn, round_cap=None, lazy_text=False):
    """Run fn() with recording switched on; -> (result or exception, [Recorder])"""
    install()
    _STATE["lazy_text"] = lazy_text
    _STATE["done"] = []
    _STATE["keep"] = True
    _STATE["round_cap"] = round_cap
    try:
        try:
            res = fn()
        except Exception as ex:  # noqa
            res = ex
    finally:
        _STATE["keep"] = False
    recs = _STATE["done"]
    _STATE["done"] = []
    return res, recs


# =================================================================================================== tiny frames

_TINY = {}


def tiny_env(k):
    """(arch with k allocatable registers, instruction classes, stub selector) for the hand-built example target"""
    if k in _TINY:
        return _TINY[k]
    from ppci import ir
    from ppci.arch import example as ex
    from ppci.arch.arch_info import ArchInfo
    from ppci.arch.registers import RegisterClass
    from ppci.arch.encoding import Operand, Syntax
    if "cls" not in _TINY:
        class SlotLoad(ex.ExampleInstruction):
            rd = Operand("rd", ex.ExampleRegister, write=True)
            syntax = Syntax(["slotload", " ", rd])

        class SlotLoadH(ex.ExampleInstruction):
            rd = Operand("rd", ex.HalfExampleRegister, write=True)
            syntax = Syntax(["slotloadh", " ", rd])

        class SlotStore(ex.ExampleInstruction):
            rn = Operand("rn", ex.ExampleRegister, read=True)
            syntax = Syntax(["slotstore", " ", rn])

        class SlotStoreH(ex.ExampleInstruction):
            rn = Operand("rn", ex.HalfExampleRegister, read=True)
            syntax = Syntax(["slotstoreh", " ", rn])

        class Bcc(ex.ExampleInstruction):
            syntax = Syntax(["bcc"])

        class Call(ex.ExampleInstruction):
            syntax = Syntax(["call"])

        class Jmp(ex.ExampleInstruction):
            syntax = Syntax(["jmp"])

        class Stub:
            """answers MiniGen's MOVxx(LDRxx(FPRELUxx)) / STRxx(FPRELUxx, REGxx) trees"""

            def gen_tree(self, ctx, tree):
                if tree.name.startswith("MOV"):
                    r = tree.value
                    ctx.emit((SlotLoadH if isinstance(r, ex.HalfExampleRegister) else SlotLoad)(r))
                elif tree.name.startswith("STR"):
                    r = tree.children[1].value
                    ctx.emit((SlotStoreH if isinstance(r, ex.HalfExampleRegister) else SlotStore)(r))
                else:
                    raise NotImplementedError(tree.name)

        _TINY["cls"] = {"Bcc": Bcc, "Call": Call, "Jmp": Jmp, "Stub": Stub}
    regs = {2: [ex.R0, ex.R10], 3: [ex.R0, ex.R1, ex.R10], 5: [ex.R0, ex.R1, ex.R2, ex.R3, ex.R10]}[k]

    class TinyArch(ex.ExampleArch):
        name = "example"

        def __init__(self):
            super().__init__()
            self.info = ArchInfo(type_infos=self.info.type_infos, register_classes=[
                RegisterClass("reg", [ir.i32, ir.ptr], ex.ExampleRegister, regs),
                RegisterClass("hreg", [ir.i16], ex.HalfExampleRegister, [ex.R10l])])

    from ppci.codegen.registerallocator import GraphColoringRegisterAllocator
    arch, stub = TinyArch(), _TINY["cls"]["Stub"]()
    # one allocator per configuration, reused for every frame like CodeGenerator does (a fresh allocator per frame would
    # also never be freed: its lru_cache'd methods keep every instance alive)
    _TINY[k] = (arch, _TINY["cls"], GraphColoringRegisterAllocator(arch, stub, None))
    return _TINY[k]


def build_tiny(prog, k):
    """prog: list of tokens (lists) -> (allocator, frame).  Tokens:
    def x | use x | add d a b | mov d s | cmp a b | use3 a b c | defh h | useh h | jc t | call R.. | xuse R | xdef R | und v
    register operands: v<n> virtual, h<n> virtual half, R0 R1 R10 physical, R10l physical half."""
    from ppci.arch import example as ex
    from ppci.arch.stack import Frame
    from ppci.arch.generic_instructions import Label, RegisterUseDef
    arch, cls, alloc = tiny_env(k)
    regs = {"R0": ex.R0, "R1": ex.R1, "R10": ex.R10, "R10l": ex.R10l}

    def reg(nm):
        if nm not in regs:
            regs[nm] = (ex.HalfExampleRegister if nm[0] == "h" else ex.ExampleRegister)(nm)
        return regs[nm]

    n = len(prog)
    targets = {t[1] for t in prog if t[0] == "jc"}
    after = {i + 1 for i, t in enumerate(prog) if t[0] == "jc"}
    labels = {p: Label("L%d" % p) for p in sorted(targets | after)}
    frame = Frame("tiny")
    # spill temporaries must not collide with the v<n>/h<n> names
    frame.temps = ("t%d" % i for i in itertools.count())

    def put_label(lab):
        # ppci's frame convention (FlowGraph): a label is entered by explicit jumps only, every block ends with a jump
        if frame.instructions and not frame.instructions[-1].jumps:
            frame.instructions.append(cls["Jmp"](jumps=[lab]))
        frame.instructions.append(lab)

    for i, t in enumerate(prog):
        if i in labels:
            put_label(labels[i])
        op = t[0]
        if op == "def":
            ins = ex.Def(reg(t[1]))
        elif op == "use":
            ins = ex.Use(reg(t[1]))
        elif op == "add":
            ins = ex.Add(reg(t[1]), reg(t[2]), reg(t[3]))
        elif op == "mov":
            ins = ex.Mov(reg(t[1]), reg(t[2]), ismove=True)
        elif op == "cmp":
            ins = ex.Cmp(reg(t[1]), reg(t[2]))
        elif op == "use3":
            ins = ex.Use3(reg(t[1]), reg(t[2]), reg(t[3]))
        elif op == "defh":
            ins = ex.DefHalf(reg(t[1]))
        elif op == "useh":
            ins = ex.UseHalf(reg(t[1]))
        elif op == "jc":
            ins = cls["Bcc"](jumps=[labels[t[1]], labels[i + 1]])
        elif op == "call":
            ins = cls["Call"](clobbers=[reg(x) for x in t[1:]])
        elif op == "xuse":
            ins = RegisterUseDef(uses=[reg(x) for x in t[1:]])
        elif op == "xdef":
            ins = RegisterUseDef(defs=[reg(x) for x in t[1:]])
        elif op == "und":
            ins = RegisterUseDef(defs=[reg(t[1])])
        else:
            raise ValueError(op)
        frame.instructions.append(ins)
    if n in labels:
        put_label(labels[n])
    return alloc, frame


def run_tiny(p, prog, k, stats, want_path=True):
    """allocate one tiny frame and judge it; -> list of (key, what)"""
    from vf.core import cpu_limit, CpuTimeout, exc_key
    p.add()
    out = []
    w = {"kind": "tiny", "k": k, "prog": [list(t) for t in prog]}
    alloc, frame = build_tiny(prog, k)
    try:
        with cpu_limit(CPU_TINY):
            res, recs = record(lambda: alloc.alloc_frame(frame), round_cap=ROUND_CAP_TINY, lazy_text=True)
    except CpuTimeout:
        p.count("tiny_cpu_timeouts")
        return out
    if isinstance(res, RoundCap):
        p.count("tiny_unjudged_more_than_%d_spill_rounds" % ROUND_CAP_TINY)
        return out
    if isinstance(res, Exception):
        p.count("tiny_alloc_raises")
        p.collect("tiny_alloc_errors", exc_key("example", res))
        return out
    rec = recs[0]
    if rec.model is None:
        raise rec.error
    judge(p, rec.model, w, stats, out, want_path)
    return out


def judge(p, m, witness, stats, out, want_path=True):
    if m.anomalies:
        p.count("frames_with_anomalies")
        p.collect("anomalies", "%s: %s" % (m.arch, m.anomalies[0][:100]))
    ev = m.events
    if ev.get("bad_tags"):
        # a spill sequence whose transferring instruction could not be identified: cannot be interpreted, never a violation
        p.count("frames_unjudged_spill_code_not_understood")
        p.collect("unjudged", m.arch)
        return []
    findings, info = analyse(m, stats, want_path)
    p.count("frames_checked")
    p.count("reads_checked", info["reads"])
    p.count("reads_of_defined_values", info["reads_defined"])
    p.count("overlapping_live_pairs_examined", info["pairs"])
    for k in ("coalesced", "constrained", "frozen", "spilled", "simplify", "freeze", "select_spill", "combine", "ghosts", "inserted", "bad_tags"):
        if ev.get(k):
            p.count("irc_" + k, ev[k])
    if ev["rounds"] > 1:
        p.count("frames_with_spill_rounds")
        p.collect("spill_rounds_seen", ev["rounds"] - 1)
    if ev["spilled"] and ev["rounds"] > 2:
        p.count("frames_with_several_spill_rounds")
    for mech, what, extra in findings:
        key = "%s/%s" % (m.arch, mech)
        out.append((key, what))
        p.violation(key, what, witness)
    if info["reads_defined"]:
        colouring = tuple(sorted({(m.locs[l] if l is not None else "-") for l in m.floc.values()}))
        p.outcome((m.arch, ev["coalesced"], ev["constrained"], ev["frozen"], ev["spilled"], ev["rounds"], colouring, len(m.nodes)))
    return findings


# ---------------------------------------------------------------------------------------- enumeration of tiny programs

FAMILIES = {
    # name: (k, token schemas)   operand classes: V any known vreg, D known or one new vreg, H/E same for half registers,
    #                            a literal physical register name, T jump target
    "core": (3, [("def", "D"), ("use", "V"), ("add", "D", "V", "V"), ("mov", "D", "V"), ("cmp", "V", "V"), ("use3", "V", "V", "V"), ("jc", "T")]),
    "pre": (3, [("def", "D"), ("use", "V"), ("mov", "D", "V"), ("add", "D", "V", "V"), ("def", "R0"), ("use", "R0"), ("def", "R1"), ("use", "R1"),
                ("mov", "D", "R0"), ("mov", "R0", "V"), ("mov", "R1", "V"), ("mov", "R1", "R0"), ("call", "R0"), ("call", "R0", "R1"), ("jc", "T")]),
    "alias": (3, [("def", "D"), ("use", "V"), ("mov", "D", "V"), ("defh", "E"), ("useh", "H"), ("def", "R10"), ("use", "R10"), ("defh", "R10l"),
                  ("useh", "R10l"), ("mov", "D", "R10"), ("mov", "R10", "V"), ("call", "R10"), ("call", "R0"), ("jc", "T")]),
    "usedef": (3, [("def", "D"), ("use", "V"), ("mov", "D", "V"), ("cmp", "V", "V"), ("xdef", "R0"), ("xuse", "R0"), ("xdef", "R10l"), ("xuse", "R10"),
                   ("und", "D"), ("mov", "D", "R0"), ("mov", "R0", "V"), ("defh", "E"), ("useh", "H"), ("jc", "T")]),
    "lean": (3, [("def", "D"), ("use", "V"), ("mov", "D", "V"), ("use3", "V", "V", "V"), ("jc", "T")]),
    "k2": (2, [("def", "D"), ("use", "V"), ("add", "D", "V", "V"), ("mov", "D", "V"), ("cmp", "V", "V"), ("def", "R0"), ("use", "R0"), ("mov", "D", "R0"),
               ("mov", "R0", "V"), ("defh", "E"), ("useh", "H"), ("call", "R0"), ("jc", "T")]),
    "k5": (5, [("def", "D"), ("use", "V"), ("add", "D", "V", "V"), ("mov", "D", "V"), ("use3", "V", "V", "V"), ("def", "R0"), ("use", "R0"),
               ("mov", "D", "R0"), ("mov", "R0", "V"), ("defh", "E"), ("useh", "H"), ("call", "R0", "R1"), ("jc", "T")]),
}
COMMUTATIVE = {"cmp": (1, 2), "use3": (1, 2, 3), "add": (2, 3)}
MAXV = 7


def enum_family(fam, length, max_jumps=1, prefix=(), upto=None):
    """All programs of exactly `length` tokens of family `fam` that start with `prefix`; virtual registers are named in
    order of first definition, sources of commutative instructions are in non-decreasing order, at most `max_jumps`
    conditional jumps.  Programs in which no virtual register is ever read are skipped (nothing to judge).
    With `upto` the distinct prefixes of that many tokens are returned instead (work units)."""
    k, schemas = FAMILIES[fam]
    out = []
    stop = length if upto is None else min(upto, length)

    def operands(schema, j, nv, nh, cur, nv0=None, nh0=None):
        """yield (operand tuple, nv, nh); sources are registers known before this instruction"""
        if nv0 is None:
            nv0, nh0 = nv, nh
        if j == len(schema):
            yield tuple(cur), nv, nh
            return
        c = schema[j]
        if c in ("V", "D"):
            pool = ["v%d" % x for x in range(nv0 if c == "V" else nv)]
            if c == "D" and nv + nh < MAXV:
                pool.append("v%d" % nv)
            comm = COMMUTATIVE.get(schema[0], ())
            for x in pool:
                if j in comm and j - 1 in comm and int(x[1:]) < int(cur[-1][1:]):
                    continue
                nv2 = nv + 1 if x == "v%d" % nv else nv
                yield from operands(schema, j + 1, nv2, nh, cur + [x], nv0, nh0)
        elif c in ("H", "E"):
            pool = ["h%d" % x for x in range(nh0 if c == "H" else nh)]
            if c == "E" and nv + nh < MAXV:
                pool.append("h%d" % nh)
            for x in pool:
                nh2 = nh + 1 if x == "h%d" % nh else nh
                yield from operands(schema, j + 1, nv, nh2, cur + [x], nv0, nh0)
        elif c == "T":
            for t in range(length + 1):
                yield from operands(schema, j + 1, nv, nh, cur + [t], nv0, nh0)
        else:
            yield from operands(schema, j + 1, nv, nh, cur + [c], nv0, nh0)

    def rec(pos, nv, nh, prog, jumps, reads):
        if pos == stop:
            if reads or upto is not None:
                out.append(tuple(prog))
            return
        for schema in schemas:
            if schema[0] == "jc" and jumps >= max_jumps:
                continue
            if pos < len(prefix) and prefix[pos][0] != schema[0]:
                continue
            for ops, nv2, nh2 in operands(schema, 1, nv, nh, []):
                tok = (schema[0],) + ops
                if pos < len(prefix) and tok != prefix[pos]:
                    continue
                r = reads or any(c in ("V", "H") for c in schema[1:])
                rec(pos + 1, nv2, nh2, prog + [tok], jumps + (schema[0] == "jc"), r)

    rec(0, 0, 0, [], 0, False)
    return out


def tiny_worker(p, shard):
    from vf import flow
    stats = flow.Stats()
    for fam, prefix, length in shard:
        k = FAMILIES[fam][0]
        progs = enum_family(fam, length, prefix=prefix)
        p.count("tiny_%s_len%d" % (fam, length), len(progs))
        for prog in progs:
            run_tiny(p, prog, k, stats, want_path=True)
    p.count("k4_states", stats.states)
    p.count("k4_transfers", stats.transfers)


# =================================================================================================== real targets

PRESSURE = [
    ("press12", "int f(int a,int b){int v0=a+1,v1=b+2,v2=a*3,v3=b*5,v4=a-b,v5=a^b,v6=a&b,v7=a|b,v8=a+b,v9=a*b,v10=a-7,v11=b-9;"
                " int s=v0*v1+v2*v3+v4*v5+v6*v7+v8*v9+v10*v11; return s+(v0^v1^v2^v3^v4^v5^v6^v7^v8^v9^v10^v11);}"),
    ("press12_call", "int ext(int); int f(int a,int b){int v0=a+1,v1=b+2,v2=a*3,v3=b*5,v4=a-b,v5=a^b,v6=a&b,v7=a|b,v8=a+b,v9=a*b,v10=a-7,v11=b-9;"
                     " int r=ext(v0+v1); return r+v0+v1*2+v2*3+v3*4+v4*5+v5*6+v6*7+v7*8+v8*9+v9*10+v10*11+v11*12;}"),
    ("press_loop", "int ext(int); int f(int a,int b){int v0=a+1,v1=b+2,v2=a*3,v3=b*5,v4=a-b,v5=a^b,v6=a&b,v7=a|b; int s=0;"
                   " for(int i=0;i<(a&7);i++){ s+=v0*i+v1; s^=v2+v3*i; s+=ext(v4+i)+v5; s-=v6*v7+i; v0+=v7; v3^=s; } return s+v0+v1+v2+v3+v4+v5+v6+v7;}"),
    ("press_mixed", "int f(int a,int b){signed char c0=(signed char)a, c1=(signed char)(b+1); unsigned char u0=(unsigned char)(a*3); short s0=(short)(a-b),"
                    " s1=(short)(a*b); unsigned short w0=(unsigned short)(a^b); long long q0=a, q1=b; q0=q0*q1+c0; q1=q1-s0+u0; int i0=a+b, i1=a-b*2;"
                    " return (int)(q0^q1)+c0*c1+u0+s0*s1+w0+i0*i1+(int)(q0>>32)+c1;}"),
    ("press_mixed_call", "int ext(int); int f(int a,int b){signed char c0=(signed char)a; unsigned char u0=(unsigned char)(b*3); short s0=(short)(a-b);"
                         " long long q0=a; q0=q0*b+c0; int i0=a+b, i1=a-b*2, i2=a*b; int r=ext(i0); unsigned short w0=(unsigned short)(a^r);"
                         " return (int)q0+c0+u0+s0+w0+i0*i1+i2+r+(int)(q0>>32);}"),
    ("press_ptr", "int t[16]; int f(int a,int b){int *p0=t+(a&3),*p1=t+(b&3),*p2=t+4,*p3=t+8; int x0=*p0,x1=*p1,x2=*p2,x3=*p3; *p0=x1+a; *p1=x2+b; *p2=x3+x0;"
                  " *p3=x0*x1; return x0+x1*2+x2*3+x3*4+*p0+*p1+*p2+*p3+a*b;}"),
    ("press_div", "int f(int a,int b){int d=(b&15)+1; int v0=a/d, v1=a%d, v2=(a+3)/d, v3=(a+5)%d, v4=a*d, v5=a-d, v6=a^d; return v0+v1*2+v2*3+v3*4+v4*5+v5*6+v6*7;}"),
    ("press_float", "int f(int a,int b){double d0=a, d1=b, d2=a*0.5, d3=b*0.25, d4=d0+d1, d5=d0-d1, d6=d2*d3, d7=d0*d1+1.0, d8=d2-d3; "
                    "double s=d0*d1+d2*d3+d4*d5+d6*d7+d8; return (int)s + (int)(d4+d5+d6+d7+d8);}"),
]


def real_sources():
    from vf.gen import ccorpus
    return list(ccorpus.CORPUS) + PRESSURE


def compile_real(target, src, level):
    """-> (result or exception, [Recorder])"""
    from ppci.api import cc, get_arch

    def go():
        import contextlib
        with contextlib.redirect_stdout(io.StringIO()), contextlib.redirect_stderr(io.StringIO()):     # the C front end prints warnings
            return cc(io.StringIO(src), get_arch(target), opt_level=level)
    return record(go, round_cap=ROUND_CAP_REAL)


def run_real(p, target, name, level, stats, want_path=True):
    from vf.core import cpu_limit, CpuTimeout, exc_key
    w = {"kind": "real", "target": target, "name": name, "level": level}
    out = []
    try:
        with cpu_limit(CPU_IR if level == "ir" else CPU_REAL):
            if level == "ir":
                res, recs = compile_ir(target, name)
            else:
                res, recs = compile_real(target, dict(real_sources())[name], level)
    except CpuTimeout:
        p.count("real_cpu_timeouts")
        p.collect("real_timeouts", "%s/%s/O%s" % (target, name, level))
        return out
    if isinstance(res, RoundCap):
        p.count("real_unjudged_more_than_%d_spill_rounds" % ROUND_CAP_REAL)
        p.collect("real_round_cap", "%s/%s" % (target, name))
    elif isinstance(res, Exception):
        p.count("real_compile_fails")
        p.collect("real_compile_errors", "%s: %s" % (target, exc_key("cc", res)))
    for rec in recs:
        p.add()
        if rec.model is None:
            if getattr(rec, "build_failed", False):
                raise rec.error
            p.count("real_alloc_raises")
            continue
        m = rec.model
        m.arch = target.replace(":", "-")
        p.collect("targets_with_checked_frames", target)
        p.count("frames_" + target.replace(":", "_"))
        judge(p, m, dict(w, frame=rec.frame.name), stats, out, want_path)
    return out


# ---- IR-level register-pressure modules (reach targets / value types the C front end cannot: avr, stm8, m68k; 8/16-bit values)

IR_OPS = ["+", "-", "^", "|", "&"]


def ir_case_names(types):
    """names of the IR pressure cases for a target that supports the integer value types `types`"""
    names = []
    for ty in types:
        for n in (6, 12):
            for variant in ("plain", "call", "loop"):
                names.append("press/%s/%d/%s" % (ty, n, variant))
    for a in types:
        for b in types:
            if a != b:
                names.append("mixed/%s/%s/5/plain" % (a, b))
                names.append("mixed/%s/%s/5/call" % (a, b))
    return names


_OPS_CACHE = {}


def usable_ops(target, ty):
    """the operators of IR_OPS for which the target can select `ty` binops at all (probed with one-instruction functions,
    recording off); a deterministic function of the tree under test"""
    key = (target, ty)
    if key not in _OPS_CACHE:
        import contextlib
        from ppci.api import get_arch, ir_to_object
        from vf.gen import irgen
        ok = []
        for op in IR_OPS:
            d = {"name": "m", "functions": [{"name": "f", "ret": ty, "params": [ty, ty], "blocks": [[["bin", op, "p0", "p1", ty], ["bin", op, "%0", "p0", ty],
                                                                                                    ["bin", op, "%1", "%0", ty], ["ret", "%2"]]]}]}
            try:
                with contextlib.redirect_stdout(io.StringIO()), contextlib.redirect_stderr(io.StringIO()):
                    ir_to_object([irgen.build(d)], get_arch(target))
                ok.append(op)
            except Exception:  # noqa
                pass
        _OPS_CACHE[key] = ok
    return _OPS_CACHE[key]


def ir_case(name, target=None):
    """description (vf/gen/irgen.py format) of one IR pressure case"""
    parts = name.split("/")
    body = []
    nv = [0]

    def emit(ins):
        body.append(ins)
        nv[0] += 1
        return "%%%d" % (nv[0] - 1)

    def values(ty, n, x, y):
        vs = []
        for k in range(n):
            a = x if k < 3 else vs[k - 3]
            b = y if k % 2 == 0 else x
            ops = (usable_ops(target, ty) if target else IR_OPS) or IR_OPS
            vs.append(emit(["bin", ops[k % len(ops)], a, b, ty]))
        return vs

    def fold(ty, vs):
        acc = vs[0]
        for k, v in enumerate(vs[1:]):
            ops = (usable_ops(target, ty) if target else IR_OPS) or IR_OPS
            acc = emit(["bin", ops[(k + 1) % len(ops)], acc, v, ty])
        return acc

    if parts[0] == "press":
        ty, n, variant = parts[1], int(parts[2]), parts[3]
        ext = [["ext", [ty], ty]]
        if variant == "loop":
            # b0: define n values; b1: loop keeping them live, calling ext each round; b2: fold
            vs = values(ty, n, "p0", "p1")
            b0 = body + [["jmp", 1]]
            body = []
            i = emit(["phi", ty, None])
            acc = emit(["phi", ty, None])
            c = emit(["call", "@ext", [acc], ty])
            acc2 = emit(["bin", "+", c, vs[0], ty])
            acc3 = emit(["bin", "^", acc2, vs[n - 1], ty])
            i2 = emit(["bin", "-", i, vs[1], ty])
            b1 = body + [["cjmp", i2, "==", "p1", 2, 1]]
            b1[0][2] = [[0, "p0"], [1, i2]]
            b1[1][2] = [[0, "p1"], [1, acc3]]
            body = []
            r = fold(ty, vs + [acc3])
            b2 = body + [["ret", r]]
            blocks = [b0, b1, b2]
        else:
            vs = values(ty, n, "p0", "p1")
            if variant == "call":
                vs.append(emit(["call", "@ext", [vs[0]], ty]))
            r = fold(ty, vs)
            blocks = [body + [["ret", r]]]
        return {"name": "m", "externals": ext, "functions": [{"name": "f", "ret": ty, "params": [ty, ty], "blocks": blocks}]}
    ta, tb, n, variant = parts[1], parts[2], int(parts[3]), parts[4]
    ext = [["ext", [ta], ta]]
    va = values(ta, n, "p0", "p0")
    vb = values(tb, n, "p1", "p1")
    cross = [emit(["cast", tb, va[0]]), emit(["cast", tb, va[1]])]
    back = [emit(["cast", ta, vb[0]]), emit(["cast", ta, vb[1]])]
    if variant == "call":
        va.append(emit(["call", "@ext", [va[2]], ta]))
    ra = fold(ta, va + back)
    rb = fold(tb, vb + cross)
    r = emit(["bin", "+", ra, emit(["cast", ta, rb]), ta])
    return {"name": "m", "externals": ext, "functions": [{"name": "f", "ret": ta, "params": [ta, tb], "blocks": [body + [["ret", r]]]}]}


def target_int_types(target):
    from ppci import ir
    from ppci.api import get_arch
    from vf.gen import irgen
    arch = get_arch(target)
    out = []
    for name in irgen.INT_TYPES:
        ty = ir.get_ty(name)
        if ty in arch.info.value_classes and ty in arch.info.type_infos:
            out.append(name)
    return out


def compile_ir(target, name):
    from ppci.api import get_arch, ir_to_object
    from vf.gen import irgen

    desc = ir_case(name, target)       # probes the usable operators (recording off)

    def go():
        import contextlib
        m = irgen.build(desc)
        with contextlib.redirect_stdout(io.StringIO()), contextlib.redirect_stderr(io.StringIO()):
            return ir_to_object([m], get_arch(target))
    return record(go, round_cap=ROUND_CAP_REAL)


def real_worker(p, shard):
    from vf import flow
    stats = flow.Stats()
    for target, name, level in shard:
        run_real(p, target, name, level, stats)
    p.count("k4_states", stats.states)
    p.count("k4_transfers", stats.transfers)


# =================================================================================================== entry points

def tiny_plan(ctx):
    """[(family, length)] explored completely in this tier"""
    if ctx.quick:
        return [("core", 5), ("pre", 4), ("alias", 4), ("usedef", 4), ("k2", 4), ("k5", 3)]
    return [("core", 5), ("lean", 6), ("pre", 5), ("alias", 5), ("usedef", 5), ("k2", 5), ("k5", 5)]


def run(ctx):
    from vf.core import use_repo
    use_repo()
    install()
    plan = tiny_plan(ctx)
    items = []
    for fam, maxlen in plan:
        for length in range(1, maxlen + 1):
            # work unit = all programs sharing their first 2 (length >= 5: 3) tokens
            for f in enum_family(fam, length, upto=3 if length >= 5 else 2):
                items.append((fam, f, length))
    ctx.note("tiny_plan", ["%s<=%d(k=%d)" % (f, n, FAMILIES[f][0]) for f, n in plan])
    ctx.sample({"tiny": "k=3: def v0; def v1; def v2; def v3; use3 v0 v1 v2", "expect": "one value spilled; every read finds its value"})
    items.sort(key=lambda it: (it[2], it[0], it[1]))
    import os
    c0 = sum(os.times()[:4])
    ctx.pmap(tiny_worker, items, nshards=min(len(items), 256))
    c1 = sum(os.times()[:4])
    ctx.note("cpu_seconds_tiny_frames", round(c1 - c0))
    # real targets
    srcs = [n for n, _ in real_sources()]
    levels = [0, 2] if ctx.quick else [0, 1, 2, "s"]
    targets = REAL_TARGETS
    real_items = [(t, n, lv) for n in srcs for t in targets for lv in levels]
    for t in targets:
        real_items += [(t, n, "ir") for n in ir_case_names(target_int_types(t))]
    ctx.note("real_compilations", len(real_items))
    ctx.pmap(real_worker, real_items, nshards=min(len(real_items), 256))
    ctx.note("cpu_seconds_real_targets", round(sum(os.times()[:4]) - c1))
    ctx.states = ctx.counters.get("k4_states", 0)
    ctx.transitions = ctx.counters.get("k4_transfers", 0)
    ctx.traces = ctx.counters.get("frames_checked", 0)
    ctx.sample({"real": "x86_64 press_mixed -O0", "checks": "al/ax/eax/rax aliasing under pressure"})


def replay(w):
    from vf.core import Partial, use_repo
    from vf import flow
    use_repo()
    install()
    p = Partial()
    stats = flow.Stats()
    if w["kind"] == "tiny":
        out = run_tiny(p, [tuple(t) for t in w["prog"]], w["k"], stats)
    else:
        out = run_real(p, w["target"], w["name"], w["level"], stats)
    if out:
        return True, "; ".join("%s: %s" % kw for kw in out[:3])
    return False, "every read finds its value; no overlapping live values"
