"""C17 - ELF output is read back faithfully by independent ELF tools (llvm-readobj, GNU readelf, GNU objdump)."""
import io
import os
import re
import itertools
import subprocess

ID = "C17"
LEVEL = "exploration"
RULE = ("objects for the five machines write_elf maps (x86_64, arm, riscv, xtensa, microblaze). Relocatable files: every section shape (size x alignment) "
        "alone and small products of 2-3 sections; every single symbol (binding x type x place incl. undefined x size) and every order of 3 (thorough 4) symbols "
        "over {local, global, undefined} with identity/reversed/sparse ids; odd names; for x86_64 every (relocation type x symbol kind x addend x offset "
        "x section) and multi-relocation objects (other machines: relocation-free objects only, the NotImplementedError refusal is counted). Executables: "
        "two (thorough four) object sets linked by ppci under every ordering of <= 2 (thorough 3) distinct layout items of {SECTION code/data/extra, SECTIONDATA data, "
        "ALIGN 8, DEFINESYMBOL s} cut into 1-2 memories x 3 location pairs (unaligned, page aligned, page aligned + 0x100) x entry symbol; plus small C "
        "and assembly sources through ppci.api. A case is one written file; distinct non-trivial = distinct (machine, file type, section/segment "
        "geometry relative to the page, symbol-kind pattern, relocation pattern, verdict)")
ASSUMPTIONS = [
    "readers: llvm-readobj 14 (--elf-output-style=JSON for headers/sections/symbols/program headers, LLVM-style -r --expand-relocs for relocations) and GNU "
    "readelf -hSsrlW; a file is accepted when neither prints a diagnostic; a file readelf rejects is reported and not shown to llvm-readobj; GNU objdump -s "
    "is a third reader of section contents where BFD recognises the file",
    "the expected view is taken from the ppci ObjectFile that was written (sections, symbols, relocations, images, entry symbol); for executables this is the "
    "object ppci's own linker produced (linking itself is C12/C11's subject)",
    "a violation of an equality is reported when both readers show it; a difference seen by one reader only is counted as unclassified",
    "expected ELF constants are written down here from the gABI / psABI (machine numbers, R_X86_64_* numbers, header sizes), not taken from ppci",
    "write_elf raising NotImplementedError (relocations on non-x86_64 machines), KeyError in get_reloc_type (x86_64 relocation type without an ELF number: "
    "absaddr32, absaddr16, jmp8) and UnicodeEncodeError (non-ASCII names) are refusals: counted, not reported; "
    "any other exception while writing is reported as an internal error",
    "section alignment, section flags and segment flags are not compared (the property does not constrain them); PT_LOAD ordering is not demanded",
    "x86-64 relocatables from C sources are additionally linked with `gcc -no-pie` against a driver and run; results are compared with the same source compiled by gcc",
]
CLAIM = {
    "text": "Within the enumerated object shapes, every ELF file ppci writes is accepted without diagnostics by two independent readers, which see exactly the "
            "object's section bytes and addresses, symbols (value, binding, type, section), relocations (offset, symbol, type, addend), entry point, and "
            "loadable segments holding the image bytes at congruent file offsets.",
    "note": "Trusted: llvm-readobj 14, GNU readelf/objdump 2.40, the gABI constants in this file; ppci's linker for the executables' contents.",
    "technique": "bounded exhaustive object-shape enumeration with independent ELF readers",
    "engine": "K1",
}

MACHINES = {"x86_64": (64, "LE", 62), "arm": (32, "LE", 40), "riscv": (32, "LE", 243), "xtensa": (32, "LE", 94), "microblaze": (32, "BE", 189)}
ARCHS = ("x86_64", "arm", "riscv", "xtensa", "microblaze")
# psABI x86-64: R_X86_64_64 = 1, PC32 = 2, PLT32 = 4, 32 = 10
X86_RTYPE = {"rel32": 2, "abs64": 1, "abs32": 10, "absaddr64": 1}
EH_SIZE = {32: (52, 32, 40), 64: (64, 56, 64)}     # e_ehsize, e_phentsize, e_shentsize
SYM_TYPE = {"func": "FUNC", "object": "OBJECT"}


# ------------------------------------------------------------------ case enumeration (descriptions only)

def rel_cases(tier):
    """[(label, arch, odesc)] relocatable objects, simplest first."""
    from vf.gen import objgen as G
    out = []
    for arch in ARCHS:
        def put(label, o, arch=arch):
            o = dict(o, arch=arch)
            out.append((label, arch, o))
        put("empty", G.obj([]))
        # sections
        for sz, al in G.shapes(G.SIZES, (1, 2, 4, 8, 16)):
            secs = [G.sec("code", sz, al)]
            put("sections/one", G.obj(secs, G.std_symbols(0, secs)))
        small = [(0, 4), (3, 1), (8, 8)] if tier == "quick" else [(0, 4), (1, 1), (3, 2), (8, 8), (16, 16)]
        for k in (2, 3):
            for combo in itertools.product(small, repeat=k):
                secs = [G.sec(nm, sz, al) for nm, (sz, al) in zip(G.SECTION_NAMES, combo)]
                put("sections/%d" % k, G.obj(secs, G.std_symbols(0, secs)))
        # single symbols
        base = [G.sec("code", 8, 4), G.sec("data", 5, 2)]
        for binding in ("local", "global"):
            for typ in ("object", "func", "other"):
                for place in (("code", 0), ("code", 8), ("data", 1), (None, None)):
                    for size in (0, 4):
                        if place[0] is None and binding == "local":
                            continue
                        put("symbol/one", G.obj(base, [G.sym("s", binding, place[0], place[1], typ, size)]))
        # three symbols, every kind pattern, three id schemes
        kinds = {"L": ("local", "code", 2), "G": ("global", "data", 1), "U": ("global", None, None)}
        for pat in itertools.chain(itertools.product("LGU", repeat=3), itertools.product("LGU", repeat=4) if tier != "quick" else ()):
            for ids in ("pos", "rev", "sparse"):
                syms = []
                for i, k in enumerate(pat):
                    b, sec_, off = kinds[k]
                    sid = {"pos": i, "rev": len(pat) - 1 - i, "sparse": 10 * i + 3}[ids]
                    syms.append(G.sym("%s%d" % (k.lower(), i), b, sec_, None if off is None else off + i, "func" if i == 1 else "object", i, id=sid))
                put("symbol/three", G.obj(base, syms))
        # names
        for nm in (".text", "_$x_", "a.b.c", "x" * 300, "0start", "with-dash", "UPPER_lower9"):
            put("names", G.obj([G.sec(nm if not nm[0].isdigit() else "code", 4, 4)], [G.sym(nm, "global", nm if not nm[0].isdigit() else "code", 1), G.sym("pre" + nm, "local", None if False else (nm if not nm[0].isdigit() else "code"), 2)]))
        put("names/non-ascii", G.obj([G.sec("code", 4, 4)], [G.sym("café", "global", "code", 1)]))
        put("names/shared", G.obj([G.sec("code", 4, 4)], [G.sym("abc", "global", "code", 0), G.sym("bc", "global", "code", 1), G.sym("abc", "local", "code", 2), G.sym("", "local", "code", 3)]))
        put("symbol/many", G.obj([G.sec("code", 64, 4)], [G.sym("s%d" % i, "global" if i % 3 else "local", "code", i, "func" if i % 2 else "object", i, id=99 - i) for i in range(40)]))
        put("symbol/absolute", G.obj([G.sec("code", 4, 4)], [G.sym("abs", "global", None, 0x1234)]))
        # relocations
        rsecs = [G.sec("code", 24, 4), G.sec("data", 16, 8)]
        rsyms = [G.sym("lc", "local", "code", 4, "func"), G.sym("gd", "global", "data", 8, "object"), G.sym("uo", "global", None, None, "object"),
                 G.sym("uf", "global", None, None, "func")]
        if arch == "x86_64":
            addends = (0, -4, 1, -1, 2 ** 31 - 1, -2 ** 31) if tier == "quick" else (0, -4, 4, 1, -1, 255, -256, 2 ** 31 - 1, -2 ** 31, 2 ** 40, -2 ** 63, 2 ** 63 - 1)
            for rt in ("rel32", "abs64", "abs32", "absaddr64"):
                for si in range(4):
                    for ad in addends:
                        for sec_, off in (("code", 0), ("code", 13), ("data", 8)):
                            put("reloc/one", G.obj(rsecs, rsyms, [G.rel(rt, si, sec_, off, ad)]))
            for ids in ("pos", "sparse"):
                syms = [dict(s, id=(i if ids == "pos" else 7 * i + 2)) for i, s in enumerate(rsyms)]
                # globals listed before locals in the object: the ELF symbol index differs from both position and id
                order = [1, 2, 0, 3]
                syms2 = [syms[i] for i in order]
                rels = [G.rel(("rel32", "abs64", "abs32", "absaddr64")[i % 4], syms[i % 4]["id"], ("code", "data")[i % 2], 2 * i, i - 3) for i in range(8)]
                put("reloc/many", G.obj(rsecs, syms2, rels))
            put("reloc/unmapped-type", G.obj(rsecs, rsyms, [G.rel("absaddr32", 1, "data", 0, 0)]))
            put("reloc/three-sections", G.obj(rsecs + [G.sec("extra", 8, 4)], rsyms, [G.rel("abs64", 1, "extra", 0, 0), G.rel("rel32", 3, "code", 4, -4), G.rel("abs32", 0, "data", 4, 2)]))
        else:
            put("reloc/refused", G.obj(rsecs, rsyms, [G.rel("absaddr32", 1, "data", 0, 0)]))
    return out


L_ITEMS = [["SECTION", "code"], ["SECTION", "data"], ["SECTION", "extra"], ["SECTIONDATA", "data"], ["ALIGN", 8], ["DEFINESYMBOL", "s"]]
LOCATIONS = ((0x100, 0x2001), (0x1000, 0x3000), (0x400000, 0x600100))


def exe_object_sets(tier="quick"):
    from vf.gen import objgen as G
    out = []
    shapes = [((5, 8), (3, 2), (8, 4), (1, 1)), ((16, 4), (0, 4), (4, 4), (7, 8))]
    if tier != "quick":
        shapes += [((1, 1), (1, 1), (1, 1), (1, 1)), ((0, 4), (16, 16), (3, 2), (0, 8))]
    for c in shapes:
        sa = [G.sec("code", *c[0]), G.sec("data", *c[1])]
        sb = [G.sec("code", *c[2]), G.sec("extra", *c[3])]
        out.append([G.obj(sa, G.std_symbols(0, sa) + [G.sym("fn", "global", "code", 1, "func", 4)], tag=0), G.obj(sb, G.std_symbols(1, sb), tag=1)])
    return out


def exe_cases(tier):
    """[(label, arch, odescs, ldesc, extra)] executables."""
    from vf.gen import objgen as G
    out = []
    osets = exe_object_sets(tier)
    max_len = 2 if tier == "quick" else 3
    for arch in ARCHS:
        full = arch in ("x86_64", "arm", "microblaze") or tier != "quick"
        for li, locs in enumerate(LOCATIONS):
            if not full and li != 2:
                continue
            lays = G.layouts(L_ITEMS, max_len, 2, locs)
            for k, lay in enumerate(lays):
                for oi, objs in enumerate(osets):
                    if tier == "quick" and (k + oi + li) % 2 and len(lay["memories"]) == 2 and not full:
                        continue
                    entry = "fn" if (k + oi) % 3 else None
                    ld = dict(lay, entry=entry)
                    out.append(("exe/layout", arch, [dict(o, arch=arch) for o in objs], ld, None))
        # a section not named in the layout (written outside any segment), an empty image, an absolute symbol
        objs = [dict(o, arch=arch) for o in osets[0]]
        out.append(("exe/unplaced-section", arch, objs, G.layout([G.mem("m0", 0x1000, G.BIG, [["SECTION", "code"]])], entry="fn"), None))
        out.append(("exe/empty-image", arch, objs, G.layout([G.mem("m0", 0x1000, G.BIG, [["SECTION", "code"]]), G.mem("m1", 0x5000, G.BIG, [["DEFINESYMBOL", "s"]])]), None))
        out.append(("exe/absolute-symbol", arch, objs, G.layout([G.mem("m0", 0x1000, G.BIG, [["SECTION", "code"], ["SECTION", "data"]])]), {"abs_sym": 0x1234}))
        out.append(("exe/three-images", arch, objs, G.layout([G.mem("m0", 0x10000, G.BIG, [["SECTION", "code"]]), G.mem("m1", 0x20010, G.BIG, [["SECTION", "data"]]),
                                                               G.mem("m2", 0x30ff0, G.BIG, [["SECTION", "extra"], ["SECTIONDATA", "data"]])], entry="fn"), None))
    return out


C_SOURCES = [
    ("data", "int g = 5; char s[] = \"hello\"; short h = 0x1234; long long q = -2;"),
    ("leaf", "int f(int a) { return a * 3 + 1; }"),
    ("globals", "int g = 5; static int k = 7; int f(int a) { g += a; return g + k; }"),
    ("calls", "int g = 5; int h(int); static int l(int a) { return a + g; } int f(int a) { return l(a) + h(a + 1); }"),
    ("pointers", "int g[4] = {1, 2, 3, 4}; int *p = &g[0]; int h(int); int f(int a) { return p[a & 3] + h(2); }"),
    ("loop", "int h(int); int f(int n) { int s = 0; for (int i = 0; i < n; i++) s += h(i); return s; }"),
    ("strings", "int h(int); const char *m = \"xyz\"; int f(int a) { return m[a % 3] + h(a); }"),
]
ASM_SOURCES = {
    "x86_64": "section code\nglobal start\nstart:\nmov rax, 60\nlocal_lab:\njmp start\ncall other\nsection data\nother:\ndd 0x11223344\ndd 0x55667788\ndq =start\n",
    "arm": "section code\nglobal start\nstart:\nmov r0, 1\nmov r1, r0\nsection data\ndd 0x11223344\ndb 7\n",
    "riscv": "section code\nglobal start\nstart:\nadd x1, x2, x3\nsection data\ndd 0x11223344\n",
    "xtensa": "section code\nglobal start\nstart:\nnop\nsection data\ndd 0x11223344\n",
    "microblaze": "section code\nglobal start\nstart:\nadd r1, r2, r3\nadd r3, r2, r1\n",
}
SRC_LAYOUT = "MEMORY code LOCATION=0x401000 SIZE=0x10000 { SECTION(code) }\nMEMORY ram LOCATION=0x602000 SIZE=0x10000 { SECTION(data) }\n"
DRIVER = ("#include <stdio.h>\nint f(int);\nint h(int x) { return 3 * x + 1; }\n"
          "int main(void) { for (int i = 0; i < 5; i++) printf(\"%d\\n\", f(i)); return 0; }\n")


def src_cases(tier):
    """[(label, arch, lang, name, source, kind)]; kind in rel / exe."""
    out = []
    for arch in ARCHS:
        for name, src in C_SOURCES:
            if arch == "x86_64" or name == "data":
                out.append(("src/c/rel", arch, "c", name, src, "rel"))
            if name in ("data", "leaf", "globals"):
                out.append(("src/c/exe", arch, "c", name, src, "exe"))
        out.append(("src/asm/exe", arch, "asm", "asm", ASM_SOURCES[arch], "exe"))
        if arch == "x86_64":
            out.append(("src/asm/rel", arch, "asm", "asm", ASM_SOURCES[arch], "rel"))
    return out


# ------------------------------------------------------------------ building the ppci object and writing the file

def make_object(case):
    """-> (ppci ObjectFile to be written, 'rel' | 'exe')"""
    from vf.gen import objgen as G
    kind = case["kind"]
    if kind == "rel":
        return G.build(case["obj"]), "rel"
    if kind == "exe":
        from ppci.binutils.linker import link
        objs = [G.build(o) for o in case["objs"]]
        return link(objs, layout=G.build_layout(case["layout"]), extra_symbols=case.get("extra")), "exe"
    from ppci import api
    import contextlib
    with contextlib.redirect_stdout(io.StringIO()):     # ppci prints its diagnostics
        if case["lang"] == "c":
            o = api.cc(io.StringIO(case["source"]), case["arch"])
        else:
            o = api.asm(io.StringIO(case["source"]), case["arch"])
    if case["ftype"] == "rel":
        return o, "rel"
    lay = SRC_LAYOUT
    syms = [s.name for s in o.symbols if s.binding == "global" and s.defined and s.name in ("f", "start")]
    if syms:
        lay = "ENTRY(%s)\n" % syms[0] + lay
    return api.link([o], layout=io.StringIO(lay)), "exe"


def expected_view(o):
    """What the property says the readers must see, from the ppci object."""
    secs = {}
    for s in o.sections:
        secs.setdefault(s.name, []).append((bytes(s.data), s.address))
    syms = []
    byid = {}
    for y in o.symbols:
        if y.undefined:
            t = (y.name, y.binding.upper(), SYM_TYPE.get(y.typ, "NOTYPE"), "UND", 0, y.size)
        elif y.section is None:
            t = (y.name, y.binding.upper(), SYM_TYPE.get(y.typ, "NOTYPE"), "ABS", y.value, y.size)
        else:
            t = (y.name, y.binding.upper(), SYM_TYPE.get(y.typ, "NOTYPE"), y.section, y.value + o.get_section(y.section).address, y.size)
        syms.append(t)
        byid[y.id] = (t, y)
    rels = []
    for r in o.relocations:
        t, y = byid[r.symbol_id]
        rt = X86_RTYPE.get(r.reloc_type)
        if r.reloc_type == "rel32" and y.undefined and y.typ == "func":
            rt = 4
        rels.append((r.section, r.offset, rt, t, r.addend))
    return {"sections": secs, "symbols": syms, "relocs": rels}


def write_file(o, ftype, path):
    from ppci.format.elf import write_elf
    with open(path, "wb") as f:
        write_elf(o, f, type="relocatable" if ftype == "rel" else "executable")


# ------------------------------------------------------------------ judging one file against the readers' views

def diag_class(tool, diag):
    """Locus for a reader's refusal: its first message with numbers and paths removed."""
    line = [ln for ln in diag.splitlines() if ln.strip()][0] if diag.strip() else "no message"
    line = re.sub(r"'[^']*'", "", line)
    line = re.sub(r"^(llvm-readobj|readelf|objdump):\s*", "", line)
    line = re.sub(r"(0x[0-9a-fA-F]+|\d+)", "N", line)
    line = re.sub(r"[^A-Za-z_ ]+", " ", line)
    words = [w for w in line.split() if w not in ("N", "warning", "Warning", "error", "Error")]
    return "reader-rejects/%s/%s" % (tool, "-".join(words[:8]))


def compare(case, o, ftype, data, view, tool):
    """[(key, what)] differences between what `tool` read and the ppci object.  view: normalised reader view (vf.oracles.elftools)."""
    arch = case["arch"]
    bits, endian, machine = MACHINES[arch]
    exp = expected_view(o)
    out = []

    def bad(key, what):
        out.append((key, "%s: %s" % (tool, what)))

    h = view["header"]
    if h.get("class") != bits:
        bad("header/class", "EI_CLASS reads %r, machine %s is %d-bit" % (h.get("class"), arch, bits))
    if h.get("data") != endian:
        bad("header/data-encoding", "EI_DATA reads %r, expected %s" % (h.get("data"), endian))
    if h.get("type") != (1 if ftype == "rel" else 2):
        bad("header/e_type", "e_type reads %r for a %s file" % (h.get("type"), ftype))
    if "machine" in h and h["machine"] != machine:
        bad("header/e_machine", "e_machine reads %r, expected %d" % (h["machine"], machine))
    ehs, phs, shs = EH_SIZE[bits]
    if h.get("ehsize") != ehs:
        bad("header/e_ehsize", "e_ehsize reads %r, an ELF%d header is %d bytes" % (h.get("ehsize"), bits, ehs))
    if h.get("shentsize") != shs:
        bad("header/e_shentsize", "e_shentsize reads %r, expected %d" % (h.get("shentsize"), shs))
    if h.get("phnum") and h.get("phentsize") != phs:
        bad("header/e_phentsize", "e_phentsize reads %r, expected %d" % (h.get("phentsize"), phs))
    esecs = view["sections"]
    if h.get("shnum") != len(esecs):
        bad("header/e_shnum", "e_shnum reads %r but %d section headers were listed" % (h.get("shnum"), len(esecs)))
    byname = {}
    for s in esecs:
        byname.setdefault(s["name"], []).append(s)
    byindex = {s["index"]: s for s in esecs}
    strs = byindex.get(h.get("shstrndx"))
    if strs is None or strs["type"] not in (3, "STRTAB"):
        bad("header/e_shstrndx", "e_shstrndx = %r does not designate a string table" % (h.get("shstrndx"),))
    # sections: bytes and addresses
    for name, lst in exp["sections"].items():
        got = byname.get(name, [])
        if len(got) != len(lst):
            bad("section/missing-or-duplicated", "object has %d section(s) named %r, file shows %d" % (len(lst), name, len(got)))
            continue
        for (sbytes, saddr), g in zip(lst, got):
            if g["addr"] != saddr:
                bad("section/address", "section %r: sh_addr reads 0x%x, object address 0x%x" % (name, g["addr"], saddr))
            if g["size"] != len(sbytes):
                bad("section/size", "section %r: sh_size reads %d, object has %d bytes" % (name, g["size"], len(sbytes)))
            elif data[g["offset"]:g["offset"] + g["size"]] != sbytes:
                bad("section/bytes", "section %r: file bytes at [0x%x,+%d) = %s differ from the object's %s"
                    % (name, g["offset"], g["size"], data[g["offset"]:g["offset"] + g["size"]][:24].hex(), sbytes[:24].hex()))
            if g["type"] not in (1, "PROGBITS"):
                bad("section/type", "section %r has type %r" % (name, g["type"]))
    # symbols
    symtabs = [s for s in esecs if s["type"] in (2, "SYMTAB")]
    esyms = view["symbols"]

    def tup(y):
        ndx = y["shndx"]
        if isinstance(ndx, int):
            ndx = byindex[ndx]["name"] if ndx in byindex else "?%d" % ndx
        return (y["name"], y["bind"], y["type"], ndx, y["value"], y["size"])
    got_syms = [tup(y) for y in esyms[1:]]
    if esyms and tup(esyms[0]) != ("", "LOCAL", "NOTYPE", "UND", 0, 0):
        bad("symtab/null-entry", "symbol 0 reads %r" % (tup(esyms[0]),))
    if sorted(got_syms) != sorted(exp["symbols"]):
        missing = [t for t in exp["symbols"] if t not in got_syms]
        extra = [t for t in got_syms if t not in exp["symbols"]]
        field = "multiset"
        if len(missing) == 1 and len(extra) == 1:
            names = ("name", "binding", "type", "section", "value", "size")
            diff = [names[i] for i in range(6) if missing[0][i] != extra[0][i]]
            field = "+".join(diff)
        bad("symbol/" + field, "symbols (name, bind, type, section, value, size): object has %r, file shows %r" % (missing[:3], extra[:3]))
    if len(symtabs) != 1:
        bad("symtab/count", "%d SYMTAB sections" % len(symtabs))
    else:
        st = symtabs[0]
        nonlocal_idx = [i for i, y in enumerate(esyms) if y["bind"] != "LOCAL"]
        first_global = nonlocal_idx[0] if nonlocal_idx else len(esyms)
        if any(y["bind"] == "LOCAL" for y in esyms[first_global:]):
            bad("symtab/local-after-global", "a LOCAL symbol follows a non-local one")
        elif st["info"] != first_global:
            bad("symtab/sh_info", "sh_info reads %d, index of the first non-local symbol is %d" % (st["info"], first_global))
        lk = byindex.get(st["link"])
        if lk is None or lk["type"] not in (3, "STRTAB"):
            bad("symtab/sh_link", "sh_link = %d does not designate a string table" % st["link"])
        if st["entsize"] != (24 if bits == 64 else 16):
            bad("symtab/sh_entsize", "sh_entsize reads %d" % st["entsize"])
    # relocations
    if ftype == "rel":
        got_rels = []
        for r in view["relocs"]:
            rs = [s for s in esecs if s["name"] == r["section"] and s["type"] in (4, "RELA")]
            tgt = byindex.get(rs[0]["info"], {}).get("name", "?") if rs else "?"
            y = esyms[r["symidx"]] if r.get("symidx") is not None and r["symidx"] < len(esyms) else None
            got_rels.append((tgt, r["offset"], r["type"], tup(y) if y else ("?",), r["addend"]))
            if rs:
                lk = byindex.get(rs[0]["link"])
                if lk is None or lk["type"] not in (2, "SYMTAB"):
                    bad("rela/sh_link", "relocation section %r: sh_link = %d is not the symbol table" % (r["section"], rs[0]["link"]))
        if sorted(got_rels, key=repr) != sorted(exp["relocs"], key=repr):
            missing = [t for t in exp["relocs"] if t not in got_rels]
            extra = [t for t in got_rels if t not in exp["relocs"]]
            field = "multiset"
            if len(missing) == len(extra) and missing:
                names = ("section", "offset", "type", "symbol", "addend")
                diff = sorted({names[i] for m_, e_ in zip(missing, extra) for i in range(5) if m_[i] != e_[i]})
                field = "+".join(diff)
            bad("reloc/" + field, "relocations (target section, offset, type, symbol, addend): object has %r, file shows %r" % (missing[:2], extra[:2]))
    # entry and segments
    if ftype == "exe":
        if o.entry_symbol_id is not None:
            want = o.get_symbol_id_value(o.entry_symbol_id)
            if h.get("entry") != want:
                bad("header/e_entry", "e_entry reads 0x%x, entry symbol is at 0x%x" % (h.get("entry") or 0, want))
        loads = [p for p in view["phdrs"] if p["type"] == "LOAD"]
        if len(loads) != len(o.images):
            bad("segment/count", "%d PT_LOAD segments for %d images" % (len(loads), len(o.images)))
        else:
            for im, ph in zip(o.images, loads):
                idata = bytes(im.data)
                if ph["vaddr"] != im.address:
                    bad("segment/p_vaddr", "image %s at 0x%x: p_vaddr reads 0x%x" % (im.name, im.address, ph["vaddr"]))
                    continue
                if ph["memsz"] < ph["filesz"]:
                    bad("segment/p_memsz", "image %s: p_memsz %d < p_filesz %d" % (im.name, ph["memsz"], ph["filesz"]))
                if ph["filesz"] != len(idata):
                    bad("segment/p_filesz", "image %s has %d bytes, p_filesz reads %d" % (im.name, len(idata), ph["filesz"]))
                elif data[ph["offset"]:ph["offset"] + ph["filesz"]] != idata:
                    bad("segment/bytes", "image %s: file bytes at [0x%x,+%d) differ from the image" % (im.name, ph["offset"], ph["filesz"]))
                for s in im.sections:
                    off = ph["offset"] + (s.address - ph["vaddr"])
                    if data[off:off + s.size] != bytes(s.data):
                        bad("segment/section-bytes", "section %s at 0x%x is not at file offset 0x%x of its segment" % (s.name, s.address, off))
                if ph["align"] > 1 and (ph["offset"] - ph["vaddr"]) % ph["align"] != 0:
                    bad("segment/offset-not-congruent", "image %s: p_offset 0x%x and p_vaddr 0x%x differ modulo p_align 0x%x" % (im.name, ph["offset"], ph["vaddr"], ph["align"]))
    return out


def shape_of(case, o, ftype):
    """Outcome fingerprint: geometry and kinds, not the case index."""
    secs = tuple((s.name, s.size % 7, s.address % 0x1000 if ftype == "exe" else 0) for s in o.sections)
    syms = tuple(sorted((y.binding[0], y.typ[0] if y.typ else "-", "U" if y.undefined else "D") for y in o.symbols))[:12]
    rels = tuple(sorted((r.reloc_type, r.addend < 0, r.section) for r in o.relocations))[:8]
    return (case["arch"], ftype, secs, syms, rels, len(o.images))


def judge_batch(p, cases, d, only_key=None):
    """Write every case's file into directory d, read them all back in batches and compare."""
    from vf.core import cpu_limit, CpuTimeout, exc_key
    from vf.oracles import elftools as E
    todo = []
    for n, case in enumerate(cases):
        p.add()
        wit = case
        try:
            with cpu_limit(60):
                o, ftype = make_object(case)
        except CpuTimeout:
            p.violation("timeout/build", "building the object exceeded 60 s CPU", wit)
            continue
        except Exception as ex:  # noqa  (compiling / linking is not C17's subject)
            p.count("unclassified_object_not_built")
            p.collect("object_not_built", "%s:%s:%s" % (case["arch"], case["label"], type(ex).__name__))
            continue
        path = os.path.join(d, "f%04d.%s" % (n, "o" if ftype == "rel" else "elf"))
        try:
            with cpu_limit(60):
                write_file(o, ftype, path)
        except CpuTimeout:
            p.violation("timeout/write", "write_elf exceeded 60 s CPU", wit)
            continue
        except (NotImplementedError, UnicodeEncodeError) as ex:
            p.count("refused_" + type(ex).__name__)
            p.outcome((case["arch"], ftype, "refused", type(ex).__name__))
            continue
        except Exception as ex:  # noqa
            key = exc_key("write-crash", ex)
            if isinstance(ex, KeyError) and key.endswith(":get_reloc_type"):
                # a relocation type without an ELF number on this machine: the same refusal as NotImplementedError, by another exception
                p.count("refused_unmapped_relocation_type")
                p.collect("unmapped_relocation_types", "%s:%s" % (case["arch"], ex.args[0] if ex.args else "?"))
                p.outcome((case["arch"], ftype, "refused", "unmapped"))
                continue
            if only_key in (None, key):
                p.violation(key, "write_elf(%s, %s) raised %r (%s)" % (case["arch"], ftype, ex, case["label"]), wit)
            p.outcome((case["arch"], ftype, "crash", type(ex).__name__))
            continue
        todo.append((case, o, ftype, path))
    paths = [t[3] for t in todo]
    # readelf first (its diagnostics are attributed in one pass); what it rejects is reported and not shown to the other readers
    rv = E.readelf(paths)
    lv = E.llvm_readobj([q for q in paths if rv[q]["ok"]])
    ov = E.objdump_contents([q for q in paths if rv[q]["ok"] and lv[q]["ok"]])
    skipped = {"ok": True, "diag": "", "contents": {}}
    for case, o, ftype, path in todo:
        data = open(path, "rb").read()
        p.count("files_written")
        p.count("files_%s_%s" % (case["arch"], ftype))
        a, b, c = lv.get(path, skipped), rv[path], ov.get(path, {"ok": False})
        rejected = False
        for tool, v in (("readelf", b), ("llvm-readobj", a)):
            if not v["ok"]:
                rejected = True
                key = diag_class(tool, v["diag"])
                if MACHINES[case["arch"]][1] == "BE" and "e_shentsize" in v["diag"]:
                    key = "reader-rejects/big-endian-header-fields"      # defect 36: one mechanism whatever field the reader trips over first
                if only_key in (None, key):
                    p.violation(key, "%s %s file (%s) is not accepted by %s: %s" % (case["arch"], ftype, case["label"], tool, v["diag"].splitlines()[0][:200] if v["diag"] else "?"), case)
        if rejected:
            p.outcome((case["arch"], ftype, "rejected"))
            continue
        da = compare(case, o, ftype, data, a, "llvm-readobj")
        db = compare(case, o, ftype, data, b, "readelf")
        ka, kb = {k for k, _ in da}, {k for k, _ in db}
        for k, what in da:
            if k in kb:
                if only_key in (None, k):
                    p.violation(k, "%s %s (%s): %s" % (case["arch"], ftype, case["label"], what), case)
            else:
                p.count("unclassified_one_reader_only")
                p.collect("one_reader_only", "llvm-readobj:" + k)
        for k, what in db:
            if k not in ka:
                p.count("unclassified_one_reader_only")
                p.collect("one_reader_only", "readelf:" + k)
        # third reader: section contents through BFD
        if c["ok"]:
            p.count("files_read_by_objdump")
            for s in o.sections:
                if s.size == 0:
                    continue
                got = c["contents"].get(s.name)
                if got is None or got[1] != bytes(s.data) or got[0] != s.address:
                    if "section/bytes" not in ka and "section/address" not in ka and "section/missing-or-duplicated" not in ka:
                        p.count("unclassified_objdump_differs")
                        p.collect("one_reader_only", "objdump:section/%s" % ("missing" if got is None else "bytes-or-address"))
        else:
            p.count("files_not_recognised_by_objdump")
        p.outcome(shape_of(case, o, ftype) + (tuple(sorted(ka & kb)),))
        if not (ka & kb):
            p.count("files_faithful")


# ------------------------------------------------------------------ x86-64 relocatables linked by the system toolchain

def gcc_link_run(p, d):
    """Each C source with a function f: ppci relocatable + driver linked by gcc -no-pie, run, compared with gcc compiling the same source."""
    from ppci import api
    from ppci.format.elf import write_elf
    drv = os.path.join(d, "drv.c")
    open(drv, "w").write(DRIVER)
    for name, src in C_SOURCES:
        if "f(" not in src:
            continue
        p.add()
        wit = {"kind": "gcc-link", "arch": "x86_64", "label": "gcc-link/" + name, "name": name}
        try:
            o = api.cc(io.StringIO(src), "x86_64")
            opath = os.path.join(d, name + ".o")
            with open(opath, "wb") as f:
                write_elf(o, f, type="relocatable")
        except Exception:  # noqa
            p.count("unclassified_object_not_built")
            continue
        ref_c = os.path.join(d, name + "_ref.c")
        open(ref_c, "w").write(src.replace("int h(int);", "") if False else src)
        r1 = subprocess.run(["gcc", "-no-pie", "-o", os.path.join(d, name + ".ppci"), drv, opath], capture_output=True, text=True)
        r2 = subprocess.run(["gcc", "-no-pie", "-O0", "-o", os.path.join(d, name + ".ref"), drv, ref_c], capture_output=True, text=True)
        if r2.returncode != 0:
            p.count("unclassified_reference_compile_failed")
            continue
        if r1.returncode != 0:
            p.violation("gcc-link/ld-rejects", "GNU ld rejects ppci's x86-64 relocatable for %r: %s" % (name, r1.stderr.strip().splitlines()[-1][:200] if r1.stderr.strip() else "?"), wit)
            continue
        try:
            a = subprocess.run([os.path.join(d, name + ".ppci")], capture_output=True, text=True, timeout=20)
            b = subprocess.run([os.path.join(d, name + ".ref")], capture_output=True, text=True, timeout=20)
        except subprocess.TimeoutExpired:
            p.count("unclassified_run_timeout")
            continue
        if (a.returncode, a.stdout) != (b.returncode, b.stdout):
            p.violation("gcc-link/result", "source %r linked by gcc from ppci's relocatable prints %r (exit %d), gcc's own object prints %r (exit %d)"
                        % (name, a.stdout[:60], a.returncode, b.stdout[:60], b.returncode), wit)
        else:
            p.count("gcc_linked_and_run_ok")
            p.outcome(("gcc-link", name, a.stdout))


# ------------------------------------------------------------------ driver

def all_cases(tier):
    cases = []
    for label, arch, o in rel_cases(tier):
        cases.append({"kind": "rel", "label": label, "arch": arch, "obj": o})
    for label, arch, objs, ld, extra in exe_cases(tier):
        cases.append({"kind": "exe", "label": label, "arch": arch, "objs": objs, "layout": ld, "extra": extra})
    for label, arch, lang, name, src, ftype in src_cases(tier):
        cases.append({"kind": "src", "label": label + "/" + name, "arch": arch, "lang": lang, "source": src, "ftype": ftype})
    return cases


def worker(p, shard):
    from vf.core import scratch
    with scratch(ID) as d:
        for i in range(0, len(shard), 64):
            sub = os.path.join(d, "b%d" % i)
            os.makedirs(sub, exist_ok=True)
            judge_batch(p, shard[i:i + 64], sub)


def gcc_worker(p, shard):
    from vf.core import scratch
    with scratch(ID + "g") as d:
        gcc_link_run(p, d)


def run(ctx):
    import logging
    logging.getLogger("linker").setLevel(logging.CRITICAL + 1)
    cases = all_cases(ctx.tier)
    ctx.note("n_cases", len(cases))
    by = {}
    for c in cases:
        by[c["label"].split("/")[0] + ":" + c["kind"]] = by.get(c["label"].split("/")[0] + ":" + c["kind"], 0) + 1
    ctx.note("cases_per_family", by)
    ctx.sample({"label": cases[1]["label"], "arch": cases[1]["arch"], "obj": cases[1].get("obj")})
    ctx.pmap(worker, cases)
    ctx.pmap(gcc_worker, [0], nshards=1)
    for arch in ARCHS:
        for ft in ("rel", "exe"):
            if not ctx.counters.get("files_%s_%s" % (arch, ft)):
                from vf.core import HarnessError
                raise HarnessError("no %s %s file was written and read back" % (arch, ft))


def replay(w):
    from vf.core import Partial, scratch
    import logging
    logging.getLogger("linker").setLevel(logging.CRITICAL + 1)
    p = Partial()
    with scratch(ID + "r") as d:
        if w.get("kind") == "gcc-link":
            gcc_link_run(p, d)
        else:
            judge_batch(p, [w], d)
    if p.violations:
        k = sorted(p.violations)[0]
        return True, "[%s] %s" % (k, p.violations[k][1])
    return False, "no violation: refused, or accepted by both readers and read back faithfully (%s)" % dict(p.counters)
