"""C23 - IR -> WebAssembly (ppci.wasm.ir_to_wasm) preserves behaviour; unstructurable control flow is rejected, not mistranslated.

Bounded exhaustive input enumeration (K1).  Every case is a tiny IR module (vf/gen/irgen23.py) or a program of the C corpus;
`ir_to_wasm(module).to_bytes()` is instantiated by V8 (node, own driver with a watchdog for non-terminating calls) and the function
under test is called on every argument vector; the reference is vf/sem/irinterp.py on the *same* ir.Module (ptr_size=4).
Compared: returned value (i64 through BigInt, floats by bit pattern, NaN as is-NaN), the bytes of every global variable after
every call (read through the memory, addresses obtained from the compiled code itself), and the trace of external calls.
"""
import io
import os
import json
import struct
import base64
import contextlib
import subprocess

ID = "C23"
LEVEL = "exploration"
RULE = ("IR modules over wasm's value types (i32/u32/i64/u64/f32/f64; i8/u8/i16/u16 only as load/store types): L1 every binary operator "
        "(+ - * / % | & ^ << >>; floats + - * /) and unary operator x type x V7 x V7 operands as parameters, as constants, mixed and twice the "
        "same parameter, every constant of V13, every cast pair (ints V13, floats incl. 33 half-way/range-edge values) as parameter and as "
        "constant, every comparison x type x V7 x V7 (thorough: all two-instruction programs over i32/i64/f64); L2 store/load of every memory "
        "type at 8 aligned/unaligned offsets of a global and of stack slots, store-as-T1/load-as-T2 for all pairs, pointers stored/reloaded, "
        "pointer differences, neighbouring globals of odd sizes, irgen.l2_programs(<=2; thorough 3); L3 EVERY CFG skeleton of "
        "irgen.cfg_skeletons(n) (1/3/68/3702 skeletons for n = 1..4, incl. irreducible, multi-exit, nested and exit-less loops): n <= 3 x 12 "
        "(thorough 18) body/condition rotations over memory variables + all irgen24 SSA-form programs (phis at joins, pruned/unpruned, "
        "swap/keep-previous renamings), n = 4 x the seed-selected rotation (quick) / x 12 rotations + 2 SSA programs (thorough), each on 25 "
        "(thorough 36) argument pairs; L4 irgen.l4 phi patterns (swap, self-loop, diamonds, tail recursion) on i32 and i64; globals "
        "without/with initial bytes, pointer and function-pointer initialisers, literal data; direct/recursive/indirect/external calls, stack "
        "frames across calls; the C corpus (vf/gen/ccorpus.py) at -O0 and -O2 through the C front end with the wasm type layout; a case = one "
        "(function, argument vector) run that the reference classifies as defined, or one module outcome (rejected / crashed / invalid); "
        "distinct non-trivial = distinct (mechanism, returned value, global memory image, external trace length)")
ASSUMPTIONS = [
    "reference: vf/sem/irinterp.py Interp on the same ir.Module, ptr_size=4: wrap-around integers, / and % truncating, arithmetic >> for signed, "
    "float->int truncating, f32 values rounded to single precision (validated against gcc by C01)",
    "reference engine for the produced binary: node v20 / V8; the binary is only patched by appending one export entry for the memory",
    "runs the reference classifies as undefined (division by zero, INT_MIN/-1, shift count outside [0,width), float->int out of range, "
    "uninitialised reads ...) or beyond its horizon (block steps, call depth 24) are neither executed nor compared",
    "only returned values, bytes of global variables and external-call traces are compared, never raw addresses (globals holding "
    "addresses are excluded from the byte comparison)",
    "ir_to_wasm may reject a module: CompilerError, NotImplementedError, or ValueError raised by the structure detector "
    "(ppci/graph/relooper.py) are allowed outcomes and are counted per CFG class; any other exception is reported",
    "the calling convention chosen by ppci is accepted as found in the binary's type section (u32 is carried in a wasm i64); a u32 result or "
    "argument must then be the zero-extended value",
    "external functions: deterministic stub on both sides (ints 3*sum(args)+1 wrapped to the result type, floats sum(args)+0.5)",
    "a call that makes no progress for 1 s wall (6 s when re-run alone) although the reference run ended within <= 400 block steps is "
    "a hang; a hang/trap/mismatch is reported only when it reproduces on a fresh instance of a module holding that function alone",
    "the watchdog is the only wall-clock dependence: a mistranslated loop that is finite but long (e.g. 2^32 iterations) is reported as hang "
    "or as wrong-result depending on machine load, and the number of calls compared after such a call varies slightly between runs; "
    "after 16 (thorough 100) hangs in one node process the remaining calls of that process are skipped and the run is marked capped",
    "c_to_ir(src, WasmArchitecture()) raises ValueError in api.get_arch (WasmArchitecture is not an `Architecture`); the C corpus is "
    "compiled with CBuilder(WasmArchitecture().info, COptions()) which is what c_to_ir does after get_arch",
]
CLAIM = {"text": "inside the stated bound every module that ir_to_wasm accepts is valid WebAssembly and every defined run returns the value, leaves the "
                 "global memory and makes the external calls that IR semantics prescribe; rejections are counted per CFG class",
         "note": "trusted: vf/sem/irinterp.py, vf/gen/irgen.py builder, V8, the comparison harness",
         "technique": "bounded exhaustive differential execution (V8 on the produced binary vs reference IR interpreter)", "engine": "K1 irgen + node"}

COMPILE_CPU_S = 30
CALL_TIMEOUT_MS = 1000
CONFIRM_TIMEOUT_MS = 6000
MAX_HANGS_PER_NODE = {"quick": 16, "thorough": 100}
_max_hangs = 16
JOBS_PER_NODE = 400
PURE_BATCH = 49
CFG_BATCH = 12
MAX_DEPTH = 24
MEM_EXPORT = "__c23_mem"
ADDR_PREFIX = "__c23_addr_"

# --------------------------------------------------------------------------- node driver (own: watchdog + IR-typed host functions)

DRIVER_JS = r"""
'use strict';
const wt = require('worker_threads');
const buf = new ArrayBuffer(8);
const F64 = new Float64Array(buf), U64 = new BigUint64Array(buf), F32 = new Float32Array(buf), U32 = new Uint32Array(buf);
function toJS(t, s) {
  switch (t) {
    case 'i32': return Number(s) | 0;
    case 'i64': return BigInt.asIntN(64, BigInt(s));
    case 'f32': U32[0] = Number(s); return F32[0];
    case 'f64': U64[0] = BigInt(s); return F64[0];
  }
  throw new Error('bad type ' + t);
}
function fromJS(t, v) {
  switch (t) {
    case 'i32': return ['i32', String(v | 0)];
    case 'i64': return ['i64', BigInt.asIntN(64, BigInt(v)).toString()];
    case 'f32': F32[0] = v; return ['f32', String(U32[0])];
    case 'f64': F64[0] = v; return ['f64', U64[0].toString()];
  }
  throw new Error('bad type ' + t);
}
function irWrap(ty, b) {
  switch (ty) {
    case 'i8': return BigInt.asIntN(8, b); case 'u8': return BigInt.asUintN(8, b);
    case 'i16': return BigInt.asIntN(16, b); case 'u16': return BigInt.asUintN(16, b);
    case 'i32': return BigInt.asIntN(32, b); case 'u32': return BigInt.asUintN(32, b); case 'ptr': return BigInt.asUintN(32, b);
    case 'i64': return BigInt.asIntN(64, b); case 'u64': return BigInt.asUintN(64, b);
  }
  return b;
}
function isFloatTy(t) { return t === 'f32' || t === 'f64'; }
function hostFunction(spec, log) {
  return (...args) => {
    log.push([spec.name, args.map((a, i) => fromJS(spec.params[i], a))]);
    const rt = spec.irresult;
    if (rt === null || rt === undefined) return undefined;
    if (isFloatTy(rt)) {
      let r = 0.5;
      args.forEach((a, i) => { const it = spec.irparams[i]; r += isFloatTy(it) ? a : Number(irWrap(it, BigInt(a))); });
      return rt === 'f32' ? Math.fround(r) : r;
    }
    let s = 0n;
    args.forEach((a, i) => {
      const it = spec.irparams[i];
      if (isFloatTy(it)) s += Number.isFinite(a) ? BigInt(Math.trunc(a)) : 0n; else s += irWrap(it, BigInt(a));
    });
    const r = irWrap(rt, 3n * s + 1n);
    return spec.result === 'i64' ? BigInt.asIntN(64, r) : Number(BigInt.asIntN(32, r));
  };
}
function isTrap(e) { return e instanceof WebAssembly.RuntimeError || e instanceof RangeError; }

function runJob(job, skip, prog, capped) {
  const bytes = Buffer.from(job.wasm, 'base64');
  const res = { valid: false, stage: 'validate', error: null, calls: [] };
  if (!WebAssembly.validate(bytes)) {
    try { new WebAssembly.Module(bytes); } catch (e) { res.error = String(e.message || e); }
    return res;
  }
  let mod;
  try { mod = new WebAssembly.Module(bytes); } catch (e) { res.stage = 'compile'; res.error = String(e.message || e); return res; }
  res.valid = true;
  const log = [], imp = {};
  for (const s of job.imports || []) { imp[s.mod] = imp[s.mod] || {}; imp[s.mod][s.name] = hostFunction(s, log); }
  let inst;
  try { inst = new WebAssembly.Instance(mod, imp); } catch (e) {
    res.stage = 'instantiate'; res.error = String(e.message || e); res.trap = isTrap(e); return res;
  }
  res.stage = 'run';
  const mem = job.mem ? inst.exports[job.mem] : null;
  const gaddr = [];
  for (const [name, helper, size] of job.globals || []) {
    try { gaddr.push([name, inst.exports[helper]() >>> 0, size]); } catch (e) { gaddr.push([name, null, size]); }
  }
  res.gaddr = gaddr.map(g => [g[0], g[1]]);
  const calls = job.calls || [], dead = new Set();
  for (let i = 0; i < calls.length; i++) {
    const c = calls[i], r = {};
    if (skip && skip.includes(i)) { r.hang = true; dead.add(c.f); res.calls.push(r); continue; }
    if (dead.has(c.f)) { r.skipped = true; res.calls.push(r); continue; }
    if (capped) { r.skipped = true; r.capped = true; res.calls.push(r); continue; }
    Atomics.store(prog, 1, i); Atomics.add(prog, 2, 1);
    const before = log.length;
    try {
      const f = inst.exports[c.f];
      if (typeof f !== 'function') throw new Error('no exported function ' + c.f);
      const v = f(...c.args.map(a => toJS(a[0], a[1])));
      r.v = (c.ret === null || c.ret === undefined) ? null : fromJS(c.ret, v);
    } catch (e) {
      if (isTrap(e)) r.trap = String(e.message || e); else r.error = String(e.message || e);
    }
    if (log.length > before) r.host = log.slice(before);
    if (gaddr.length && mem && c.gs && c.gs.length) {
      const a = new Uint8Array(mem.buffer), g = {};
      for (const k of c.gs) {
        const [name, addr, size] = gaddr[k];
        g[name] = (addr === null || addr + size > a.length) ? null : Buffer.from(a.subarray(addr, addr + size)).toString('hex');
      }
      r.g = g;
    }
    res.calls.push(r);
  }
  return res;
}

if (!wt.isMainThread) {
  const { jobs, base, hangs, sab, capped } = wt.workerData;
  const prog = new Int32Array(sab);
  for (let k = 0; k < jobs.length; k++) {
    const j = base + k;
    Atomics.store(prog, 0, j); Atomics.store(prog, 1, -1); Atomics.add(prog, 2, 1);
    let res;
    try { res = runJob(jobs[k], hangs[j] || null, prog, capped); } catch (e) { res = { valid: false, stage: 'driver', error: String(e && e.stack || e), calls: [] }; }
    wt.parentPort.postMessage({ j, res });
  }
  wt.parentPort.postMessage({ done: true });
} else {
  let input = '';
  process.stdin.setEncoding('utf8');
  process.stdin.on('data', d => { input += d; });
  process.stdin.on('end', async () => {
    const req = JSON.parse(input);
    const jobs = req.jobs, T = req.call_timeout_ms || 4000, maxHangs = req.max_hangs || 8;
    let nHangs = 0;
    const results = new Array(jobs.length).fill(null);
    const hangs = {};
    const runFrom = (start) => new Promise(resolve => {
      const sab = new SharedArrayBuffer(16), prog = new Int32Array(sab);
      prog[0] = start; prog[1] = -1; prog[2] = 0;
      const w = new wt.Worker(__filename, { workerData: { jobs: jobs.slice(start), base: start, hangs, sab, capped: nHangs >= maxHangs } });
      let last = -1, lastChange = Date.now(), finished = false;
      const timer = setInterval(() => {
        if (finished) return;
        const tick = Atomics.load(prog, 2);
        if (tick !== last) { last = tick; lastChange = Date.now(); return; }
        const phaseSetup = Atomics.load(prog, 1) < 0;
        if (Date.now() - lastChange > (phaseSetup ? Math.max(60000, 20 * T) : T)) {
          finished = true; clearInterval(timer);
          const j = Atomics.load(prog, 0), i = Atomics.load(prog, 1);
          w.terminate().then(() => {
            if (i < 0) { results[j] = { valid: false, stage: 'driver-hang', error: 'no progress before the first call', calls: [] }; resolve(j + 1); }
            else { (hangs[j] = hangs[j] || []).push(i); nHangs++; resolve(j); }
          });
        }
      }, 50);
      w.on('message', m => {
        if (finished) return;
        if (m.done) { finished = true; clearInterval(timer); w.terminate().then(() => resolve(jobs.length)); }
        else { results[m.j] = m.res; lastChange = Date.now(); }
      });
      w.on('error', e => {
        if (finished) return;
        finished = true; clearInterval(timer);
        const j = Atomics.load(prog, 0);
        results[j] = { valid: false, stage: 'driver', error: String(e && e.stack || e), calls: [] };
        w.terminate().then(() => resolve(j + 1));
      });
    });
    let start = 0;
    while (start < jobs.length) start = await runFrom(start);
    process.stdout.write(JSON.stringify({ results }), () => process.exit(0));
  });
}
"""

NODE = os.environ.get("VF_NODE", "node")


class NodeFailure(Exception):
    pass


def write_driver(d):
    path = os.path.join(d, "c23_driver.js")
    with open(path, "w") as f:
        f.write(DRIVER_JS)
    return path


def node_run(jobs, driver, timeout_ms=CALL_TIMEOUT_MS):
    out = []
    for i in range(0, len(jobs), JOBS_PER_NODE):
        chunk = jobs[i:i + JOBS_PER_NODE]
        try:
            r = subprocess.run([NODE, driver], input=json.dumps({"jobs": chunk, "call_timeout_ms": timeout_ms, "max_hangs": _max_hangs}).encode(), capture_output=True, timeout=7200)
        except subprocess.TimeoutExpired:
            raise NodeFailure("node did not finish a batch of %d jobs" % len(chunk))
        if r.returncode != 0:
            raise NodeFailure("node failed (rc=%s): %s" % (r.returncode, r.stderr.decode(errors="replace")[-1500:]))
        res = json.loads(r.stdout.decode())["results"]
        if len(res) != len(chunk):
            raise NodeFailure("node returned %d results for %d jobs" % (len(res), len(chunk)))
        out.extend(res)
    return out


# --------------------------------------------------------------------------- minimal wasm binary reader / export patch (independent of ppci)

VT = {0x7F: "i32", 0x7E: "i64", 0x7D: "f32", 0x7C: "f64"}


class WasmFormatError(Exception):
    pass


def leb_u(b, pos):
    result = shift = 0
    while True:
        if pos >= len(b):
            raise WasmFormatError("truncated LEB")
        x = b[pos]
        pos += 1
        result |= (x & 0x7F) << shift
        if x < 0x80:
            return result, pos
        shift += 7
        if shift > 63:
            raise WasmFormatError("LEB too long")


def enc_u(n):
    out = bytearray()
    while True:
        x = n & 0x7F
        n >>= 7
        if n:
            out.append(x | 0x80)
        else:
            out.append(x)
            return bytes(out)


def _name(b, pos):
    n, pos = leb_u(b, pos)
    return b[pos:pos + n].decode("utf8", "replace"), pos + n


def _limits(b, pos):
    flag = b[pos]
    pos += 1
    _, pos = leb_u(b, pos)
    if flag & 1:
        _, pos = leb_u(b, pos)
    return pos


def parse_wasm(b):
    if b[:8] != b"\x00asm\x01\x00\x00\x00":
        raise WasmFormatError("bad magic/version")
    pos = 8
    info = {"sections": [], "types": [], "imports": [], "funcs": [], "exports": [], "memories": 0}
    while pos < len(b):
        sid = b[pos]
        size, p0 = leb_u(b, pos + 1)
        end = p0 + size
        if end > len(b):
            raise WasmFormatError("section %d overruns the file" % sid)
        info["sections"].append((sid, pos, p0, end))
        q = p0
        if sid == 1:
            n, q = leb_u(b, q)
            for _ in range(n):
                if b[q] != 0x60:
                    raise WasmFormatError("type form %#x" % b[q])
                q += 1
                np_, q = leb_u(b, q)
                ps = [VT[x] for x in b[q:q + np_]]
                q += np_
                nr, q = leb_u(b, q)
                rs = [VT[x] for x in b[q:q + nr]]
                q += nr
                info["types"].append((ps, rs))
        elif sid == 2:
            n, q = leb_u(b, q)
            for _ in range(n):
                mod, q = _name(b, q)
                nm, q = _name(b, q)
                kind = b[q]
                q += 1
                if kind == 0:
                    ti, q = leb_u(b, q)
                    info["imports"].append((mod, nm, "func", ti))
                elif kind == 1:
                    q += 1
                    q = _limits(b, q)
                    info["imports"].append((mod, nm, "table", None))
                elif kind == 2:
                    q = _limits(b, q)
                    info["imports"].append((mod, nm, "memory", None))
                elif kind == 3:
                    q += 2
                    info["imports"].append((mod, nm, "global", None))
                else:
                    raise WasmFormatError("import kind %d" % kind)
        elif sid == 3:
            n, q = leb_u(b, q)
            for _ in range(n):
                ti, q = leb_u(b, q)
                info["funcs"].append(ti)
        elif sid == 5:
            n, q = leb_u(b, q)
            info["memories"] = n
        elif sid == 7:
            n, q = leb_u(b, q)
            for _ in range(n):
                nm, q = _name(b, q)
                kind = b[q]
                idx, q = leb_u(b, q + 1)
                info["exports"].append((nm, kind, idx))
        pos = end
    return info


def export_sig(info, name):
    """(params, results) wasm types of the exported function `name`, or None."""
    nimp = [i for i in info["imports"] if i[2] == "func"]
    for nm, kind, idx in info["exports"]:
        if nm == name and kind == 0:
            ti = nimp[idx][3] if idx < len(nimp) else info["funcs"][idx - len(nimp)]
            return info["types"][ti]
    return None


def add_memory_export(b, info, name=MEM_EXPORT):
    """Append an export entry (memory 0) to the export section; everything else stays byte-identical."""
    entry = enc_u(len(name)) + name.encode() + b"\x02\x00"
    for sid, pos, p0, end in info["sections"]:
        if sid == 7:
            n, q = leb_u(b, p0)
            payload = enc_u(n + 1) + b[q:end] + entry
            return b[:pos] + b"\x07" + enc_u(len(payload)) + payload + b[end:]
    payload = enc_u(1) + entry
    sec = b"\x07" + enc_u(len(payload)) + payload
    at = len(b)
    for sid, pos, p0, end in info["sections"]:
        if sid > 7:
            at = pos
            break
    return b[:at] + sec + b[at:]


# --------------------------------------------------------------------------- values

FLOATS = ("f32", "f64")


def enc(x):
    if isinstance(x, float):
        return {"$f": repr(x)}
    if isinstance(x, (list, tuple)):
        return [enc(y) for y in x]
    if isinstance(x, dict):
        return {k: enc(v) for k, v in x.items()}
    return x


def dec(x):
    if isinstance(x, dict):
        if set(x) == {"$f"}:
            return float(x["$f"])
        return {k: dec(v) for k, v in x.items()}
    if isinstance(x, list):
        return [dec(y) for y in x]
    return x


def ty_bits(ty):
    return 32 if ty == "ptr" else int(ty[1:])


def ty_signed(ty):
    return ty[0] == "i"


def fbits(ty, v):
    if ty == "f32":
        return struct.unpack("<I", struct.pack("<f", v))[0]
    return struct.unpack("<Q", struct.pack("<d", v))[0]


def bits_to_float(ty, b):
    if ty == "f32":
        return struct.unpack("<f", struct.pack("<I", b))[0]
    return struct.unpack("<d", struct.pack("<Q", b))[0]


def to_wasm_arg(ir_ty, wt, v):
    """IR-level argument value -> [wasm type, decimal string] for the declared wasm parameter type; None if impossible."""
    if ir_ty in FLOATS:
        if wt != ir_ty:
            return None
        return [wt, str(fbits(ir_ty, v))]
    if wt not in ("i32", "i64"):
        return None
    w = 32 if wt == "i32" else 64
    if ty_bits(ir_ty) > w:
        return None
    # canonical IR value (signed: sign-extended, unsigned: zero-extended) as a signed w-bit decimal
    u = v & ((1 << w) - 1)
    if u >> (w - 1):
        u -= 1 << w
    return [wt, str(u)]


def show(ir_ty, v):
    if v is None:
        return "void"
    if isinstance(v, float):
        return "%s:%r" % (ir_ty, v)
    return "%s:%d" % (ir_ty, v)


def judge_value(ir_ty, got, want):
    """got = [wasm type, decimal] from node; want = IR-level value.  -> (verdict, shown) with verdict ok | wrong | not-wrapped | type."""
    wt, s = got[0], int(got[1])
    if ir_ty in FLOATS:
        if wt != ir_ty:
            return "type", "%s:%s" % (wt, s)
        g = bits_to_float(ir_ty, s)
        if want != want:
            return ("ok" if g != g else "wrong"), show(ir_ty, g)
        return ("ok" if s == fbits(ir_ty, want) else "wrong"), show(ir_ty, g)
    if wt not in ("i32", "i64"):
        return "type", "%s:%s" % (wt, s)
    w = 32 if wt == "i32" else 64
    b = ty_bits(ir_ty)
    if b > w:
        return "type", "%s:%s" % (wt, s)
    if b == w:
        return ("ok" if (s - want) % (1 << w) == 0 else "wrong"), "%s:%d" % (wt, s)
    if s == want:
        return "ok", "%s:%d" % (wt, s)
    if (s - want) % (1 << b) == 0:
        return "not-wrapped", "%s:%d" % (wt, s)
    return "wrong", "%s:%d" % (wt, s)


def f32round(x):
    try:
        return struct.unpack("<f", struct.pack("<f", x))[0]
    except OverflowError:
        return float("inf") if x > 0 else float("-inf")


def host_result(irparams, irresult, args):
    """Python twin of hostFunction() in the driver, on IR-level values."""
    import math
    if irresult is None:
        return None
    if irresult in FLOATS:
        r = 0.5
        for a in args:
            r += float(a)
        return f32round(r) if irresult == "f32" else r
    s = 0
    for a in args:
        if isinstance(a, float):
            s += int(a) if math.isfinite(a) else 0
        else:
            s += a
    return 3 * s + 1    # Interp wraps to the result type


# --------------------------------------------------------------------------- building a unit's module

def case_module(case):
    """ir.Module of a single case (description or C corpus entry)."""
    from vf.gen import irgen23
    if "c" in case:
        return c_module(case["c"]["name"], case["c"]["opt"])
    return irgen23.build(case["desc"])


_C_SRC = None


def c_module(name, opt):
    global _C_SRC
    from vf.gen import ccorpus
    from ppci.wasm import WasmArchitecture
    from ppci.lang.c import COptions, CBuilder
    from ppci.utils.reporting import DummyReportGenerator
    if _C_SRC is None:
        _C_SRC = dict(ccorpus.CORPUS)
    with contextlib.redirect_stdout(io.StringIO()), contextlib.redirect_stderr(io.StringIO()):
        m = CBuilder(WasmArchitecture().info, COptions()).build(io.StringIO(_C_SRC[name]), None, reporter=DummyReportGenerator())
        if opt:
            from ppci import api
            api.optimize(m, level=str(opt))
    return m


def unit_module(unit):
    """-> (ir.Module, [function name under test per case]).  Several (pure) cases are renamed apart and merged."""
    from vf.gen import irgen23, irgen24
    cases = unit["cases"]
    if len(cases) == 1:
        return case_module(cases[0]), [cases[0]["fn"]]
    descs, names = [], []
    for k, c in enumerate(cases):
        sfx = "_%d" % k
        descs.append(irgen24.rename(c["desc"], sfx))
        names.append(c["fn"] + sfx)
    return irgen23.build(irgen24.merge(descs)), names


def add_addr_helpers(m, names):
    """For every observed global add `ptr __c23_addr_<g>() { return &g; }` so that the compiled code itself tells where the global lives."""
    from ppci import ir
    out = []
    for v in m.variables:
        if v.name in names:
            f = ir.Function(ADDR_PREFIX + v.name, ir.Binding.GLOBAL, ir.ptr)
            m.add_function(f)
            b = ir.Block("entry")
            f.add_block(b)
            f.entry = b
            b.add_instruction(ir.Return(v))
            out.append((v.name, ADDR_PREFIX + v.name, v.amount))
    return out


def compile_module(m):
    """-> ('ok', bytes) | ('rejected', exc, why) | ('crash', exc, None) | ('hang', None, None)"""
    from vf.core import cpu_limit, CpuTimeout, innermost_ppci_frame
    from ppci.common import CompilerError
    from ppci.wasm import ir_to_wasm
    try:
        with cpu_limit(COMPILE_CPU_S):
            with contextlib.redirect_stdout(io.StringIO()):
                wm = ir_to_wasm(m)
                return ("ok", wm.to_bytes(), None)
    except CpuTimeout:
        return ("hang", None, None)
    except RecursionError as ex:
        return ("crash", ex, None)
    except CompilerError as ex:
        return ("rejected", ex, "CompilerError")
    except NotImplementedError as ex:
        return ("rejected", ex, "NotImplementedError")
    except ValueError as ex:
        fr = innermost_ppci_frame(ex)
        if fr.startswith("relooper.py:") or fr == "ppci2wasm.py:compile":
            return ("rejected", ex, "ValueError")
        return ("crash", ex, None)
    except Exception as ex:  # noqa
        return ("crash", ex, None)


def crash_key(ex):
    """compile-crash/<ExcType>/<file:function>; for a RecursionError the function that recurses (the innermost frame is accidental)."""
    import traceback
    from vf.core import exc_key
    if isinstance(ex, RecursionError):
        cnt = {}
        for fr in traceback.extract_tb(ex.__traceback__):
            if "/ppci/" in fr.filename:
                k = "%s:%s" % (os.path.basename(fr.filename), fr.name)
                cnt[k] = cnt.get(k, 0) + 1
        if cnt:
            return "compile-crash/RecursionError/%s" % max(sorted(cnt), key=lambda k: cnt[k])
    return exc_key("compile-crash", ex)


def unsupported_token(ex):
    """Short stable name of what a NotImplementedError/CompilerError complains about (selection-tree operator)."""
    s = str(ex)
    tok = s.split("(")[0].split("[")[0].strip()
    return (type(ex).__name__ + ":" + tok[:30]) if tok else type(ex).__name__


# --------------------------------------------------------------------------- reference (stateful over the call sequence of one case)

class Ref:
    def __init__(self, m, steps):
        from ppci import ir
        from vf.sem.irinterp import Interp
        self.log = []
        self.ext = {}
        externals = {}
        for e in m.externals:
            if isinstance(e, ir.ExternalSubRoutine):
                ps = [t.name for t in e.argument_types]
                rt = e.return_ty.name if isinstance(e, ir.ExternalFunction) else None
                self.ext[e.name] = (ps, rt)
                externals[e.name] = self._mk(e.name, ps, rt)
        self.it = Interp(m, ptr_size=4, max_steps=steps, max_depth=MAX_DEPTH, externals=externals)

    def _mk(self, name, ps, rt):
        def f(it, args):
            self.log.append((name, list(args)))
            return host_result(ps, rt, args)
        return f

    def call(self, fname, args, observed):
        """-> ('ok', value, {global: bytes}, trace) | ('undef'|'horizon'|'unsupported', msg)"""
        from vf.sem import irinterp as I
        it = self.it
        saved = [(r, bytes(r.data), bytes(r.init)) for _, r in it.globals]
        it.steps = 0
        del self.log[:]
        try:
            r = it.call(fname, args)
            if r is I.UNDEF:
                raise I.Undefined("undefined value returned")
            if isinstance(r, tuple):
                raise I.Unsupported("blob result")
            g = {name: bytes(reg.data[:reg.size]) for name, reg in it.globals if name in observed}
            return ("ok", r, g, list(self.log))
        except I.Undefined as e:
            kind, msg = "undef", str(e)
        except I.Horizon as e:
            kind, msg = "horizon", str(e)
        except I.Unsupported as e:
            kind, msg = "unsupported", str(e)
        except RecursionError:
            kind, msg = "horizon", "python recursion"
        for r, d, i in saved:
            r.data[:] = d
            r.init[:] = i
        return (kind, msg)


# --------------------------------------------------------------------------- prepare: compile + reference + node job

def fn_types(m, name):
    from ppci import ir
    for f in m.functions:
        if f.name == name:
            return [a.ty.name for a in f.arguments], (f.return_ty.name if isinstance(f, ir.Function) else None)
    raise KeyError(name)


def prepare(unit):
    """Compile the unit and compute the expected observations.  Returns a dict with 'status':
    compiled | rejected | crash | hang | build-error (harness) | signature."""
    pr = {"unit": unit, "status": None}
    cases = unit["cases"]
    try:
        m, names = unit_module(unit)
    except Exception as ex:  # noqa  (front end / builder problem: not this property's business)
        pr.update(status="build-error", exc=ex)
        return pr
    observed = set()
    per_case = []
    for k, c in enumerate(cases):
        sfx = "_%d" % k if len(cases) > 1 else ""
        own = set(g[0] + sfx for g in c["desc"].get("globals", [])) if "desc" in c else set(v.name for v in m.variables)
        mine = set(v.name for v in m.variables if v.name in own and v.name[:len(v.name) - len(sfx)] not in set(c.get("skip_globals", ())))
        per_case.append(mine)
        observed |= mine
    pr["names"] = names
    pr["types"] = [fn_types(m, n) for n in names]
    helpers = add_addr_helpers(m, observed)
    # reference runs first (on the module as built; ir_to_wasm sees it afterwards)
    exps = []
    skipped = {}
    for ci, c in enumerate(cases):
        ref = Ref(m, c.get("steps", 20))
        for ai, args in enumerate(c["args"]):
            exp = ref.call(names[ci], args, per_case[ci])
            if exp[0] != "ok":
                skipped[exp[0]] = skipped.get(exp[0], 0) + 1
                continue
            exps.append((ci, ai, exp))
    st, a, why = compile_module(m)
    if st != "ok":
        pr.update(status=st, exc=a, why=why)
        return pr
    wasm = a
    pr["wasm_len"] = len(wasm)
    try:
        info = parse_wasm(wasm)
        patched = add_memory_export(wasm, info) if info["memories"] or any(i[2] == "memory" for i in info["imports"]) else wasm
    except (WasmFormatError, IndexError, KeyError) as ex:
        info, patched = None, wasm
        pr["parse_error"] = "%s: %s" % (type(ex).__name__, ex)
    calls, plan = [], []          # plan[k] = (case index, arg index, expectation)
    sig_problem = None
    for ci, ai, exp in exps:
        if info is None:
            break
        ptys, rty = pr["types"][ci]
        sig = export_sig(info, names[ci])
        if sig is None:
            sig_problem = "function %s is not exported" % names[ci]
            continue
        wps, wrs = sig
        args = cases[ci]["args"][ai]
        wargs = [to_wasm_arg(t, w, v) for t, w, v in zip(ptys, wps, args)] if len(wps) == len(ptys) else [None]
        if any(x is None for x in wargs) or (rty is None) != (not wrs):
            sig_problem = "%s: IR signature (%s)->%s compiled to wasm (%s)->(%s)" % (names[ci], ",".join(ptys), rty, ",".join(wps), ",".join(wrs))
            continue
        calls.append({"f": names[ci], "args": wargs, "ret": wrs[0] if wrs else None, "gs": [k for k, h in enumerate(helpers) if h[0] in per_case[ci]]})
        plan.append((ci, ai, exp))
    pr["skipped"] = skipped
    pr["plan"] = plan
    pr["sig_problem"] = sig_problem
    imports = []
    if info:
        ext = {}
        from ppci import ir
        for e in m.externals:
            if isinstance(e, ir.ExternalSubRoutine):
                ext[e.name] = ([t.name for t in e.argument_types], e.return_ty.name if isinstance(e, ir.ExternalFunction) else None)
        pr["ext"] = ext
        for mod, nm, kind, ti in info["imports"]:
            if kind == "func":
                ps, rs = info["types"][ti]
                ips, irt = ext.get(nm, (list(ps), rs[0] if rs else None))
                imports.append({"mod": mod, "name": nm, "params": ps, "result": rs[0] if rs else None, "irparams": ips, "irresult": irt})
    pr["job"] = {"wasm": base64.b64encode(patched).decode(), "imports": imports, "calls": calls, "mem": MEM_EXPORT,
                 "globals": [[g, h, s] for g, h, s in helpers]}
    pr["status"] = "compiled"
    return pr


# --------------------------------------------------------------------------- judging

TRAP_KINDS = [("unreachable", "unreachable"), ("divide by zero", "div-zero"), ("remainder by zero", "div-zero"), ("unrepresentable", "unrepresentable"),
              ("memory access out of bounds", "oob-memory"), ("table index is out of bounds", "oob-table"), ("out of bounds", "oob"),
              ("signature mismatch", "indirect-signature"), ("null function", "indirect-null"), ("call stack", "stack-exhausted")]


def trap_kind(msg):
    for needle, kind in TRAP_KINDS:
        if needle in msg:
            return kind
    return "other"


def finding(case, order, key, what, args_seq, ai, direct):
    return {"case": case, "order": order, "key": key, "what": what, "args_seq": args_seq, "ai": ai, "direct": direct}


def mech_key(case, symptom, extra=None):
    """Locus key for a mismatch of `symptom` on `case` (extra: dict with verdict details)."""
    extra = extra or {}
    fam, mech, info = case["fam"], case["mech"], case.get("info", {})
    if symptom == "wrong" and extra.get("verdict") == "not-wrapped":
        return "type/%s/not-wrapped" % extra.get("ty", "?")
    if fam == "op":
        if info.get("op") == "cast":
            s = "float" if info["src"] in FLOATS else "int"
            d = "float" if info["dst"] in FLOATS else "int"
            if s == "float" and d == "int":
                # wrong value and 'unrepresentable' trap are two faces of one conversion sequence
                return "cast/float-to-int" if symptom in ("wrong", "trap-unrepresentable") else "cast/float-to-int/%s" % symptom
        return mech if symptom == "wrong" else "%s/%s" % (mech, symptom)
    if fam == "mem" and "store" in info and mech == "memory":
        if symptom == "wrong":
            return "memory/store/%s" % info["store"] if extra.get("memory") else "memory/load/%s" % info["load"]
        return "memory/%s-%s/%s" % (info["store"], info["load"], symptom)
    if fam == "cfg":
        # value, memory and external-trace mismatches are one symptom here: the wrong path was taken
        sym = "wrong-result" if symptom in ("wrong", "external-calls") else symptom
        if info.get("form") == "ssa":
            # SSA-form programs: the phi lowering is the suspect unless the same skeleton also fails without phis (see attribute())
            phi = info.get("phi", "plain")
            phi = "branch-into-phi-block" if "branch-into-phi-block" in phi else phi
            return "ssa/%s/%s" % (phi, sym)
        return "relooper/%s/%s" % (info.get("cls", "?"), sym)
    return mech if symptom == "wrong" and fam in ("globals", "call") else "%s/%s" % (mech, "wrong-result" if symptom == "wrong" else symptom)


def invalid_key(msg):
    """invalid-wasm/<what V8's validator complains about>, without function numbers and offsets."""
    import re
    m = str(msg or "?")
    m = re.sub(r"^WebAssembly\.Module\(\): ", "", m)
    m = re.sub(r"Compiling function #\d+(:\"[^\"]*\")? failed: ", "", m)
    m = re.sub(r" @\+\d+$", "", m)
    m = m.split(", found")[0]
    m = re.sub(r"\d+", "N", m) if "expected" not in m else m
    return "invalid-wasm/" + m[:70].strip().replace(" ", "-")


def call_text(case, args):
    return "%s(%s)" % (case["fn"], ", ".join(repr(a) for a in args))


def judge(p, pr, res, findings, base_order):
    """Compare node's result of one prepared unit with the expectations.  Appends findings; returns True when the unit must be split."""
    from vf.core import exc_key
    unit = pr["unit"]
    cases = unit["cases"]
    multi = len(cases) > 1
    c0 = cases[0]
    st = pr["status"]

    def cls_count(name):
        for c in cases:
            info = c.get("info", {})
            if "reducible" in info:
                p.count("%s_%s" % (name, "reducible" if info["reducible"] else "irreducible"))
                p.count("%s_cls_%s" % (name, info.get("cls")))

    if st == "build-error":
        p.count("harness_build_errors")
        p.collect("unclassified", "could not build %s: %s: %s" % (c0["label"][:60], type(pr["exc"]).__name__, str(pr["exc"])[:80]))
        return False
    if st in ("rejected", "crash", "hang"):
        if multi:
            return True
        p.add()
        order = base_order
        if st == "rejected":
            p.count("modules_rejected")
            p.count("rejected_" + pr["why"])
            p.collect("rejections", "%s | %s" % ("op" if c0["fam"] == "op" else c0["mech"], unsupported_token(pr["exc"])))
            cls_count("rejected")
            p.outcome(("rejected", c0["mech"], unsupported_token(pr["exc"])))
            return False
        if st == "hang":
            key = mech_key(c0, "compile-hang")
            findings.append(finding(c0, order, key, "%s: ir_to_wasm exceeded %d s CPU" % (c0["label"], COMPILE_CPU_S), c0["args"][:1], None, True))
            return False
        ex = pr["exc"]
        p.count("modules_crashing_the_compiler")
        cls_count("crashed")
        key = crash_key(ex)
        findings.append(finding(c0, order, key, "%s: ir_to_wasm raised %s: %s (not a diagnosed rejection)" % (c0["label"], type(ex).__name__, str(ex)[:120]),
                                c0["args"][:1], None, True))
        return False
    # compiled
    if pr.get("parse_error") and res is not None and res.get("valid"):
        p.count("harness_wasm_reader_failed")
        p.collect("unclassified", "own wasm reader failed on a module V8 accepts: " + pr["parse_error"])
        return False
    if res is None:
        p.count("node_results_missing")
        return False
    if not res.get("valid"):
        if res.get("stage") in ("driver", "driver-hang"):
            p.count("node_driver_problems")
            p.collect("unclassified", "driver: %s" % str(res.get("error"))[:100])
            return False
        if multi:
            return True
        p.add()
        p.count("modules_invalid")
        cls_count("invalid")
        findings.append(finding(c0, base_order, invalid_key(res.get("error")), "%s: V8 rejects the module produced by ir_to_wasm (%s): %s" %
                                (c0["label"], res.get("stage"), str(res.get("error"))[:160]), c0["args"][:1], None, True))
        return False
    if res.get("stage") == "instantiate":
        if multi:
            return True
        p.add()
        findings.append(finding(c0, base_order, mech_key(c0, "instantiate-error"), "%s: module validates but cannot be instantiated: %s" %
                                (c0["label"], str(res.get("error"))[:160]), c0["args"][:1], None, True))
        return False
    if res.get("stage") != "run":
        p.count("node_driver_problems")
        p.collect("unclassified", "driver stage %s: %s" % (res.get("stage"), str(res.get("error"))[:100]))
        return False
    p.count("modules_accepted_and_valid")
    cls_count("accepted")
    if pr.get("sig_problem"):
        if multi:
            return True
        findings.append(finding(c0, base_order, mech_key(c0, "signature"), "%s: %s" % (c0["label"], pr["sig_problem"]), c0["args"][:1], None, True))
    for k, n in pr["skipped"].items():
        p.count("runs_not_compared_" + k, n)
    for name, addr in res.get("gaddr", []):
        if addr is None:
            p.count("global_address_helper_failed")
    plan = pr["plan"]
    rcalls = res.get("calls", [])
    diverged = set()
    executed = {}
    tainted = False
    for idx, (ci, ai, exp) in enumerate(plan):
        c = cases[ci]
        if idx >= len(rcalls):
            p.count("node_results_missing")
            break
        rec = rcalls[idx]
        nprev = executed.get(ci, 0)
        executed[ci] = nprev + 1
        if rec.get("capped"):
            p.count("calls_not_executed_hang_cap")
            continue
        if ci in diverged or "skipped" in rec:
            p.count("calls_not_compared_after_divergence")
            continue
        p.add()
        args = c["args"][ai]
        order = base_order + ci * 1000 + ai
        direct = (not multi) and nprev == 0 and not tainted
        ptys, rty = pr["types"][ci]
        _, want, wantg, wanttrace = exp
        seq = c["args"][:ai + 1]
        stateful = bool(wantg) or not c.get("pure")

        def report(symptom, text, extra=None, c=c, order=order, args=args, seq=seq, ai=ai, direct=direct, ci=ci):
            findings.append(finding(c, order, mech_key(c, symptom, extra), "%s, %s: %s" % (c["label"], call_text(c, args), text), seq, ai, direct))
            if stateful or symptom != "wrong":
                diverged.add(ci)

        if "hang" in rec:
            tainted = True
            report("hang", "the wasm code does not terminate (watchdog: no progress for >= %d ms); IR semantics: returns %s after <= %d block steps" %
                   (CALL_TIMEOUT_MS, show(rty, want), c.get("steps", 20)))
            continue
        if "error" in rec:
            p.count("node_call_errors")
            p.collect("unclassified", "node call error: %s" % rec["error"][:100])
            diverged.add(ci)
            continue
        if "trap" in rec:
            tainted = True
            report("trap-" + trap_kind(rec["trap"]), "wasm traps (%s); IR semantics: returns %s" % (rec["trap"], show(rty, want)))
            continue
        # returned value
        bad = False
        if rty is not None:
            if rec.get("v") is None:
                report("wrong", "wasm returns nothing, IR semantics give %s" % show(rty, want))
                continue
            verdict, shown = judge_value(rty, rec["v"], want)
            if verdict == "type":
                report("signature", "result has wasm type %s for IR type %s" % (shown, rty))
                continue
            if verdict != "ok" and rty != "ptr":
                report("wrong", "wasm returns %s, IR semantics give %s" % (shown, show(rty, want)), {"verdict": verdict, "ty": rty})
                bad = True
        # external calls
        got_trace = rec.get("host") or []
        if not bad and (got_trace or wanttrace):
            msg = compare_trace(pr.get("ext", {}), got_trace, wanttrace)
            if msg:
                report("external-calls", msg[1], {"verdict": msg[0], "ty": msg[2]} if msg[0] == "not-wrapped" else None)
                bad = True
        # globals
        if not bad and wantg:
            gg = rec.get("g") or {}
            for name in sorted(wantg):
                h = gg.get(name)
                if h is None:
                    p.count("global_not_readable")
                    continue
                if bytes.fromhex(h) != wantg[name]:
                    report("wrong", "global %s holds %s after the call, IR semantics give %s (returned value %s)" %
                           (name, h, wantg[name].hex(), "agrees" if rty is not None else "none"), {"memory": True})
                    bad = True
                    break
        if not bad:
            p.outcome((c["mech"], rec.get("v"), tuple(sorted((rec.get("g") or {}).items())), len(got_trace)))
    return False


def compare_trace(ext, got, want):
    """got: [[name, [[wt, dec]...]]...] from node; want: [(name, [IR values])].  -> None | (verdict, text, ty)"""
    if [g[0] for g in got] != [w[0] for w in want]:
        return ("wrong", "external calls made: %s; IR semantics: %s" % ([g[0] for g in got][:8], [w[0] for w in want][:8]), None)
    for (name, gargs), (_, wargs) in zip(got, want):
        ptys = ext.get(name, ([], None))[0]
        if len(gargs) != len(wargs) or len(ptys) != len(wargs):
            return ("wrong", "external %s called with %d arguments, IR semantics: %d" % (name, len(gargs), len(wargs)), None)
        for t, g, w in zip(ptys, gargs, wargs):
            verdict, shown = judge_value(t, g, w)
            if verdict != "ok":
                return (verdict, "external %s called with %s, IR semantics: %s" % (name, shown, show(t, w)), t)
    return None


# --------------------------------------------------------------------------- pipeline

def run_units(p, units, driver, findings, timeout_ms=CALL_TIMEOUT_MS):
    """prepare -> node -> judge for `units`; returns the list of units that must be re-run split into single cases."""
    prepared = [prepare(u) for u in units]
    jobs = [pr["job"] for pr in prepared if pr["status"] == "compiled"]
    try:
        results = node_run(jobs, driver, timeout_ms) if jobs else []
    except NodeFailure as ex:
        p.count("node_batch_failures")
        p.collect("unclassified", "node batch failed: %s" % str(ex)[:160])
        return []
    it = iter(results)
    split = []
    for pr in prepared:
        res = next(it) if pr["status"] == "compiled" else None
        if judge(p, pr, res, findings, pr["unit"]["order"]):
            split.append(pr["unit"])
    return split


def single_units(unit):
    return [{"cases": [c], "order": unit["order"] + k * 1000} for k, c in enumerate(unit["cases"])]


def witness_of(case, args_seq):
    w = {k: case[k] for k in ("fam", "mech", "label", "fn", "steps", "skip_globals", "info", "pure") if k in case}
    if "c" in case:
        w["c"] = case["c"]
    else:
        w["desc"] = case["desc"]
    w["args"] = args_seq
    return enc(w)


def process_units(p, units, driver, findings):
    split = run_units(p, units, driver, findings)
    if split:
        singles = [s for u in split for s in single_units(u)]
        p.count("units_split_into_single_functions", len(split))
        run_units(p, singles, driver, findings)


def attribute(findings):
    """An SSA-form program that fails on a skeleton whose memory-variable form fails too (same symptom) shows the structuring defect,
    not a phi defect: it gets the relooper key of its shape class."""
    bad = set()
    for f in findings:
        info = f["case"].get("info", {})
        if f["case"]["fam"] == "cfg" and info.get("form") != "ssa" and f["key"].startswith("relooper/"):
            bad.add((repr(info.get("skel")), f["key"].rsplit("/", 1)[-1]))
    for f in findings:
        info = f["case"].get("info", {})
        if f["case"]["fam"] == "cfg" and info.get("form") == "ssa" and f["key"].startswith("ssa/"):
            sym = f["key"].rsplit("/", 1)[-1]
            if (repr(info.get("skel")), sym) in bad:
                f["key"] = "relooper/%s/%s" % (info.get("cls", "?"), sym)
                f["attributed"] = True


def confirm(p, findings, driver):
    """A finding becomes a violation when it reproduces in isolation: the function alone in its module, fresh instance, the single
    argument vector (else the prefix of the call sequence up to it)."""
    from vf.core import Partial
    by_key = {}
    for f in findings:
        by_key.setdefault(f["key"], []).append(f)
    for key in by_key:
        by_key[key].sort(key=lambda f: f["order"])
    for attempt in range(3):
        todo = []
        for key, fs in sorted(by_key.items()):
            if not fs:
                continue
            f = fs[0]
            if f["direct"]:
                p.violation(key, f["what"], witness_of(f["case"], f["args_seq"][-1:] if f["ai"] is not None else f["args_seq"]), order=f["order"])
                by_key[key] = []
            else:
                todo.append(f)
        if not todo:
            return
        # stage A: the single argument vector
        for stage in ("single", "prefix"):
            if not todo:
                break
            units = []
            for k, f in enumerate(todo):
                seq = f["args_seq"][-1:] if stage == "single" else f["args_seq"]
                units.append({"cases": [dict(f["case"], args=seq)], "order": f["order"]})
            sub = []
            q = Partial()
            run_units(q, units, driver, sub, timeout_ms=CONFIRM_TIMEOUT_MS)
            rest = []
            for f, u in zip(todo, units):
                hit = sorted([s for s in sub if s["case"] is u["cases"][0]], key=lambda s: (s["key"] != f["key"], s["order"]))
                if hit:
                    s = hit[0]
                    key = f["key"] if f.get("attributed") else s["key"]
                    p.violation(key, s["what"], witness_of(u["cases"][0], u["cases"][0]["args"]), order=f["order"])
                    by_key[f["key"]] = []
                elif stage == "single" and len(f["args_seq"]) > 1:
                    rest.append(f)
                else:
                    p.count("findings_not_reproduced_in_isolation")
                    p.collect("unclassified", "not reproduced in isolation: %s :: %s" % (f["key"], f["what"][:120]))
                    by_key[f["key"]].pop(0)
            todo = rest
    for key, fs in sorted(by_key.items()):
        if fs:
            p.count("findings_left_unconfirmed", len(fs))
            p.collect("unclassified", "3 candidates of %s did not reproduce in isolation, %d more not tried" % (key, len(fs)))


# --------------------------------------------------------------------------- work items

def cfg_slices(n, per):
    from vf.gen import irgen
    total = len(irgen.cfg_skeletons(n))
    return [(lo, min(lo + per, total)) for lo in range(0, total, per)]


def work_items(tier, seed):
    from vf.gen import irgen23 as G
    from vf.gen import ccorpus
    quick = tier == "quick"
    items = []
    for ty in G.VALUE_TYPES:
        for op in G.binops(ty):
            items.append(("op", ty, op))
        items.append(("unop", ty))
        items.append(("const", ty))
        items.append(("cast", ty))
        items.append(("cmp", ty))
    for i in range(8):
        items.append(("mem", i, 8))
    items.append(("globals",))
    items.append(("call",))
    items.append(("phi",))
    for n in (1, 2):
        items.append(("cfg", n, 0, None, "full"))
    for lo, hi in cfg_slices(3, 4):
        items.append(("cfg", 3, lo, hi, "full"))
    if quick:
        for lo, hi in cfg_slices(4, 60):
            items.append(("cfg", 4, lo, hi, "one"))
    else:
        for lo, hi in cfg_slices(4, 12):
            items.append(("cfg", 4, lo, hi, "full"))
        for ty in ("i32", "i64", "f64"):
            for part in range(16):
                items.append(("l1k2", ty, part, 16))
    for name, _ in ccorpus.CORPUS:
        items.append(("c", name))
    return items


def cases_of(item, tier, seed):
    from vf.gen import irgen23 as G
    from vf.gen import irgen24
    quick = tier == "quick"
    kind = item[0]
    if kind == "op":
        return [c for c in G.op_cases(7, [item[1]]) if c["info"]["op"] == item[2]]
    if kind == "unop":
        return list(G.unop_cases(7, [item[1]]))
    if kind == "const":
        return list(G.const_cases(13, [item[1]]))
    if kind == "cast":
        return [c for c in G.cast_cases(G.VALUE_TYPES, quick) if c["info"]["src"] == item[1]]
    if kind == "cmp":
        return list(G.cmp_cases(7, [item[1]]))
    if kind == "l1k2":
        return list(G.l1k2_cases([item[1]], 7, item[2], item[3]))
    if kind == "mem":
        return list(G.mem_cases(quick))[item[1]::item[2]]
    if kind == "globals":
        return list(G.global_cases(quick))
    if kind == "call":
        return list(G.call_cases(quick))
    if kind == "phi":
        return list(G.phi_cases(quick))
    if kind == "cfg":
        n, lo, hi, mode = item[1:]
        sk = None if hi is None else (lo, hi)
        if mode == "full":
            return list(G.cfg_cases(n, quick, G.CFG_VARIANTS_Q if (quick or n >= 4) else 18, True, sk))
        # one rotation per skeleton, selected by the seed (every seed explores its slice completely)
        return list(G.cfg_cases(n, quick, 12, False, sk, pick=seed))
    if kind == "c":
        args = irgen24.cfg_args("i32", quick)
        out = []
        for opt in (0, 2):
            out.append({"fam": "c", "mech": "c/%s" % item[1], "label": "C corpus '%s' at -O%d" % (item[1], opt), "c": {"name": item[1], "opt": opt}, "fn": "f",
                        "args": c_args(item[1], args), "steps": 400, "pure": False, "info": {"opt": opt}, "skip_globals": []})
        return out
    raise ValueError(item)


def c_args(name, args):
    from vf.gen import ccorpus
    src = dict(ccorpus.CORPUS)[name]
    # 'diamond' takes three ints
    head = src[src.index("int f("):]
    nparams = head[:head.index(")")].count(",") + 1
    if nparams == 3:
        return [[a, b, a + b] for a, b in args]
    return args


SAFE_CLASSES = ("straight", "if", "self-loop", "loop-single-exit")   # structured by the unchanged tree (batching heuristic only)


def batch_tag(c):
    """Cases with the same tag may share a wasm module (each keeps its own renamed globals/externals); None: module of its own."""
    if c.get("pure"):
        return ("pure", c["mech"]), PURE_BATCH
    if c["fam"] == "cfg":
        info = c["info"]
        if info.get("cls") in SAFE_CLASSES:
            return ("cfg-safe",), CFG_BATCH
        return ("cfg", repr(info.get("skel"))), CFG_BATCH     # same skeleton: accepted or refused together
    return None, 1


def units_of(cases, base_order):
    """Consecutive cases with the same batch tag share modules; a module that is refused is re-run split into single functions."""
    units = []
    k = 0
    while k < len(cases):
        tag, limit = batch_tag(cases[k])
        group = [cases[k]]
        first = k
        k += 1
        while tag is not None and k < len(cases) and len(group) < limit and batch_tag(cases[k])[0] == tag:
            group.append(cases[k])
            k += 1
        units.append({"cases": group, "order": base_order + first * 1000})
    return units


ITEM_STRIDE = 10 ** 8


UNITS_PER_ROUND = 1500


def worker(p, shard, tier, seed, driver):
    """All items of the shard go through the pipeline together (few node processes: start-up dominates small batches)."""
    global _max_hangs
    from vf.core import use_repo
    use_repo()
    _max_hangs = MAX_HANGS_PER_NODE.get(tier, 16)
    units = []
    for idx, item in shard:
        cases = cases_of(item, tier, seed)
        units += units_of(cases, idx * ITEM_STRIDE)
        p.count("functions_enumerated", len(cases))
    findings = []
    for i in range(0, len(units), UNITS_PER_ROUND):
        process_units(p, units[i:i + UNITS_PER_ROUND], driver, findings)
    attribute(findings)
    confirm(p, findings, driver)


def run(ctx):
    from vf.core import scratch, HarnessError, NPROC
    from vf.gen import irgen, irgen23
    items = work_items(ctx.tier, ctx.seed)
    ctx.note("work_items", len(items))
    sk = {n: irgen.cfg_skeletons(n) for n in (1, 2, 3, 4)}
    shape = {}
    for n, sks in sk.items():
        for s in sks:
            a = irgen23.skel_analysis(s)
            shape.setdefault("n%d" % n, {}).setdefault(a["cls"], 0)
            shape["n%d" % n][a["cls"]] += 1
    ctx.note("skeletons_per_shape_class", shape)
    ctx.sample({"case": "cfg", "skeleton": [["cjmp", 1, 2], ["jmp", 2], ["ret"]], "class": "if", "args": [1, 2], "compared": "result, global g, external trace"})
    ctx.sample({"case": "op", "function": "u32 f(u32 a, u32 b) = a + b", "args": [4294967295, 1], "reference": 0})
    # heavy items first for load balance; witnesses stay simplest-first through explicit orders
    weight = {"cfg": 0, "c": 1, "mem": 2, "call": 3, "globals": 3, "phi": 3}
    indexed = sorted(enumerate(items), key=lambda t: (weight.get(t[1][0], 5), t[0]))
    with scratch(ID) as d:
        driver = write_driver(d)
        ctx.pmap(worker, indexed, extra=(ctx.tier, ctx.seed, driver), nshards=min(len(indexed), 2 * NPROC))
    c = ctx.counters
    ctx.note("cfg_outcomes_by_reducibility", {
        "reducible": {"accepted": c.get("accepted_reducible", 0), "rejected": c.get("rejected_reducible", 0), "crashed": c.get("crashed_reducible", 0),
                      "invalid": c.get("invalid_reducible", 0)},
        "irreducible": {"accepted": c.get("accepted_irreducible", 0), "rejected": c.get("rejected_irreducible", 0), "crashed": c.get("crashed_irreducible", 0),
                        "invalid": c.get("invalid_irreducible", 0)}})
    if c.get("node_batch_failures"):
        raise HarnessError("node driver failed: %s" % sorted(ctx.sets.get("unclassified", ()))[:3])
    if c.get("calls_not_executed_hang_cap"):
        ctx.cap("%d calls were not executed: after %d non-terminating calls in one node process the remaining calls of that process are skipped "
                "(the tree under test mistranslates loops wholesale)" % (c["calls_not_executed_hang_cap"], MAX_HANGS_PER_NODE.get(ctx.tier, 16)))
    if c.get("harness_wasm_reader_failed") or c.get("harness_build_errors"):
        ctx.cap("%d modules could not be built or read by the harness" % (c.get("harness_wasm_reader_failed", 0) + c.get("harness_build_errors", 0)))


def replay(w):
    from vf.core import Partial, use_repo, scratch
    use_repo()
    case = dec(w)
    case.setdefault("skip_globals", [])
    case.setdefault("info", {})
    p = Partial()
    findings = []
    with scratch(ID + "r") as d:
        driver = write_driver(d)
        unit = {"cases": [case], "order": 0}
        run_units(p, [unit], driver, findings, timeout_ms=CONFIRM_TIMEOUT_MS)
    if findings:
        findings.sort(key=lambda f: f["order"])
        return True, "; ".join("%s :: %s" % (f["key"], f["what"][:300]) for f in findings[:3])
    if p.counters.get("modules_rejected"):
        return False, "ir_to_wasm rejects the module (allowed outcome)"
    return False, "wasm code agrees with IR semantics on this case (%d calls compared)" % p.evaluations
