"""C30 - compilation is deterministic: same sources + options => byte-identical objects and images,
whatever the hash seed, the allocator, the heap layout and the earlier compilations of the process.

Explicit exploration of a configuration grid x in-process operation histories.  A *state* is
(unit, target, opt level, configuration, history); a configuration is (PYTHONHASHSEED, allocator, heap padding)
and is realised as a fresh sub-process (vf/checks/c30_worker.py) started with a fixed minimal environment and
ASLR off, so that it is itself deterministic; the history is the sequence of compile operations the process
executed before.  Histories explored:
  * every word over the operation alphabet {P, Q, X} (P = the unit, Q = another unit, X = the unit for another
    target) up to a depth, each from a pristine process, for selected units;
  * long scripts in which every (unit, target, level) is compiled after two other operations, directly after
    itself, and directly after the same unit for another target;
  * (thorough) every unit as the very first compilation of a process.
Invariant checked at every transition (= one api.cc + api.link): ObjectFile.save text and linked image are
byte-identical to the reference state (first compilation of that unit in configuration seed 0 / pymalloc / pad 0).
"""
import os
import json
import itertools
import threading
import subprocess
import concurrent.futures

ID = "C30"
LEVEL = "model_checking"
RULE = ("state = (C unit, target, opt level, configuration (PYTHONHASHSEED, allocator, heap padding), in-process history of compile "
        "operations); quick: complete sub-grid seeds {0,1} x {pymalloc, malloc} x pad {0,17}, 6 targets, 46 C units + 1 asm unit x levels "
        "{0,2}, script contexts after-two-others / same-twice / other-target-first, plus all depth-2 words over {P,Q,X} ending in P from a "
        "pristine process (target pair rotated by configuration number + VERIF_SEED); thorough: seeds {0..3} x {pymalloc, malloc} x pad {0,1,17,4099}, 10 targets, 51 units (3 heaviest only in the 8 "
        "configurations at distance <= 1 from the reference), all words of depth 3 (configurations differing from the reference in the "
        "seed only, 2 target pairs) or 2 over {P,Q,X}, every unit as first compilation of a process for each target pair; distinct non-trivial = distinct (target, level, object digest) of a compiled unit")
ASSUMPTIONS = [
    "in every state the unit's object is linked twice: the second image must equal the first and the object's saved text must be unchanged by "
    "linking (key <family>/link-twice); this is judged inside one process, not against the reference configuration",
    "oracle: equality of ObjectFile.save text and of the linked image (save text + image bytes) with the reference state; no model of the compiler is involved",
    "every configuration process is deterministic: ASLR off (setarch -R), fixed minimal environment, fixed argv/cwd/stdin; the reference "
    "configuration is run twice and compared, and every divergence is re-run (and must reproduce itself) before it is reported",
    "the worker disables the logging module (LogRecord creation allocates depending on the wall clock) and formats its own timing "
    "allocation-neutrally; ppci's warnings are therefore not printed",
    "stage digests come from a ppci ReportGenerator passed as cc(reporter=...) in every state alike (observation only, used to name the locus)",
    "targets avr, stm8 (C front end raises KeyError 'ir-typ i32' for every unit) and m68k (2 of 102 unit/level pairs compile, several hang) "
    "are dropped by name; (unit, target, level) triples that raise the same error in every state are counted as unsupported, not as violations",
    "link step: fixed two-region layout, no runtime library; a unit needing runtime symbols records the (identical) link error",
    "debug=True, the c3/other front ends and identity-hash salting (DESIGN 3.8) are not explored",
]
CLAIM = {
    "text": "for the corpus of C/assembly units and every explored configuration and history, object files and linked images are byte-identical",
    "note": "trusted base: the harness' own determinism (ASLR off, fixed environment); divergences are re-run before they are reported",
    "technique": "configuration-grid x history exploration with byte comparison against a reference state",
    "engine": "K2 configuration grid",
}

HERE = os.path.dirname(os.path.abspath(__file__))
WORKER = os.path.join(HERE, "c30_worker.py")
PYTHON = "/venv/bin/python"
REF = (0, "pymalloc", 0)

PAIRS = [("arm", "x86_64"), ("riscv", "arm:thumb"), ("riscv:rvc", "or1k"), ("microblaze", "mips"), ("msp430", "xtensa")]
QUICK_SKIP = {"pressure12", "pressure16", "pressure24", "pressure32", "pressure10c", "pressure14c", "pressure20c"}
HEAVY = {"pressure24", "pressure32", "pressure20c"}
# extra units per target pair in the quick tier: riscv needs >= 12 live values to show allocator choices,
# pressure20c makes the x86_64/arm allocators spill coalesced nodes
QUICK_EXTRA = {"arm": ["pressure20c"], "riscv": ["pressure12"], "riscv:rvc": ["pressure12"]}
LEVELS = (0, 2)
ASM = "asm:asm_basic"
ASM_FAIL = "asm:asm_fail"


def _worker_mod():
    import importlib.util
    spec = importlib.util.spec_from_file_location("c30_worker", WORKER)
    m = importlib.util.module_from_spec(spec)
    spec.loader.exec_module(m)
    return m


def family(t):
    return t.split(":")[0]


def cfg_str(c):
    return "seed=%d/%s/pad=%d" % tuple(c)


# ------------------------------------------------------------------ the explored grid

def configs(tier):
    if tier == "quick":
        seeds, mallocs, pads = (0, 1), ("pymalloc", "malloc"), (0, 17)
    else:
        seeds, mallocs, pads = (0, 1, 2, 3), ("pymalloc", "malloc"), (0, 1, 17, 4099)
    out = [(s, m, p) for s in seeds for m in mallocs for p in pads]
    # simplest first: fewest coordinates away from the reference
    out.sort(key=lambda c: (distance(c), c[0], c[1] != "pymalloc", c[2]))
    assert out[0] == REF
    return out


def distance(cfg):
    return sum(1 for a, b in zip(cfg, REF) if a != b)


def script_shard(t, x, progs, pattern, asm):
    """One long history: per unit and level the operations `pattern` (a = first target of the unit, b = the other;
    the roles alternate from unit to unit), then the assembly units twice."""
    return {"t": t, "x": x, "progs": progs, "pat": pattern, "asm": asm}


def word_shard(ops):
    """One short history from the pristine process."""
    return {"ops": [list(o) for o in ops]}


def expand(d):
    """shard descriptor -> list of operations [unit, target, level]."""
    if "ops" in d:
        return [list(o) for o in d["ops"]]
    t, x = d["t"], d["x"]
    script = []
    for n, p in enumerate(d["progs"]):
        for lvl in LEVELS:
            a, b = (t, x) if n % 2 == 0 else (x, t)
            script += [[p, a if ch == "a" else b, lvl] for ch in d["pat"]]
    for tt in d["asm"]:
        script += [[ASM, tt, 0], [ASM, tt, 0]]
        # an assembly that fails, then the good unit again: nothing of the failed run may reach the next object
        script += [[ASM_FAIL, tt, 0], [ASM, tt, 0]]
    return script


def shards(tier, cfg, ci, programs, asm_families):
    """Deterministic list of shard descriptors (= processes) of a configuration; ci (configuration number + VERIF_SEED)
    rotates which target pair gets the exact short histories."""
    out = []
    if tier == "quick":
        pairs, nchunk, pattern = PAIRS[:3], 2, "aab"
        progs = [p for p in programs if p not in QUICK_SKIP]
    else:
        pairs, nchunk = PAIRS, (3 if distance(cfg) <= 1 else 2)
        pattern = "aabba" if distance(cfg) <= 1 else "aab"
        progs = [p for p in programs if distance(cfg) <= 1 or p not in HEAVY]
    chunks = [progs[i::nchunk] for i in range(nchunk)]   # interleaved: every chunk starts with a simple unit
    for (t, x) in pairs:
        for k, chunk in enumerate(chunks):
            if tier == "quick" and k == nchunk - 1:
                chunk = chunk + QUICK_EXTRA.get(t, [])
            asm = [tt for tt in (t, x) if family(tt) in asm_families] if k == 0 else []
            out.append(script_shard(t, x, chunk, pattern, asm))
    # exact short histories from the pristine process
    if tier == "quick":
        t, x = pairs[ci % len(pairs)]
        P, Q, X = ["locals6", t, 0], ["loop_sum", t, 0], ["locals6", x, 0]
        for first in (P, Q, X):
            out.append(word_shard([first, P]))
    else:
        deep = cfg[1:] == REF[1:]          # the reference and the configurations differing in the hash seed only
        depth = 3 if deep else 2
        sel = pairs[:2] if deep else [pairs[ci % len(pairs)]]
        for (t, x) in sel:
            P, Q, X = ["phi_web", t, 2], ["locals6", t, 2], ["phi_web", x, 2]
            for word in itertools.product((P, Q, X), repeat=depth):
                out.append(word_shard(word))
    return out


def fresh_shards(programs):
    """Thorough, reference configuration: every unit as the first compilation of a process (at -O2), for every
    target pair (the two targets of a pair take turns from unit to unit)."""
    out = []
    for pi, (t, x) in enumerate(PAIRS):
        for n, p in enumerate(programs):
            out.append(word_shard([[p, t if (n + pi) % 2 == 0 else x, 2]]))
    return out


def context_word(seq, j):
    """History of operation j, abstracted relative to that operation: '^' = process start, '..' = earlier operations
    omitted, then one letter per remembered operation (the last two): P same unit+target+level, L same unit+target
    other level, X same unit other target, Q other unit same target, O other unit other target."""
    cur = seq[j]
    w = ""
    for k in range(max(0, j - 2), j):
        o = seq[k]
        if o[0] == cur[0]:
            w += "P" if (o[1] == cur[1] and o[2] == cur[2]) else ("X" if o[1] != cur[1] else "L")
        else:
            w += "Q" if o[1] == cur[1] else "O"
    return ("^" if j <= 2 else "..") + w


# ------------------------------------------------------------------ launching a configuration process

_aslr = None


def aslr_off_available():
    global _aslr
    if _aslr is None:
        try:
            _aslr = subprocess.run(["setarch", "x86_64", "-R", "true"], capture_output=True).returncode == 0
        except OSError:
            _aslr = False
    return _aslr


_counter = itertools.count()
_counter_lock = threading.Lock()


def launch(cfg, d, repo, want_texts=False):
    """Run one configuration process over shard d; returns the list of operation records
    (with the stage texts under "texts" when want_texts)."""
    import shutil
    from vf.core import HarnessError, VERIF
    seed, malloc, pad = cfg
    script = expand(d)
    spec = {"repo": repo, "pad": pad, "script": script}
    env = {"PATH": "/usr/bin:/bin", "PYTHONHASHSEED": str(seed), "PYTHONDONTWRITEBYTECODE": "1", "PYTHONNOUSERSITE": "1"}
    if malloc == "malloc":
        env["PYTHONMALLOC"] = "malloc"
    with _counter_lock:
        n = next(_counter)
    tmp = os.path.join(VERIF, "build", "%s.%d.%d" % (ID, os.getpid(), n))
    os.makedirs(tmp)
    try:
        # the spec is a regular file on stdin (a pipe would be read in timing-dependent pieces, which changes the
        # allocation pattern); fd 3 = side channel with the stage texts, always open, so that a run that keeps the
        # texts is the same state as one that does not
        specfile, textfile = os.path.join(tmp, "spec.json"), os.path.join(tmp, "texts.jsonl")
        with open(specfile, "w") as f:
            json.dump(spec, f, sort_keys=True)
        inner = "exec %s%s -S -P %s" % ("setarch x86_64 -R " if aslr_off_available() else "", PYTHON, WORKER)
        inner += ' <"$0" 3>"$1"'
        r = subprocess.run(["/bin/sh", "-c", inner, specfile, textfile if want_texts else "/dev/null"], stdin=subprocess.DEVNULL,
                           env=env, cwd=VERIF, stdout=subprocess.PIPE, stderr=subprocess.PIPE)
        recs = []
        for line in r.stdout.decode().splitlines():
            try:
                recs.append(json.loads(line))
            except ValueError:
                raise HarnessError("worker wrote a non-JSON line %r (cfg=%r)" % (line[:200], cfg))
        bad = [x for x in recs if "harness_error" in x]
        if r.returncode != 0 or not recs or recs[-1].get("done") != len(script) or bad or len(recs) != len(script) + 1:
            raise HarnessError("worker failed cfg=%r script=%r... rc=%s bad=%r stderr=%s"
                               % (cfg, script[:2], r.returncode, bad[:1], r.stderr.decode()[-400:]))
        recs.pop()
        if want_texts:
            for rec, line in zip(recs, open(textfile)):
                rec["texts"] = json.loads(line)["texts"]
        return recs
    finally:
        shutil.rmtree(tmp, ignore_errors=True)


# ------------------------------------------------------------------ comparison

def outcome_of(rec):
    return rec.get("error") or [rec.get("obj"), rec.get("img")]


def describe(rec):
    if "error" in rec:
        return "raises " + rec["error"]
    return "object %s image %s" % (rec["obj"], rec["img"])


def first_divergence(ref, got):
    """Name of the first stage whose digest differs (or that one side lacks)."""
    a, b = ref["stages"], got["stages"]
    for x, y in zip(a, b):
        if x != y:
            return x[0] if x[0] == y[0] else "%s|%s" % (x[0], y[0])
    if len(a) != len(b):
        longer = a if len(a) > len(b) else b
        return longer[min(len(a), len(b))][0]
    return None


def compare(ref, got):
    """None if `got` satisfies the invariant w.r.t. `ref`, else the locus stage."""
    if outcome_of(ref) == outcome_of(got):
        return None
    return first_divergence(ref, got) or ("error" if ("error" in ref or "error" in got) else "object")


def canon(text):
    return "\n".join(line.split(" ;; ")[0] for line in text.split("\n"))


def strip(rec):
    return {k: v for k, v in rec.items() if k not in ("cpu", "texts")}


# ------------------------------------------------------------------ run

def repo_fingerprint(repo):
    """(path, size, mtime) of every source file of the compiler under test: it must not change while we compare runs."""
    out = []
    for root, dirs, files in os.walk(os.path.join(repo, "ppci")):
        dirs[:] = sorted(x for x in dirs if x != "__pycache__")
        for f in sorted(files):
            if f.endswith(".py"):
                st = os.stat(os.path.join(root, f))
                out.append((os.path.join(root, f), st.st_size, st.st_mtime_ns))
    return out


def run(ctx):
    from vf import core
    W = _worker_mod()
    programs = W.programs()
    asm_families = set(W.ASM_CORPUS)
    repo = core.REPO
    cfgs = configs(ctx.tier)
    if not aslr_off_available():
        ctx.assumptions.append("setarch -R unavailable: ASLR could not be switched off; irreproducible configurations are reported as harness errors")

    fingerprint = repo_fingerprint(repo)
    ref_shards = shards(ctx.tier, REF, ctx.seed, programs, asm_families)
    tasks = [("run", REF, d) for d in ref_shards]
    if ctx.tier == "thorough":
        tasks += [("run", REF, d) for d in fresh_shards(programs)]
    dups = []
    for ci, c in enumerate(cfgs[1:], 1):
        mine = shards(ctx.tier, c, ci + ctx.seed, programs, asm_families)
        tasks += [("run", c, d) for d in mine]
        if c == (0, "malloc", 0):
            dups += [("dup", c, d) for d in mine if "pat" in d][:(1 if ctx.tier == "quick" else len(mine))]
    # self-check of the harness: the reference configuration and the first glibc-malloc configuration are run a
    # second time and must reproduce themselves record by record (quick: the first script of every target pair)
    dups = [("dup", REF, d) for d in ref_shards if "pat" in d] + dups
    if ctx.tier == "quick":
        seen, keep = set(), []
        for tag, c, d in dups:
            if (c, d["t"]) not in seen:
                seen.add((c, d["t"]))
                keep.append((tag, c, d))
        dups = keep
    dup_keys = {(c, json.dumps(d, sort_keys=True)) for _, c, d in dups}
    tasks += dups

    prog_rank = {p: i for i, p in enumerate(programs)}
    prog_rank[ASM] = len(programs)
    prog_rank[ASM_FAIL] = len(programs) + 1
    cfg_rank = {c: i for i, c in enumerate(cfgs)}
    reftab = {}     # (unit, target, level) -> reference record
    refwhere = {}   # (unit, target, level) -> (shard, index) of the reference record
    refA = {}       # (cfg, shard) -> records kept for the comparison with the second run
    states = transitions = traces = 0
    cpu = [0.0]
    unsupported = set()

    relinks = {}    # target family -> first record whose second link differs or whose input object was changed by linking

    def check_records(cfg, d, recs):
        nonlocal states, traces
        seq = expand(d)
        for rec in recs:
            key3 = (rec["prog"], rec["target"], rec["level"])
            word = context_word(seq, rec["j"])
            ctx.collect("history_contexts", word)
            states += 1
            cpu[0] += float(rec["cpu"])
            ctx.add()
            if rec.get("relink", "same") != "same" or rec.get("input_after_link", "same") != "same":
                relinks.setdefault(family(rec["target"]), rec)
            if key3 not in reftab:
                if cfg != REF:
                    raise core.HarnessError("no reference for %r" % (key3,))
                reftab[key3] = rec
                refwhere[key3] = (d, rec["j"])
                if "obj" in rec:
                    ctx.outcome((rec["target"], rec["level"], rec["obj"]))
                    if len(ctx.samples) < 3 and rec["size"] > 60:
                        ctx.sample({"unit": rec["prog"], "target": rec["target"], "level": rec["level"], "object_bytes": rec["size"],
                                    "object_digest": rec["obj"], "image_digest": rec["img"], "stages": len(rec["stages"])})
                else:
                    unsupported.add("%s:%s/O%s %s" % (rec["target"], rec["prog"], rec["level"], rec["error"]))
                continue
            ref = reftab[key3]
            traces += 1
            stage = compare(ref, rec)
            if stage is None:
                if ref["stages"] != rec["stages"]:
                    ctx.count("states_with_equal_bytes_but_different_stage_text")
                continue
            ctx.count("divergent_states")
            ctx.collect("divergent_targets", rec["target"])
            key = "%s/%s" % (family(rec["target"]), stage)
            order = (prog_rank[rec["prog"]] * 100 + cfg_rank[cfg]) * 1000 + min(rec["j"], 999)
            j = rec["j"]
            witness = {"unit": list(key3), "cfg": list(cfg), "stage": stage, "history": word,
                       "ops": seq[max(0, j - 2):j + 1], "shard": d, "j": j,
                       "refshard": refwhere[key3][0], "refj": refwhere[key3][1]}
            ctx.violation(key, "%s for %s at -O%s, state [%s, history %s]" % (key3 + (cfg_str(cfg), word)), witness, order=order)

    pool = concurrent.futures.ThreadPoolExecutor(max_workers=max(1, core.NPROC))
    try:
        futs = [(tag, c, d, pool.submit(launch, c, d, repo)) for tag, c, d in tasks]
        for tag, c, d, fut in futs:
            recs = fut.result()
            transitions += len(recs)
            dk = (c, json.dumps(d, sort_keys=True))
            if tag == "run":
                if dk in dup_keys:
                    refA[dk] = [strip(r) for r in recs]
                check_records(c, d, recs)
            else:
                mine = [strip(r) for r in recs]
                if mine != refA[dk]:
                    diff = [(a, b) for a, b in zip(refA[dk], mine) if a != b][:1]
                    raise core.HarnessError("configuration [%s] does not reproduce itself: %r" % (cfg_str(c), diff))
                ctx.count("ops_rerun_identical", len(recs))
        refA.clear()
        # every divergence is re-run before it is believed (a configuration must reproduce itself); the re-run
        # also shrinks the witness to the shortest history that still diverges and fetches the stage texts
        keys = sorted(ctx.violations)
        futs = [(k, pool.submit(settle, ctx.violations[k][2], repo)) for k in keys]
        for k, fut in futs:
            ok, detail, witness, nops = fut.result()
            transitions += nops
            if not ok:
                raise core.HarnessError("divergence %s did not reproduce on re-run (%s): a configuration process is not deterministic" % (k, detail))
            ctx.violations[k] = (ctx.violations[k][0], detail, witness)
        for fam, rec in sorted(relinks.items()):
            ctx.violation("%s/link-twice" % fam, "cc(%s, %s, opt_level=%s) then link([obj]) twice in one process: the second image is %s, the input object after the first "
                          "link is %s" % (rec["prog"], rec["target"], rec["level"], rec.get("relink"), rec.get("input_after_link")),
                          {"kind": "relink", "op": [rec["prog"], rec["target"], rec["level"]]}, order=10 ** 12)
    except core.HarnessError:
        if repo_fingerprint(repo) != fingerprint:
            raise core.HarnessError("%s/ppci was modified while the check was running: results of different processes are not comparable" % repo)
        raise
    finally:
        pool.shutdown(wait=True, cancel_futures=True)
    if repo_fingerprint(repo) != fingerprint:
        raise core.HarnessError("%s/ppci was modified while the check was running: results of different processes are not comparable" % repo)

    ctx.states = states
    ctx.transitions = transitions
    ctx.traces = traces
    ctx.note("configurations", [cfg_str(c) for c in cfgs])
    ctx.note("targets", sorted({k[1] for k in reftab}))
    ctx.note("units", len({k[0] for k in reftab}))
    ctx.note("unit_target_level_triples", len(reftab))
    ctx.note("configuration_processes", len(tasks))
    ctx.note("compile_cpu_s_excluding_process_startup", round(cpu[0]))
    ctx.note("unsupported_unit_target_level_triples", len(unsupported))
    ctx.note("unsupported_examples", sorted(unsupported)[:12])
    if len(reftab) - len(unsupported) < 20:
        raise core.HarnessError("fewer than 20 unit/target/level triples compiled: vacuous")


# ------------------------------------------------------------------ confirming / replaying one divergence

def side(cfg, ops, j=None):
    """One process of a witness: configuration, its whole script, and the index of the operation looked at."""
    return {"cfg": list(cfg), "ops": [list(o) for o in ops], "j": len(ops) - 1 if j is None else j}


def shard_side(cfg, d, j):
    """Same, for a process of the exploration itself (the script is regenerated from the shard descriptor)."""
    return {"cfg": list(cfg), "shard": d, "j": j}


def side_ops(s):
    return s["ops"] if "ops" in s else expand(s["shard"])


def run_pair(w, repo):
    """Run the reference side and the diverging side of a witness, keeping the stage texts.
    -> (violated, detail, operations executed, record of the diverging side, locus stage)"""
    out = {}
    nops = 0
    for name in ("ref", "got"):
        s = w[name]
        recs = launch(tuple(s["cfg"]), word_shard(side_ops(s)), repo, want_texts=True)
        out[name] = recs[s["j"]]
        nops += len(recs)
    ref, got = out["ref"], out["got"]
    stage = compare(ref, got)
    if stage is None:
        return False, "both give %s" % describe(got), nops, got, None
    detail = "%s vs %s; first diverging stage %s" % (describe(got), describe(ref), stage)
    for x, y in zip(ref["texts"], got["texts"]):
        if canon(x[2]) != canon(y[2]):
            detail += "%s, %s" % (" of '%s'" % x[1] if x[1] else "", first_text_diff(x[2], y[2]))
            break
    return True, detail, nops, got, stage


def first_text_diff(ta, tb):
    la, lb = ta.splitlines(), tb.splitlines()
    for n, (x, y) in enumerate(zip(la, lb)):
        if x.split(" ;; ")[0] != y.split(" ;; ")[0]:
            return "line %d: %r vs %r" % (n + 1, y.strip()[:90], x.strip()[:90])
    return "%d vs %d lines" % (len(lb), len(la))


def headline(w):
    unit, g = w["unit"], w["got"]
    before = side_ops(g)[:g["j"]]
    hist = (" after " + ", ".join("%s@%s/O%s" % tuple(o) for o in before)) if before else " as first compilation of the process"
    if len(before) > 3:
        hist = " as operation %d of a script of %d" % (g["j"], len(side_ops(g)))
    r = w["ref"]
    rhist = "the first compilation of a process" if r["j"] == 0 else "operation %d of a script of %d" % (r["j"], len(side_ops(r)))
    return "cc(%s, %s, opt_level=%s) in [%s]%s differs from %s in [%s]: " % (
        unit[0], unit[1], unit[2], cfg_str(g["cfg"]), hist, rhist, cfg_str(REF))


def settle(found, repo):
    """Confirm a divergence found by the exploration by re-running it, shortest history first.
    -> (confirmed, one-line description, replayable witness, operations executed)"""
    nops = 0
    unit, gcfg, ops = found["unit"], tuple(found["cfg"]), found["ops"]
    cands = []
    for c in ([ops[-1:]] if gcfg != REF else []) + [ops[-2:], ops]:
        if c and side(gcfg, c) not in cands:
            cands.append(side(gcfg, c))
    cands.append(shard_side(gcfg, found["shard"], found["j"]))   # last resort: exactly the two processes that were observed
    detail = "?"
    for g in cands:
        w = {"unit": unit, "stage": found["stage"], "ref": side(REF, [unit]), "got": g}
        if g is cands[-1]:
            w["ref"] = shard_side(REF, found["refshard"], found["refj"])
        v, detail, n, got, stage = run_pair(w, repo)
        nops += n
        if not v or (g is not cands[-1] and stage != found["stage"]):
            continue   # no divergence, or one with another locus than the one this key names: keep looking
        again = launch(gcfg, word_shard(side_ops(g)), repo)   # the diverging state once more: it must reproduce itself
        nops += len(again)
        if outcome_of(again[g["j"]]) != outcome_of(got):
            detail = "state [%s] gave %s, then %s" % (cfg_str(gcfg), describe(got), describe(again[g["j"]]))
            continue
        return True, headline(w) + detail, w, nops
    return False, detail, found, nops


def replay(w):
    from vf import core
    if w.get("kind") == "relink":
        rec = launch(REF, word_shard([w["op"]]), core.REPO)[0]
        bad = rec.get("relink", "same") != "same" or rec.get("input_after_link", "same") != "same"
        return bad, "cc(%s, %s, opt_level=%s) then link twice: second image %s, input object after the first link %s" % (
            w["op"][0], w["op"][1], w["op"][2], rec.get("relink"), rec.get("input_after_link"))
    violated, detail, _, _, _ = run_pair(w, core.REPO)
    return violated, (headline(w) + detail) if violated else (headline(w).replace(" differs from ", " and ").rstrip(": ") + " agree: " + detail)
