"""C30 - compilation is deterministic: same sources + options => byte-identical objects and images,
whatever the hash seed, the allocator, the heap layout and the earlier compilations of the process.

Explicit exploration of a configuration grid x in-process operation histories.  Every configuration
is a fresh sub-process (vf/checks/c30_worker.py) started with a fixed minimal environment and ASLR
off, so that it is itself a deterministic state; inside it histories are explored
  * from the pristine state by forking (every word of the operation alphabet {P, Q, X} up to a depth),
  * as one long in-process history (script) in which every (program, target, level) is compiled
    after two other units, directly after itself, and directly after the same unit for another target.
The invariant at every compile operation: serialized object text and linked image are byte-identical
to the reference (first compilation of that unit in the reference configuration seed 0 / pymalloc / pad 0).
"""
import os
import json
import itertools
import threading
import subprocess
import concurrent.futures

ID = "C30"
LEVEL = "model_checking"
RULE = ("state = (program, target, opt level, configuration (PYTHONHASHSEED, allocator, heap padding), in-process history); "
        "transition = one api.cc + api.link; quick: complete sub-grid seeds {0,1} x {pymalloc, malloc} x pad {0,17} over 6 targets, "
        "thorough: seeds {0..3} x {pymalloc, malloc} x pad {0,1,17,4099} over 10 targets; histories: all words over {P, Q, X} up to "
        "depth 2 (thorough 3) from the pristine process for selected units, fresh compile of leading (thorough: every) unit, and a "
        "script giving every unit the contexts after-A-then-B / same-twice / other-target-first; "
        "distinct non-trivial = distinct (target, level, object digest) of a successfully compiled unit")
ASSUMPTIONS = [
    "oracle: equality of ObjectFile.save text and of the linked image (save text + image bytes) with the reference state; no model of the compiler is involved",
    "every configuration process is deterministic: ASLR off (setarch -R), fixed minimal environment, fixed argv/cwd/stdin; the reference configuration is run twice and compared, and every reported divergence is re-run before it is reported",
    "a fork()ed copy of the pristine process stands for a fresh process of the same configuration",
    "stage digests come from a ppci ReportGenerator passed as cc(reporter=...) in every state alike (observation only, used to name the locus)",
    "targets avr, stm8 (C front end raises KeyError 'ir-typ i32' for every unit) and m68k (2 of 102 units compile, several hang) are dropped by name; "
    "(unit, target) pairs that raise the same error in every state are counted as unsupported, not as violations",
    "link step: fixed two-region layout, no runtime library; a unit needing runtime symbols records the (identical) link error",
]
CLAIM = {
    "text": "for the corpus of C units and every explored configuration and history, object files and linked images are byte-identical",
    "note": "trusted base: the harness' own determinism (ASLR off, fixed environment), fork as a model of a fresh process",
    "technique": "configuration-grid x history exploration with byte comparison against a reference state",
    "engine": "K2 configuration grid",
}

HERE = os.path.dirname(os.path.abspath(__file__))
WORKER = os.path.join(HERE, "c30_worker.py")
PYTHON = "/venv/bin/python"
REF = (0, "pymalloc", 0)

PAIRS = [("arm", "x86_64"), ("riscv", "arm:thumb"), ("riscv:rvc", "or1k"), ("microblaze", "mips"), ("msp430", "xtensa")]
QUICK_SKIP = {"pressure12", "pressure16", "pressure24", "pressure32", "pressure14c", "pressure20c"}
LEVELS = (0, 2)


def _worker_mod():
    import importlib.util
    spec = importlib.util.spec_from_file_location("c30_worker", WORKER)
    m = importlib.util.module_from_spec(spec)
    spec.loader.exec_module(m)
    return m


# ------------------------------------------------------------------ the explored grid

def configs(tier):
    if tier == "quick":
        seeds, mallocs, pads = (0, 1), ("pymalloc", "malloc"), (0, 17)
    else:
        seeds, mallocs, pads = (0, 1, 2, 3), ("pymalloc", "malloc"), (0, 1, 17, 4099)
    out = [(s, m, p) for s in seeds for m in mallocs for p in pads]
    # simplest first: fewest coordinates away from the reference
    out.sort(key=lambda c: (sum(1 for a, b in zip(c, REF) if a != b), c[0], c[1] != "pymalloc", c[2]))
    assert out[0] == REF
    return out


HEAVY = {"pressure24", "pressure32", "pressure20c"}
PATTERNS = {"aab": "aab", "aabba": "aabba"}


def is_axis(cfg):
    """Configurations that differ from the reference in at most one coordinate."""
    return sum(1 for a, b in zip(cfg, REF) if a != b) <= 1


def shards(tier, cfg, programs, asm_families):
    """Deterministic list of shard descriptors for one configuration (small JSON; expanded by `expand`)."""
    out = []
    if tier == "quick":
        pairs, nchunk, pattern = PAIRS[:3], 2, "aab"
        progs = [p for p in programs if p not in QUICK_SKIP]
        bfs = {0: 2, 1: 2}          # pair index -> depth of the history tree from the pristine process
        fresh = 0
    else:
        pairs, nchunk = PAIRS, 4
        axis = is_axis(cfg)
        pattern = "aabba" if axis else "aab"
        progs = [p for p in programs if axis or p not in HEAVY]
        bfs = {i: (3 if axis else 2) for i in range(len(PAIRS))}
        fresh = 1
    chunks = [progs[i::nchunk] for i in range(nchunk)]   # interleaved: every chunk starts simple
    for pi, (t, x) in enumerate(pairs):
        for ci, chunk in enumerate(chunks):
            d = {"t": t, "x": x, "progs": chunk, "levels": list(LEVELS), "fresh": fresh, "bfs": 0, "pat": pattern, "asm": []}
            if ci == 0:
                d["bfs"] = bfs.get(pi, 0)
                d["asm"] = [tt for tt in (t, x) if family(tt) in asm_families]
            out.append(d)
    return out


def fresh_shards(programs):
    """Thorough, reference configuration only: every unit compiled first-thing in a pristine process."""
    out = []
    for (t, x) in PAIRS:
        for tt in (t, x):
            for lvl in LEVELS:
                for i in range(0, len(programs), 26):
                    out.append({"t": tt, "x": None, "progs": programs[i:i + 26], "levels": [lvl], "fresh": 10 ** 6, "bfs": 0, "noscript": 1})
    return out


def expand(d):
    """shard descriptor -> (forks, script) for the worker."""
    if "raw" in d:
        return d["raw"]["forks"], d["raw"]["script"]
    t, x, progs, levels = d["t"], d["x"], d["progs"], d["levels"]
    forks = []
    if d.get("bfs"):
        P, Q, X = [progs[1], t, levels[0]], [progs[2], t, levels[0]], [progs[1], x, levels[0]]
        for word in itertools.product((P, Q, X), repeat=d["bfs"]):
            forks.append([list(w) for w in word])
    for p in progs[:d.get("fresh", 0)]:
        for lvl in levels:
            forks.append([[p, t, lvl]])
            if x and not d.get("noscript"):
                forks.append([[p, x, lvl]])
    script = []
    if not d.get("noscript"):
        for n, p in enumerate(progs):
            for lvl in levels:
                a, b = (t, x) if n % 2 == 0 else (x, t)
                script += [[p, a if ch == "a" else b, lvl] for ch in d.get("pat", "aabba")]
        for tt in d.get("asm", []):
            script += [["asm:asm_basic", tt, 0], ["asm:asm_basic", tt, 0]]
    return forks, script


def context_word(seq, j):
    """History of operation j of a sequence, abstracted relative to that operation: '^' = process start,
    '..' = earlier operations omitted, then one letter per remembered operation (the last two):
    P same unit+target+level, L same unit+target other level, X same unit other target, Q other unit same target, O other/other."""
    cur = seq[j]
    w = ""
    for k in range(max(0, j - 2), j):
        o = seq[k]
        if o[0] == cur[0]:
            w += "P" if (o[1] == cur[1] and o[2] == cur[2]) else ("X" if o[1] != cur[1] else "L")
        else:
            w += "Q" if o[1] == cur[1] else "O"
    return ("^" if j <= 2 else "..") + w


# ------------------------------------------------------------------ launching a configuration process

_aslr = None


def aslr_off_available():
    global _aslr
    if _aslr is None:
        try:
            _aslr = subprocess.run(["setarch", "x86_64", "-R", "true"], capture_output=True).returncode == 0
        except OSError:
            _aslr = False
    return _aslr


def launch(cfg, d, repo, textfile=None):
    """Run one configuration process over shard d; returns the list of operation records."""
    from vf.core import HarnessError, VERIF
    seed, malloc, pad = cfg
    forks, script = expand(d)
    spec = {"repo": repo, "pad": pad, "forks": forks, "script": script}
    env = {"PATH": "/usr/bin:/bin", "PYTHONHASHSEED": str(seed), "PYTHONDONTWRITEBYTECODE": "1", "PYTHONNOUSERSITE": "1"}
    if malloc == "malloc":
        env["PYTHONMALLOC"] = "malloc"
    inner = "exec %s%s -P %s" % ("setarch x86_64 -R " if aslr_off_available() else "", PYTHON, WORKER)
    inner += ' 3>"$0"' if textfile else " 3>/dev/null"
    r = subprocess.run(["/bin/sh", "-c", inner, textfile or "sh"], input=json.dumps(spec, sort_keys=True).encode(),
                       env=env, cwd=VERIF, stdout=subprocess.PIPE, stderr=subprocess.PIPE)
    recs = []
    for line in r.stdout.decode().splitlines():
        try:
            recs.append(json.loads(line))
        except ValueError:
            raise HarnessError("worker wrote a non-JSON line %r (cfg=%r shard=%s)" % (line[:200], cfg, d.get("t")))
    expected = len(script) + sum(len(q) for q in forks)
    bad = [x for x in recs if "harness_error" in x]
    if r.returncode != 0 or not recs or recs[-1].get("done") != expected or bad or len(recs) != expected + 1:
        raise HarnessError("worker failed cfg=%r shard=%s/%s rc=%s bad=%r stderr=%s"
                           % (cfg, d.get("t"), d.get("progs", [])[:2], r.returncode, bad[:1], r.stderr.decode()[-400:]))
    recs.pop()
    # attach the sequence (for context words / witnesses)
    for x in recs:
        x["seq"] = forks[x["i"]] if x["k"] == "f" else script
    return recs


def cfg_str(c):
    return "seed=%d/%s/pad=%d" % c


def family(t):
    return t.split(":")[0]


# ------------------------------------------------------------------ comparison

def outcome_of(rec):
    return rec.get("error") or [rec.get("obj"), rec.get("img")]


def first_divergence(ref, got):
    """(stage, function) of the first stage whose digest differs (or that one side lacks)."""
    a, b = ref["stages"], got["stages"]
    for x, y in zip(a, b):
        if x != y:
            return (x[0] if x[0] == y[0] else "%s|%s" % (x[0], y[0])), x[1] or y[1]
    if len(a) != len(b):
        longer = a if len(a) > len(b) else b
        return longer[min(len(a), len(b))][0], longer[min(len(a), len(b))][1]
    return None, None


def compare(ref, got):
    """None if `got` satisfies the invariant w.r.t. `ref`, else the locus stage."""
    if outcome_of(ref) == outcome_of(got):
        return None
    stage, fn = first_divergence(ref, got)
    if stage is None:
        stage = "error" if ("error" in ref or "error" in got) else "object"
    return stage


def strip(rec):
    return {k: v for k, v in rec.items() if k not in ("cpu", "seq")}


def ident(rec):
    return [rec["k"], rec["i"], rec["j"]]


# ------------------------------------------------------------------ run

def run(ctx):
    from vf import core
    W = _worker_mod()
    programs = W.programs()
    asm_families = set(W.ASM_CORPUS)
    repo = core.REPO
    cfgs = configs(ctx.tier)
    if not aslr_off_available():
        ctx.assumptions.append("setarch -R unavailable: ASLR could not be switched off; irreproducible configurations are reported as harness errors")

    ref_shards = shards(ctx.tier, REF, programs, asm_families)
    n_plain = len(ref_shards)
    if ctx.tier == "thorough":
        ref_shards = ref_shards + fresh_shards(programs)
    tasks = []   # (tag, cfg, descriptor)
    for d in ref_shards:
        tasks.append(("refA", REF, d))
    # the reference configuration is run a second time: quick one shard per target pair, thorough every script shard
    for si, d in enumerate(ref_shards[:n_plain]):
        if ctx.tier == "thorough" or d["bfs"]:
            tasks.append(("refB", REF, d))
    for c in cfgs[1:]:
        for d in shards(ctx.tier, c, programs, asm_families):
            tasks.append(("cfg", c, d))

    prog_rank = {p: i for i, p in enumerate(programs)}
    prog_rank["asm:asm_basic"] = len(programs)
    cfg_rank = {c: i for i, c in enumerate(cfgs)}
    reftab = {}     # (prog, target, level) -> (record, shard descriptor)
    refA = {}       # shard -> records (kept for the refB comparison)
    states = transitions = traces = 0
    unsupported = set()

    def check_records(cfg, d, recs):
        nonlocal states, traces
        for rec in recs:
            key3 = (rec["prog"], rec["target"], rec["level"])
            word = context_word(rec["seq"], rec["j"])
            ctx.collect("history_contexts", word)
            states += 1
            ctx.add()
            if key3 not in reftab:
                if cfg != REF:
                    raise core.HarnessError("no reference for %r" % (key3,))
                reftab[key3] = (rec, d)
                if "obj" in rec:
                    ctx.outcome((rec["target"], rec["level"], rec["obj"]))
                    if len(ctx.samples) < 3 and rec["size"] > 60:
                        ctx.sample({"unit": rec["prog"], "target": rec["target"], "level": rec["level"], "object_bytes": rec["size"],
                                    "object_digest": rec["obj"], "image_digest": rec["img"], "stages": len(rec["stages"])})
                else:
                    unsupported.add("%s:%s/O%s %s" % (rec["target"], rec["prog"], rec["level"], rec["error"]))
                continue
            ref, rd = reftab[key3]
            traces += 1
            stage = compare(ref, rec)
            if stage is None:
                if ref["stages"] != rec["stages"]:
                    ctx.count("states_with_equal_bytes_but_different_stage_text")
                continue
            ctx.count("divergent_states")
            ctx.collect("divergent_targets", rec["target"])
            key = "%s/%s" % (family(rec["target"]), stage)
            order = (prog_rank[rec["prog"]] * 100 + cfg_rank[cfg]) * 1000 + min(rec["j"], 999)
            witness = {"ref": {"cfg": list(REF), "shard": rd, "op": ident(ref)},
                       "got": {"cfg": list(cfg), "shard": d, "op": ident(rec)},
                       "unit": list(key3), "stage": stage, "history": word,
                       "tail": [list(o) for o in rec["seq"][max(0, rec["j"] - 2):rec["j"] + 1]]}
            what = "%s for %s at -O%s, state [%s, history %s]" % (rec["prog"], rec["target"], rec["level"], cfg_str(cfg), word)
            ctx.violation(key, what, witness, order=order)

    pool = concurrent.futures.ThreadPoolExecutor(max_workers=max(1, core.NPROC))
    try:
        futs = [(tag, c, d, pool.submit(launch, c, d, repo)) for tag, c, d in tasks]
        for tag, c, d, fut in futs:
            recs = fut.result()
            transitions += len(recs)
            dk = json.dumps(d, sort_keys=True)
            if tag == "refA":
                refA[dk] = [strip(r) for r in recs]
                check_records(c, d, recs)
            elif tag == "refB":
                mine = [strip(r) for r in recs]
                if mine != refA[dk]:
                    diff = [(a, b) for a, b in zip(refA[dk], mine) if a != b][:1]
                    raise core.HarnessError("reference configuration is not reproducible (shard %s/%s): %r" % (d["t"], d["progs"][:2], diff))
                ctx.count("reference_ops_rerun_identical", len(recs))
            else:
                check_records(c, d, recs)
        refA.clear()
        # every reported divergence is re-run before it is believed (a configuration must reproduce itself);
        # the re-run also shrinks the witness to the shortest history that still diverges and fetches the texts
        keys = sorted(ctx.violations)
        futs = [(k, pool.submit(settle, ctx.violations[k][2], repo)) for k in keys]
        for k, fut in futs:
            ok, detail, witness, nops = fut.result()
            transitions += nops
            if not ok:
                raise core.HarnessError("divergence %s did not reproduce on re-run (%s): a configuration process is not deterministic" % (k, detail))
            order, what, _ = ctx.violations[k]
            ctx.violations[k] = (order, detail, witness)
    finally:
        pool.shutdown(wait=True, cancel_futures=True)

    ctx.states = states
    ctx.transitions = transitions
    ctx.traces = traces
    ctx.note("configurations", [cfg_str(c) for c in cfgs])
    ctx.note("targets", sorted({t for d in ref_shards for t in (d["t"], d["x"]) if t}))
    ctx.note("units", len({k[0] for k in reftab}))
    ctx.note("unit_target_level_triples", len(reftab))
    ctx.note("configuration_processes", len(tasks))
    ctx.note("unsupported_unit_target_level_triples", len(unsupported))
    ctx.note("unsupported_examples", sorted(unsupported)[:12])
    if len(reftab) - len(unsupported) < 20:
        raise core.HarnessError("fewer than 20 units compiled: vacuous")


def raw_side(cfg, ops):
    return {"cfg": list(cfg), "shard": {"raw": {"forks": [], "script": [list(o) for o in ops]}}, "op": ["s", 0, len(ops) - 1]}


def settle(witness, repo):
    """Confirm a divergence by re-running it; prefer the shortest history that still diverges.
    -> (confirmed, one-line description, witness to store, operations executed)"""
    nops = 0
    unit = witness["unit"]
    gcfg = tuple(witness["got"]["cfg"])
    tail = witness["tail"]
    cands = [tail[-1:], tail[-2:], tail] if (gcfg != REF) else [tail[-2:], tail]
    seen = []
    for ops in cands:
        if ops in seen or not ops:
            continue
        seen.append(ops)
        w = dict(witness)
        w["ref"] = raw_side(REF, [unit])
        w["got"] = raw_side(gcfg, ops)
        v, detail, n, got = confirm(w, repo)
        nops += n
        if v:
            # the diverging side once more: it must reproduce itself
            again = launch(gcfg, w["got"]["shard"], repo)
            nops += len(again)
            if outcome_of(again[-1]) != outcome_of(got):
                return False, "state %s gave %s then %s" % (cfg_str(gcfg), describe(got), describe(again[-1])), witness, nops
            return True, headline(w) + detail, w, nops
    v, detail, n, got = confirm(witness, repo)
    nops += n
    return v, headline(witness) + detail, witness, nops


def headline(w):
    unit = w["unit"]
    g = w["got"]
    if "raw" in g["shard"]:
        hist = " after " + ", ".join("%s@%s/O%s" % tuple(o) for o in g["shard"]["raw"]["script"][:-1]) if len(g["shard"]["raw"]["script"]) > 1 else " as first compilation of the process"
    else:
        hist = " at operation %s of shard %s+%s (history %s)" % (g["op"], g["shard"].get("t"), g["shard"].get("x"), w.get("history"))
    return "cc(%s, %s, opt_level=%s) in [%s]%s differs from the fresh compilation in [%s]: " % (
        unit[0], unit[1], unit[2], cfg_str(tuple(g["cfg"])), hist, cfg_str(REF))


def describe(rec):
    if "error" in rec:
        return "raises " + rec["error"]
    return "object %s image %s" % (rec["obj"], rec["img"])


def find(recs, op):
    for r in recs:
        if ident(r) == list(op):
            return r
    return None


def first_text_diff(ta, tb):
    la, lb = ta.splitlines(), tb.splitlines()
    for n, (x, y) in enumerate(zip(la, lb)):
        if x != y:
            return "line %d: %r vs %r" % (n + 1, x.strip()[:90], y.strip()[:90])
    return "length %d vs %d lines" % (len(la), len(lb))


def confirm(witness, repo):
    """Run the two processes of a witness with the text side channel.
    -> (violated, detail, operations executed, record of the diverging side)"""
    from vf.core import scratch
    out = {}
    with scratch("%s.t%d" % (ID, threading.get_ident())) as d:
        for side in ("ref", "got"):
            w = witness[side]
            tf = os.path.join(d, side + ".jsonl")
            recs = launch(tuple(w["cfg"]), w["shard"], repo, textfile=tf)
            rec = find(recs, w["op"])
            texts = None
            for line in open(tf):
                t = json.loads(line)
                if ident(t) == list(w["op"]):
                    texts = t["texts"]
            out[side] = (rec, texts, len(recs))
    ref, got = out["ref"][0], out["got"][0]
    nops = out["ref"][2] + out["got"][2]
    if ref is None or got is None:
        return False, "operation not found in re-run", nops, got
    stage = compare(ref, got)
    if stage is None:
        return False, "both give %s" % describe(got), nops, got
    detail = "%s vs %s; first diverging stage %s" % (describe(got), describe(ref), stage)
    ta, tb = out["ref"][1], out["got"][1]
    if ta and tb:
        for x, y in zip(ta, tb):
            if x[2] != y[2]:
                detail += "%s, %s" % (" of " + x[1] if x[1] else "", first_text_diff(x[2], y[2]))
                break
    return True, detail, nops, got


def replay(w):
    from vf import core
    violated, detail, _, _ = confirm(w, core.REPO)
    return violated, headline(w) + detail
