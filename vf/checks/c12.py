"""C12 - linker places sections correctly and preserves their contents (K1 scenarios + K2 link histories)."""
import io

ID = "C12"
LEVEL = "model_checking"
RULE = ("objgen families, each explored completely: M = every 3-tuple (and 2-section 2/3-tuples) of objects over the size x alignment "
        "alphabet, linked without layout, partially, and under layouts, each through the three link histories flat / (a+b)+c / a+(b+c); "
        "R = every role matrix (absent/local/global/undefined) of 1-2 symbol names over 3 objects x {plain, partial, DEFINESYMBOL, ENTRY, extra_symbols (absolute definition), extra_symbols + DEFINESYMBOL}; "
        "L = every ordering of distinct layout items (SECTION x3, SECTIONDATA, ALIGN x2, DEFINESYMBOL) of bounded length cut into 1-2 "
        "memories x memory sizes at total-1/total/total+1 x layout as object / hex text / decimal text; a state is one (scenario, history); "
        "distinct non-trivial = distinct (family, history, error class or padding pattern + section addresses relative to the memory)")
ASSUMPTIONS = [
    "oracle = the invariants of the property statement evaluated on the linked ObjectFile against the *descriptions* of the inputs "
    "(leaf bytes are unique per leaf, so placement offsets are recovered by searching the output, not taken from the linker)",
    "padding bytes, padding amounts, the address of sections not named in the layout and the base of zero-size symbol-less sections are not constrained",
    "link histories are compared modulo padding (same leaf order per output section, same error behaviour); byte identity is counted, not demanded",
    "a small sequential placement model (vf/gen/objgen.place) picks the boundary memory sizes and decides 'certainly fits'; it is not used to demand addresses",
    "no relocations in this family (C11 covers relocation sites); layouts are well formed: a section is named at most once per layout",
]
CLAIM = {
    "text": "Within the stated bounds every link (flat, partial and re-linked partial results) preserves every input section's bytes, aligns, contains "
            "and separates sections, resolves every symbol to section address + shifted offset, and refuses duplicate/undefined globals and overfull memories.",
    "note": "trusted: objgen descriptions and the invariant checker in this file; ppci ObjectFile accessors are used only to read the result",
    "technique": "bounded exhaustive enumeration of link scenarios and link histories against statement invariants",
    "engine": "K1 + K2",
}

HISTS = ("flat", "left", "right")


# ------------------------------------------------------------------ running the linker

def _layout_arg(ldesc, form):
    from vf.gen import objgen as G
    if ldesc is None:
        return None
    if form == "obj":
        return G.build_layout(ldesc)
    return io.StringIO(G.layout_text(ldesc, hexnum=(form == "text")))


def run_history(sc, hist, counter):
    """-> ("ok", ObjectFile) | ("err", exception, stage)."""
    from vf.gen import objgen as G
    from ppci.binutils.linker import link
    objs = [G.build(o) for o in sc["objs"]]
    stage = "inner"
    try:
        if hist == "left" and len(objs) >= 2:
            counter[0] += 1
            head = link(objs[:2], partial_link=True)
            objs = [head] + objs[2:]
        elif hist == "right" and len(objs) >= 2:
            counter[0] += 1
            tail = link(objs[1:], partial_link=True)
            objs = [objs[0], tail]
        stage = "final"
        counter[0] += 1
        out = link(objs, layout=_layout_arg(sc.get("layout"), sc.get("form", "obj")), partial_link=bool(sc.get("partial")),
                   extra_symbols=dict(sc["extra"]) if sc.get("extra") else None)
        return ("ok", out)
    except Exception as ex:  # noqa
        return ("err", ex, stage)


# ------------------------------------------------------------------ what the statement demands, from the descriptions

def expectations(sc):
    """Error conditions computed from the descriptions only."""
    from vf.gen import objgen as G
    objs, ld = sc["objs"], sc.get("layout")
    defs, refs = {}, set()
    for o in objs:
        for s in o["symbols"]:
            if s["binding"] == "global":
                if s["offset"] is None:
                    refs.add(s["name"])
                else:
                    defs[s["name"]] = defs.get(s["name"], 0) + 1
    if ld:
        for m in ld["memories"]:
            for kind, arg in m["inputs"]:
                if kind == "DEFINESYMBOL":
                    defs[arg] = defs.get(arg, 0) + 1
        if ld.get("entry"):
            refs.add(ld["entry"])
    for name in sc.get("extra") or {}:
        defs[name] = defs.get(name, 0) + 1      # extra_symbols defines an absolute global
    dup = sorted(n for n, c in defs.items() if c > 1)
    undef = [] if sc.get("partial") else sorted(n for n in refs if n not in defs)
    overfull, fits = [], True
    if ld:
        pl = G.place(objs, ld)
        for i, m in enumerate(ld["memories"]):
            if pl["payload"][i] > m["size"]:
                overfull.append(m["name"])
            if pl["totals"][i] > m["size"]:
                fits = False
    return {"dup": dup, "undef": undef, "overfull": overfull, "fits": fits}


def _find_sections(out, name):
    return [s for s in out.sections if s.name == name]


def check_output(p, sc, hist, out, w):
    """All success-path invariants.  Returns the observation used for history comparison:
    {"order": {section: [leaf ids by offset]}, "offsets": {...}, "bytes": ...} or None after a structural failure."""
    from vf.gen import objgen as G
    objs, ld = sc["objs"], sc.get("layout")
    tag = ""  # the locus does not depend on the history; the witness records it
    secs = {}
    for s in out.sections:
        if s.name in secs:
            p.violation("structure/duplicate-section" + tag, "output has two sections named %r" % s.name, w)
            return None
        secs[s.name] = s
    # 1. content preserved; offsets recovered by search
    leaf_off = {}
    for k, o in enumerate(objs):
        for j, s in enumerate(o["sections"]):
            data = G.leaf_bytes(o, j)
            so = secs.get(s["name"])
            if so is None:
                if data or any(y["section"] == s["name"] for y in o["symbols"]):
                    p.violation("content/section-missing" + tag, "input section %s of object %d has no output section" % (s["name"], k), w)
                    return None
                continue
            if data:
                off = bytes(so.data).find(data)
                if off < 0:
                    p.violation("content/changed/%s%s" % ("obj0" if k == 0 else "objN", tag),
                                "bytes %s of section %s of object %d do not appear in output section (%s)" % (data.hex(), s["name"], k, bytes(so.data).hex()), w)
                    return None
                leaf_off[(k, j)] = off
    # zero-size leaves: base from their own symbols (names are unique per leaf in these families)
    gsyms = {}
    lsyms = {}
    for y in out.symbols:
        if y.value is None:
            continue
        if y.binding == "global":
            gsyms.setdefault(y.name, []).append(y)
        else:
            lsyms.setdefault(y.name, []).append(y)
    for k, o in enumerate(objs):
        for j, s in enumerate(o["sections"]):
            if (k, j) in leaf_off or s["name"] not in secs:
                continue
            mine = [y for y in o["symbols"] if y["section"] == s["name"] and y["offset"] is not None]
            for y in mine:
                cands = (gsyms if y["binding"] == "global" else lsyms).get(y["name"], [])
                if len(cands) == 1 and cands[0].section == s["name"]:
                    leaf_off[(k, j)] = cands[0].value - y["offset"]
                    break
            else:
                if mine:
                    p.count("unclassified_zero_size_leaf")
    # 2. alignment of every leaf's final address; leaf inside its output section
    for (k, j), off in sorted(leaf_off.items()):
        s = objs[k]["sections"][j]
        so = secs[s["name"]]
        if off < 0 or off + s["size"] > so.size:
            p.violation("symbol/zero-size-base" + tag, "zero-size section %s of object %d is based at offset %d outside the output section (size %d)" % (s["name"], k, off, so.size), w)
            continue
        if (so.address + off) % s["align"] != 0:
            p.violation("align/leaf" + tag,
                        "section %s of object %d (alignment %d) ends up at address 0x%x (output section at 0x%x, offset %d)"
                        % (s["name"], k, s["align"], so.address + off, so.address, off), w)
    # 3. symbols: every defined leaf symbol resolves to section address + leaf offset + own offset
    exp_loc = []
    local_names = [y["name"] for o in objs for y in o["symbols"] if y["binding"] == "local" and y["offset"] is not None]
    defined_by_layout = set()
    if ld:
        for m in ld["memories"]:
            for kind, arg in m["inputs"]:
                if kind == "DEFINESYMBOL":
                    defined_by_layout.add(arg)
    for k, o in enumerate(objs):
        for j, s in enumerate(o["sections"]):
            for y in o["symbols"]:
                if y["section"] != s["name"] or y["offset"] is None:
                    continue
                if (k, j) not in leaf_off:
                    continue
                want_val = leaf_off[(k, j)] + y["offset"]
                want_addr = secs[s["name"]].address + want_val
                pos = "obj0" if k == 0 else "objN"
                if y["binding"] == "global":
                    got = gsyms.get(y["name"], [])
                    if len(got) != 1:
                        p.violation("symbol/global-count" + tag, "global %s defined %d times in the output" % (y["name"], len(got)), w)
                        continue
                    g = got[0]
                    try:
                        addr = out.get_symbol_value(y["name"])
                    except Exception as ex:  # noqa
                        p.violation("symbol/lookup" + tag, "get_symbol_value(%r) raised %r" % (y["name"], ex), w)
                        continue
                    if g.section != s["name"] or g.value != want_val or addr != want_addr:
                        p.violation("symbol/value/%s%s" % (pos, tag),
                                    "global %s of object %d (section %s offset %d, section placed at offset %d of output at 0x%x): output has section=%s value=%s address=0x%x, expected address 0x%x"
                                    % (y["name"], k, s["name"], y["offset"], leaf_off[(k, j)], secs[s["name"]].address, g.section, g.value, addr, want_addr), w)
                elif local_names.count(y["name"]) == 1 and len(lsyms.get(y["name"], [])) == 1:
                    g = lsyms[y["name"]][0]
                    addr = out.get_symbol_id_value(g.id)
                    if g.section != s["name"] or g.value != want_val or addr != want_addr:
                        p.violation("symbol/value/%s%s" % (pos, tag),
                                    "local %s of object %d (section %s offset %d, section placed at offset %d of output at 0x%x): output has section=%s value=%s address=0x%x, expected address 0x%x"
                                    % (y["name"], k, s["name"], y["offset"], leaf_off[(k, j)], secs[s["name"]].address, g.section, g.value, addr, want_addr), w)
                    exp_loc.append((y["name"], s["name"], g.value, addr))  # judged above; keep the multiset check for the others
                else:
                    exp_loc.append((y["name"], s["name"], want_val, want_addr))
    got_loc = []
    for name, ys in lsyms.items():
        for y in ys:
            try:
                got_loc.append((name, y.section, y.value, out.get_symbol_id_value(y.id)))
            except Exception as ex:  # noqa
                p.violation("symbol/lookup" + tag, "get_symbol_id_value(%r) raised %r" % (y.id, ex), w)
    # locals of leaves whose base is unknown cannot be predicted: compare only when all are known
    n_local_defs = sum(1 for o in objs for y in o["symbols"] if y["binding"] == "local" and y["offset"] is not None)
    if len(exp_loc) == n_local_defs and sorted(exp_loc) != sorted(got_loc):
        p.violation("symbol/local-multiset" + tag, "local symbols (name, section, value, address): output %r, expected %r" % (sorted(got_loc), sorted(exp_loc)), w)
    # absolute globals given through extra_symbols keep their value
    for name, val in (sc.get("extra") or {}).items():
        got = gsyms.get(name, [])
        if len(got) != 1:
            p.violation("symbol/global-count" + tag, "extra symbol %s: defined %d times in the output" % (name, len(got)), w)
        elif out.get_symbol_id_value(got[0].id) != val:
            p.violation("symbol/extra-value" + tag, "extra symbol %s = 0x%x in the output, 0x%x was given" % (name, out.get_symbol_id_value(got[0].id), val), w)
    # no invented global definitions
    leaf_globals = {y["name"] for o in objs for y in o["symbols"] if y["binding"] == "global" and y["offset"] is not None}
    for name in gsyms:
        if name not in leaf_globals and name not in defined_by_layout and name not in (sc.get("extra") or {}):
            p.violation("symbol/invented" + tag, "output defines global %s which no input defines" % name, w)
    # 4. layout: containment, image membership, no overlap, Image.data
    addrs = {}
    if ld and not sc.get("partial"):
        if len(out.images) != len(ld["memories"]):
            p.violation("image/count" + tag, "%d images for %d memories" % (len(out.images), len(ld["memories"])), w)
            return None
        for mi, m in enumerate(ld["memories"]):
            image = out.images[mi]
            lo, hi = m["location"], m["location"] + m["size"]
            members = list(image.sections)
            prev_end = None
            monotonic = True
            for kind, arg in m["inputs"]:
                if kind == "SECTION":
                    so = secs.get(arg)
                    if so is None:
                        p.violation("layout/section-missing" + tag, "SECTION(%s) produced no output section" % arg, w)
                        continue
                    if not any(x is so for x in members):
                        p.violation("image/membership" + tag, "section %s is not part of image %s" % (arg, m["name"]), w)
                    addrs[arg] = so.address - lo
                    if prev_end is not None and so.address < prev_end:
                        monotonic = False
                    prev_end = so.address + so.size
                elif kind == "SECTIONDATA":
                    src = secs.get(arg)
                    if src is not None and src.size:
                        copies = [x for x in members if x is not src and bytes(x.data) == bytes(src.data)]
                        if not copies:
                            p.violation("sectiondata/content" + tag, "image %s holds no copy of the bytes of section %s" % (m["name"], arg), w)
                        else:
                            addrs["copy:" + arg] = copies[0].address - lo
                            if prev_end is not None and copies[0].address < prev_end:
                                monotonic = False
                            prev_end = copies[0].address + copies[0].size
                elif kind == "DEFINESYMBOL":
                    got = gsyms.get(arg, [])
                    if len(got) != 1:
                        p.violation("symbol/global-count" + tag, "DEFINESYMBOL(%s): defined %d times in the output" % (arg, len(got)), w)
                        continue
                    v = out.get_symbol_value(arg)
                    addrs["sym:" + arg] = v - lo
                    if not (lo <= v <= hi):
                        p.violation("contain/defined-symbol" + tag, "DEFINESYMBOL(%s) = 0x%x outside memory %s [0x%x, 0x%x]" % (arg, v, m["name"], lo, hi), w)
                    if prev_end is not None and v < prev_end:
                        monotonic = False
                    prev_end = v
            if not monotonic:
                p.count("unclassified_order_not_monotonic")
            spans = []
            for x in members:
                if not (lo <= x.address and x.address + x.size <= hi):
                    p.violation("contain/section" + tag, "section %s [0x%x, 0x%x) is not inside memory %s [0x%x, 0x%x)"
                                % (x.name, x.address, x.address + x.size, m["name"], lo, hi), w)
                if x.size:
                    spans.append((x.address, x.address + x.size, x.name))
            spans.sort()
            for a, b in zip(spans, spans[1:]):
                if b[0] < a[1]:
                    p.violation("overlap/sections" + tag, "sections %s [0x%x,0x%x) and %s [0x%x,0x%x) of image %s overlap" % (a[2], a[0], a[1], b[2], b[0], b[1], m["name"]), w)
            try:
                idata = bytes(image.data)
            except Exception as ex:  # noqa
                p.violation("image/data-raises" + tag, "Image.data of %s raised %r" % (m["name"], ex), w)
                continue
            for x in members:
                rel = x.address - image.address
                if rel < 0 or idata[rel:rel + x.size] != bytes(x.data):
                    p.violation("image/data" + tag, "Image.data of %s does not hold section %s at its address" % (m["name"], x.name), w)
                    break
    order = {}
    for (k, j), off in leaf_off.items():
        if objs[k]["sections"][j]["size"]:
            order.setdefault(objs[k]["sections"][j]["name"], []).append((off, k))
    order = {n: [k for _, k in sorted(v)] for n, v in order.items()}
    # padding pattern: gap before each non-empty leaf
    pads = []
    for n in sorted(order):
        end = 0
        for off, k, size in sorted((leaf_off[(k, j)], k, objs[k]["sections"][j]["size"]) for k in range(len(objs))
                                   for j in range(len(objs[k]["sections"])) if objs[k]["sections"][j]["name"] == n and (k, j) in leaf_off and objs[k]["sections"][j]["size"]):
            pads.append(off - end)
            end = off + size
    return {"order": order, "offsets": sorted((k, j, v) for (k, j), v in leaf_off.items()), "pads": tuple(pads),
            "addrs": tuple(sorted(addrs.items())),
            "bytes": tuple((s.name, s.address, bytes(s.data)) for s in out.sections),
            "symbols": tuple(sorted((y.name, y.binding, y.section, y.value) for y in out.symbols if y.value is not None))}


def err_class(ex):
    from ppci.common import CompilerError
    if isinstance(ex, CompilerError):
        msg = str(ex.msg) if hasattr(ex, "msg") else str(ex)
        for word, cls in (("Multiple defined", "dup"), ("already defined", "dup"), ("Undefined", "undef"), ("exceeds", "overfull")):
            if word in msg:
                return cls
        return "other-compiler-error"
    return "internal"


def check_scenario(p, sc):
    """One scenario through its histories.  sc = {"fam", "objs", "layout", "form", "partial", "hists"}."""
    from vf.core import exc_key
    exp = expectations(sc)
    counter = [0]
    results = {}
    for hist in sc.get("hists", ["flat"]):
        p.add()
        p.count("states")
        w = dict(sc, hists=[hist])
        tag = ""
        r = run_history(sc, hist, counter)
        if r[0] == "err":
            ex = r[1]
            cls = err_class(ex)
            results[hist] = ("err", cls)
            p.outcome((sc["fam"], hist, sc.get("form"), "err", cls, r[2]))
            if cls == "internal":
                p.violation(exc_key("crash" + tag, ex), "link raised %r on a well-formed scenario" % (ex,), w)
            elif cls == "dup" and not exp["dup"]:
                p.violation("rejects/duplicate" + tag, "link reports a duplicate symbol (%s) but every global is defined once" % ex.msg, w)
            elif cls == "undef" and not exp["undef"] and not (r[2] == "inner"):
                p.violation("rejects/undefined" + tag, "link reports undefined symbols (%s) but every referenced global is defined" % ex.msg, w)
            elif cls == "undef" and r[2] == "inner":
                p.violation("rejects/undefined-in-partial" + tag, "partial link reports undefined symbols (%s)" % ex.msg, w)
            elif cls == "overfull" and not exp["overfull"]:
                if exp["fits"] and hist != "right":
                    p.violation("rejects/fitting-memory" + tag, "link reports %s although sequential placement fits every memory" % ex.msg, w)
                else:
                    p.count("overfull_by_padding")
            elif cls == "other-compiler-error":
                p.count("unclassified_compiler_error")
                p.collect("unclassified_messages", str(ex.msg)[:80])
            if cls == "overfull":
                p.count("rejected_overfull")
            continue
        out = r[1]
        for cond in ("dup", "undef", "overfull"):
            if exp[cond]:
                what = {"dup": "global %s is defined more than once", "undef": "global %s is referenced but never defined (non-partial link)",
                        "overfull": "memory %s is smaller than the bytes of its sections"}[cond] % exp[cond][0]
                p.violation("accepts/%s%s" % ({"dup": "duplicate", "undef": "undefined", "overfull": "overfull"}[cond], tag), "link succeeded although " + what, w)
        try:
            obs = check_output(p, sc, hist, out, w)
        except Exception as ex:  # noqa  (an accessor of the result object failed)
            p.violation(exc_key("crash-inspect" + tag, ex), "inspecting the linked object raised %r" % (ex,), w)
            obs = None
        results[hist] = ("ok", obs)
        if obs is not None:
            p.outcome((sc["fam"], hist, sc.get("form"), "ok", obs["pads"], obs["addrs"]))
            if sc["fam"] == "L" and exp["fits"] and any(t == m["size"] for t, m in zip(_totals(sc), sc["layout"]["memories"])):
                p.count("accepted_exact_fit")
    p.count("link_calls", counter[0])
    # K2: the histories must agree (modulo padding)
    if len(results) > 1:
        p.count("history_groups")
        base = results.get("flat")
        for hist, r in results.items():
            if hist == "flat" or base is None:
                continue
            w = dict(sc, hists=["flat", hist])
            if base[0] != r[0]:
                pad_related = "overfull" in (base[1], r[1]) and not exp["overfull"]
                if pad_related:
                    p.count("history_overfull_by_padding")
                else:
                    p.violation("history/outcome/" + hist, "flat link %s but %s-nested link %s" % (_say(base), hist, _say(r)), w)
                continue
            if base[0] == "err":
                if base[1] != r[1] and "overfull" not in (base[1], r[1]):
                    p.count("history_different_error")
                continue
            if base[1] is None or r[1] is None:
                continue
            if base[1]["order"] != r[1]["order"]:
                p.violation("history/order/" + hist, "leaf order per section: flat %r, %s-nested %r" % (base[1]["order"], hist, r[1]["order"]), w)
            if base[1]["bytes"] == r[1]["bytes"] and base[1]["symbols"] == r[1]["symbols"]:
                p.count("history_identical_" + hist)
            else:
                p.count("history_padding_differs_" + hist)


def _totals(sc):
    from vf.gen import objgen as G
    return G.place(sc["objs"], sc["layout"])["totals"]


def _say(r):
    return "succeeds" if r[0] == "ok" else "fails (%s)" % r[1]


# ------------------------------------------------------------------ families (compact items -> scenarios)

def _m_layouts(names, objs):
    """Layouts for the merge family; sizes spare (+1) so that only placement is at stake."""
    from vf.gen import objgen as G
    ins1 = [["SECTION", n] for n in names]
    ins2 = [["DEFINESYMBOL", "s"]] + [x for n in reversed(names) for x in (["SECTION", n], ["ALIGN", 8])] + [["DEFINESYMBOL", "e"]]
    l1 = G.layout([G.mem("m0", 0x100, G.BIG, ins1)])
    l2 = G.layout([G.mem("m0", 0x101, G.BIG, ins2)], entry="g0_%s_%d" % (names[0], objs[0]["sections"][0]["size"]))
    l3 = G.layout([G.mem("m0", 0x102, G.BIG, [["SECTION", names[0]], ["SECTIONDATA", names[-1]]]),
                   G.mem("m1", 0x2003, G.BIG, [["ALIGN", 2]] + [["SECTION", n] for n in names[1:]] + [["DEFINESYMBOL", "e"]])])
    return [None, l1, l2, l3]


def expand_m(item):
    from vf.gen import objgen as G
    _, names, combo, li, mode = item
    objs = []
    for k, oshape in enumerate(combo):
        secs = [G.sec(nm, sz, al) for nm, (sz, al) in zip(names, oshape)]
        objs.append(G.obj(secs, G.std_symbols(k, secs), tag=k))
    ld = _m_layouts(names, objs)[li]
    if ld is not None:
        if ld.get("entry") and not any(y["name"] == ld["entry"] for y in objs[0]["symbols"]):
            ld["entry"] = None
        tot = G.place(objs, ld)["totals"]
        # right-nested links may legitimately need more padding: leave generous room, tightness is family L's job
        ld = G.with_sizes(ld, [t + 64 for t in tot])
    return {"fam": "M", "objs": objs, "layout": ld, "form": "obj", "partial": mode == "partial", "hists": list(HISTS)}


def expand_r(item):
    from vf.gen import objgen as G
    _, names, assign, ctxname = item
    nobj = len(assign) // len(names)
    objs = []
    for k in range(nobj):
        secs = [G.sec("code", 4, 4)]
        syms = []
        for i, nm in enumerate(names):
            r = assign[k * len(names) + i]
            if r == "local":
                syms.append(G.sym(nm, "local", "code", i + 1))
            elif r == "global":
                syms.append(G.sym(nm, "global", "code", i + 1))
            elif r == "undef":
                syms.append(G.sym(nm, "global", None, None))
        objs.append(G.obj(secs, syms, tag=k))
    ld, partial = None, False
    if ctxname == "partial":
        partial = True
    elif ctxname == "defsym":
        ld = G.layout([G.mem("m0", 0x100, G.BIG, [["SECTION", "code"], ["DEFINESYMBOL", names[0]]])])
    elif ctxname == "entry":
        ld = G.layout([G.mem("m0", 0x100, G.BIG, [["SECTION", "code"]])], entry=names[0])
    elif ctxname == "entry+defsym":
        ld = G.layout([G.mem("m0", 0x100, G.BIG, [["DEFINESYMBOL", names[-1]], ["SECTION", "code"]])], entry=names[0])
    extra = None
    if ctxname == "extra":
        extra = {names[0]: 0x20000008}
    elif ctxname == "extra+defsym":
        extra = {names[0]: 0x20000008}
        ld = G.layout([G.mem("m0", 0x100, G.BIG, [["SECTION", "code"], ["DEFINESYMBOL", names[0]]])])
    return {"fam": "R", "objs": objs, "layout": ld, "form": "obj", "partial": partial, "hists": list(HISTS), "extra": extra}


L_ITEMS = [["SECTION", "code"], ["SECTION", "data"], ["SECTION", "extra"], ["SECTIONDATA", "data"], ["ALIGN", 8], ["ALIGN", 2], ["DEFINESYMBOL", "s"]]


def l_object_sets(tier):
    """Object pairs a{code,data} b{code,extra}; shapes from {(1,1),(5,8)}^4 (16 sets) plus one with empty sections."""
    import itertools
    from vf.gen import objgen as G
    out = []
    two = [(1, 1), (5, 8)]
    combos = list(itertools.product(two, repeat=4))
    if tier == "quick":
        combos = [combos[0], combos[6], combos[9], combos[15]]
    combos.append(((0, 4), (3, 2), (4, 4), (0, 8)))
    for c in combos:
        sa = [G.sec("code", *c[0]), G.sec("data", *c[1])]
        sb = [G.sec("code", *c[2]), G.sec("extra", *c[3])]
        out.append([G.obj(sa, G.std_symbols(0, sa), tag=0), G.obj(sb, G.std_symbols(1, sb), tag=1)])
    return out


def expand_l(item, cache={}):
    from vf.gen import objgen as G
    _, tier, max_len, oi, li, vi, form = item
    key = (tier, max_len)
    if key not in cache:
        cache[key] = (l_object_sets(tier), G.layouts(L_ITEMS, max_len))
    osets, lays = cache[key]
    objs = osets[oi]
    variants = G.size_variants(objs, lays[li])
    if vi >= len(variants):
        return None
    return {"fam": "L", "objs": objs, "layout": variants[vi][1], "form": form, "partial": False, "hists": ["flat"]}


def expand(item):
    return {"M": expand_m, "R": expand_r, "L": expand_l}[item[0]](item)


def check_text_layout(p, sc):
    """The text form must parse to the described layout (structural read-out)."""
    from vf.gen import objgen as G
    from vf.core import exc_key
    w = dict(sc, hists=["flat"])
    try:
        got = G.describe_layout(G.parse_layout(G.layout_text(sc["layout"], hexnum=(sc["form"] == "text"))))
    except Exception as ex:  # noqa
        p.violation(exc_key("layout-text/raises", ex), "Layout.load raised %r on generated text" % (ex,), w)
        return
    if got != sc["layout"]:
        field = "entry" if got["entry"] != sc["layout"]["entry"] else "memories"
        p.violation("layout-text/" + field, "Layout.load read %r, text describes %r" % (got, sc["layout"]), w)


def worker(p, shard):
    from vf.core import cpu_limit, CpuTimeout
    for item in shard:
        sc = expand(item)
        if sc is None:
            continue
        try:
            with cpu_limit(20):
                if sc["form"] != "obj":
                    check_text_layout(p, sc)
                check_scenario(p, sc)
        except CpuTimeout:
            p.violation("timeout/" + sc["fam"], "link scenario exceeded 20 s CPU", dict(sc))


# ------------------------------------------------------------------ bounds

def items_for(tier, seed):
    import itertools
    from vf.gen import objgen as G
    items, notes = [], {}
    full = G.shapes()
    # M: three objects, one section
    combos = G_sorted(itertools.product([(s,) for s in full], repeat=3))
    modes = [(0, "final"), (0, "partial"), (1, "final"), (2, "final")] if tier == "quick" else [(0, "final"), (0, "partial"), (1, "final"), (2, "final"), (3, "final")]
    for c in combos:
        for li, mode in modes:
            items.append(("M", ("code",), c, li, mode))
    notes["M1_triples"] = len(combos)
    # M: two sections per object
    small = G.shapes((0, 3, 8), (1, 8)) if tier == "quick" else G.shapes((0, 1, 5, 8), (1, 4, 8))
    per_obj = list(itertools.product(small, repeat=2))
    c2 = G_sorted(itertools.product(per_obj, repeat=2))
    for c in c2:
        for li, mode in [(0, "final"), (0, "partial"), (2, "final"), (3, "final")]:
            items.append(("M", ("code", "data"), c, li, mode))
    notes["M2_pairs"] = len(c2)
    if tier == "thorough":
        tiny = G.shapes((0, 3, 8), (1, 8))
        per_obj = list(itertools.product(tiny, repeat=2))
        c3 = G_sorted(itertools.product(per_obj, repeat=3))
        for c in c3:
            for li, mode in [(0, "final"), (3, "final")]:
                items.append(("M", ("code", "data"), c, li, mode))
        notes["M2_triples"] = len(c3)
    # R: roles
    n_r = 0
    for names, nobj in ((("x",), 3), (("x", "y"), 2), (("x", "y"), 3)):
        if tier == "quick" and names == ("x", "y") and nobj == 3:
            ctxs = ["plain", "defsym", "extra"]
        else:
            ctxs = ["plain", "partial", "defsym", "entry", "entry+defsym", "extra", "extra+defsym"]
        rank = {r: i for i, r in enumerate(G.ROLES)}
        assigns = sorted(itertools.product(G.ROLES, repeat=nobj * len(names)), key=lambda a: (sum(rank[r] != 0 for r in a), [rank[r] for r in a]))
        for a in assigns:
            for c in ctxs:
                items.append(("R", names, a, c))
                n_r += 1
    notes["R_scenarios"] = n_r
    # L: layout orderings x size variants x forms
    max_len = 3 if tier == "quick" else 4
    nl = G.layouts_count(len(L_ITEMS), max_len)
    nsets = len(l_object_sets(tier))
    for li in range(nl):
        for oi in range(nsets):
            for vi in range(4):
                if tier == "quick":
                    # quick: every case as object and as one text form (hex / decimal numbers alternate, the seed picks the phase)
                    forms = ["obj", "text" if (li + oi + vi + seed) % 2 == 0 else "text10"]
                else:
                    forms = ["obj", "text", "text10"]
                for form in forms:
                    items.append(("L", tier, max_len, oi, li, vi, form))
    notes["L_layouts"] = nl
    notes["L_object_sets"] = nsets
    return items, notes


def G_sorted(combos):
    return sorted(combos, key=lambda c: (sum(s for o in c for s, _ in o), sum(a for o in c for _, a in o), c))


def selfcheck():
    """Enumerator counts vs closed forms."""
    from vf.gen import objgen as G
    assert len(G.shapes()) == len(G.SIZES) * len(G.ALIGNS)
    for ml in (1, 2, 3):
        assert len(G.layouts(L_ITEMS, ml)) == G.layouts_count(len(L_ITEMS), ml), ml
    assert len(G.merge_sets(2, G.shapes((0, 1), (1, 4)))) == 4 ** 2
    assert len(G.role_sets(2, ("x",))) == 4 ** 2
    ld = G.layouts(L_ITEMS, 3)[-1]
    assert G.describe_layout(G.build_layout(ld)) == ld


def _quiet():
    import logging
    logging.getLogger("linker").setLevel(logging.CRITICAL + 1)  # the linker logs every undefined reference at ERROR level


def run(ctx):
    _quiet()
    selfcheck()
    items, notes = items_for(ctx.tier, ctx.seed)
    for k, v in notes.items():
        ctx.note(k, v)
    ctx.note("items", len(items))
    for probe in (items[0], items[len(items) // 2], items[-1]):
        sc = expand(probe)
        if sc:
            ctx.sample({"fam": sc["fam"], "objs": [[(s["name"], s["size"], s["align"]) for s in o["sections"]] for o in sc["objs"]],
                        "layout": sc["layout"], "form": sc["form"], "partial": sc["partial"], "hists": sc["hists"]})
    ctx.pmap(worker, items)
    ctx.states = ctx.counters.get("states", 0)
    ctx.transitions = ctx.counters.get("link_calls", 0)
    ctx.traces = ctx.counters.get("history_groups", 0)
    ctx.note("boundary", "memories one byte short rejected: %d; exact-fit accepted: %d" % (ctx.counters.get("rejected_overfull", 0), ctx.counters.get("accepted_exact_fit", 0)))
    ctx.note("history_note", "right-nested histories may pad more (a partial link's output section has alignment >= 4); compared modulo padding")
    if not ctx.violations and (ctx.counters.get("rejected_overfull", 0) == 0 or ctx.counters.get("accepted_exact_fit", 0) == 0):
        raise_harness("memory-size boundary never exercised")


def raise_harness(msg):
    from vf.core import HarnessError
    raise HarnessError(msg)


def replay(w):
    from vf.core import Partial
    _quiet()
    p = Partial()
    if w.get("form", "obj") != "obj" and w.get("layout"):
        check_text_layout(p, w)
    check_scenario(p, w)
    if p.violations:
        k = sorted(p.violations)[0]
        return True, k + ": " + p.violations[k][1]
    return False, "all placement invariants hold"
