"""C24 - the IR -> Python backend (ppci.lang.python.ir2py) executes IR semantics exactly.

Bounded exhaustive input enumeration (K1): every case is a tiny IR function; many cases are batched into one IR module,
`ir_to_python` generates one Python module for the batch, it is exec'd in a fresh namespace, and every (function, argument
vector) is run both by the generated Python and by the reference interpreter vf/sem/irinterp.py on the *same* ir.Module.
"""
import io
import math
import struct
import traceback

ID = "C24"
LEVEL = "exploration"
RULE = ("L1 k=1: every binary operator (+ - * / % | & ^ << >> rol ror; floats + - * /) and unary operator (- ~) x every IR value type "
        "(i8..u64, f32, f64) x V13 x V13 boundary operands (19 values per integer type, 16 per float type), operands passed as arguments, as "
        "printed constants, mixed and twice the same value; every operand pair (65536) of i8 and u8 for every operator; every constant; "
        "every cast pair (10x10 types) x V13/float alphabet plus 33 half-way and range-edge floats, as argument and as constant; every "
        "comparison x type x V13 x V13 through cjmp; k=2: all two-instruction straight-line programs over i8 and u64 x V7 x V7 (thorough: "
        "all integer types and f64 x V13 x V13); L2: load/store of every type at 8 aligned/unaligned offsets of a global byte image and of "
        "stack slots, store-as-T1/load-as-T2 for all type pairs, pointers stored and reloaded, pointer differences, irgen.l2_programs(<=2); "
        "L3: irgen.l3 CFG programs over memory variables for all skeletons of <= 3 blocks (thorough: 4); L4: irgen.l4 phi patterns, "
        "SSA-form programs (phis at joins, pruned and unpruned, values live across blocks, swap and keep-previous renamings) for all "
        "skeletons of <= 3 blocks (thorough: 4) x 25 argument pairs, stack-frame discipline (slots live across calls, allocs outside the "
        "entry block, recursion) and function pointers through phi/memory/argument; a case = one (function, argument vector) run that the "
        "reference interpreter classifies as defined; distinct non-trivial = distinct (family feature, returned value, global memory image)")
ASSUMPTIONS = [
    "reference: vf/sem/irinterp.py Interp run on the same ir.Module with ptr_size=4 (the generated runtime's pointer width); wrap-around "
    "integers, / and % truncating, arithmetic >> for signed, float->int truncating, f32 values rounded to single precision",
    "only returned values, bytes of global variables, external-call traces and pointer differences are compared, never raw addresses",
    "runs the reference classifies as undefined (division by zero, INT_MIN/-1, shift count outside [0,width), float->int out of range or "
    "non-finite, ...) or that exceed its step horizon are not executed and not compared",
    "float division by zero (IEEE: inf/nan; the generated Python raises ZeroDivisionError) is counted, not judged: the property statement "
    "does not fix it",
    "IR the generator refuses with NotImplementedError (CopyBlob) is counted, not judged",
    "external functions are the deterministic stub 3*sum(args)+1 on both sides",
    "f32 arguments and constants are f32-representable values",
]
CLAIM = {"text": "inside the stated bound every defined run of generated Python returns the value, leaves the global memory and makes the external "
                 "calls that IR semantics prescribe, except for the listed known findings",
         "note": "trusted: vf/sem/irinterp.py (cross-validated against gcc by C01), vf/gen/irgen.py builder",
         "technique": "bounded exhaustive differential execution against a reference interpreter", "engine": "K1"}

HEAP_START = 0x10000000
HANG_CPU_S = 0.03   # CPU-time budget of one generated-code run whose reference run ended within <= 200 block steps (microseconds of work)
HANG_RETRY_CPU_S = 3.0  # second, deciding budget when the first one is exhausted
BATCH = {"binop": 128, "unop": 128, "const": 128, "cast": 128, "cmp": 64, "mem": 24, "cfg": 16, "l1k2": 96}


# --------------------------------------------------------------------------- witness encoding (floats incl. nan/inf as strings)

def enc(x):
    if isinstance(x, float):
        return {"$f": repr(x)}
    if isinstance(x, (list, tuple)):
        return [enc(y) for y in x]
    if isinstance(x, dict):
        return {k: enc(v) for k, v in x.items()}
    return x


def dec(x):
    if isinstance(x, dict):
        if set(x) == {"$f"}:
            return float(x["$f"])
        return {k: dec(v) for k, v in x.items()}
    if isinstance(x, list):
        return [dec(y) for y in x]
    return x


def obs(v):
    if isinstance(v, float):
        if v != v:
            return "nan"
        return "f:" + struct.pack("<d", v).hex()
    if isinstance(v, bool):
        return "bool:%r" % v
    if v is None or isinstance(v, int):
        return v
    return "other:" + type(v).__name__


def show(v):
    return repr(v)


def f32r(x):
    try:
        return struct.unpack("<f", struct.pack("<f", x))[0]
    except (OverflowError, struct.error):
        return math.copysign(math.inf, x)


def tclass(ty):
    if ty in ("f32", "f64", "ptr"):
        return ty
    return ("signed" if ty[0] == "i" else "unsigned") + ("64" if ty.endswith("64") else "")


def sclass(x):
    if isinstance(x, float):
        if x != x:
            return "nan"
        if x in (math.inf, -math.inf):
            return "-inf" if x < 0 else "inf"
        if x == 0:
            return "-zero" if math.copysign(1.0, x) < 0 else "zero"
    return "neg" if x < 0 else ("zero" if x == 0 else "pos")


def wrap_int(ty, v):
    bits = int(ty[1:])
    v &= (1 << bits) - 1
    if ty[0] == "i" and v >> (bits - 1):
        v -= 1 << bits
    return v


# --------------------------------------------------------------------------- external stub (mirror of the reference's default stub)

def make_stub(name, argtys, ret, trace):
    def stub(*args):
        trace.append((name, tuple(obs(a) for a in args)))
        s = 0
        for a in args:
            if isinstance(a, float):
                s += int(a) if math.isfinite(a) else 0
            else:
                s += a
        if ret is None:
            return None
        if ret in ("f32", "f64"):
            r = float(s) + 0.5
            return f32r(r) if ret == "f32" else r
        if ret == "ptr":
            return (3 * s + 1) & 0xFFFFFFFF
        return wrap_int(ret, 3 * s + 1)
    return stub


# --------------------------------------------------------------------------- classification of a mismatch -> locus key

def operands_of(case, args):
    info = case["info"]
    form = info.get("form")
    if form in ("args",):
        return list(args)
    if form == "same-arg":
        return [args[0], args[0]]
    if form == "const":
        return list(info["operands"])
    if form == "arg,const":
        return [args[0], info["const"]]
    if form == "const,arg":
        return [info["const"], args[0]]
    return list(info.get("operands", args))


def label_of(case):
    k, info = case["kind"], case["info"]
    if k in ("binop", "unop", "cmp"):
        return "%s/%s/%s" % (k, info["op"], tclass(info["ty"]))
    if k == "cast":
        return "cast/%s->%s" % (tclass(info["src"]), tclass(info["dst"]))
    if k == "const":
        return "const/%s" % tclass(info["ty"])
    if k == "mem":
        return "mem/%s/%s/%s" % (info["what"], info["ty"], info["al"])
    if k == "cfg":
        return "cfg/%s/%s" % (info["fam"], info["features"])
    if k == "l1k2":
        return "l1k2/%s" % tclass(info["ty"])   # k = 1 has the fine-grained loci; the witness shows the two instructions
    return k


def syntax_label(case):
    if case["kind"] in ("binop", "unop", "cmp"):
        return "%s/%s" % (case["kind"], case["info"]["op"])
    return label_of(case)


def wrong_key(case, args, want_r, got_r, part):
    """part: 'result' | 'memory' | 'trace'."""
    k, info = case["kind"], case["info"]
    if part == "result" and isinstance(want_r, float) and isinstance(got_r, float):
        rty = case["desc"]["functions"][0].get("ret")
        if rty == "f32" and obs(f32r(got_r)) == obs(want_r) and k in ("binop", "unop", "cast"):
            return "f32-not-rounded/%s" % k
    if k in ("binop", "unop", "cmp") and part == "result":
        ops = operands_of(case, args)
        return "%s/%s" % (label_of(case), ",".join(sclass(x) for x in ops))
    if k == "cast" and part == "result":
        x = operands_of(case, args)[0]
        if info["src"] in ("f32", "f64") and info["dst"] not in ("f32", "f64") and isinstance(got_r, int) and math.isfinite(x):
            if got_r == wrap_int(info["dst"], int(round(x))) and want_r == math.trunc(x):
                return "cast/float->int/rounds-instead-of-truncating"
        return "%s/wrong" % label_of(case)
    if k == "cfg":
        return label_of(case)   # one locus per (family, structural feature), whatever the symptom
    return "%s/%s" % (label_of(case), part)


def exception_key(case, ex, rt_names=()):
    """Locus of a Python exception raised by generated code on a defined run."""
    where = None
    for fr in reversed(traceback.extract_tb(ex.__traceback__)):
        if fr.filename == "<ir2py>":
            if fr.name in rt_names:
                where = "rt." + fr.name
            break
    if case["kind"] == "cfg":
        return label_of(case)   # one locus per (family, structural feature), whatever the symptom
    if isinstance(ex, NameError) and getattr(ex, "name", None) in ("nan", "inf"):
        return "gen-raises/NameError/const-%s" % ex.name
    return "gen-raises/%s/%s" % (type(ex).__name__, where or label_of(case))


# --------------------------------------------------------------------------- one batch

class Batch:
    """One IR module holding the functions/globals/externals of all cases, each renamed with its own suffix."""

    def __init__(self, cases):
        from vf.gen import irgen, irgen24
        self.cases = cases
        self.suffix = ["_%d" % i for i in range(len(cases))]
        descs = [irgen24.rename(c["desc"], s) for c, s in zip(cases, self.suffix)]
        self.rdescs = descs
        self.module = irgen.build(irgen24.merge(descs))


_RUNTIME = []


def runtime_code():
    """The generated runtime (class IrPy, rt = IrPy()), generated by ir2py once per process and compiled once; every batch
    exec's it into its own fresh namespace, then the module text generated with runtime=False (ppci's own split: api.ir_to_python
    (..., runtime=False) is how the wasm path uses it).  The text is identical to what ir_to_python(runtime=True) emits in one piece."""
    if not _RUNTIME:
        from ppci.lang.python.ir2py import irpy_runtime_code
        f = io.StringIO()
        irpy_runtime_code(f)
        _RUNTIME.append(compile(f.getvalue(), "<ir2py>", "exec"))
    return _RUNTIME[0]


def generate(module, runtime=False):
    from ppci.api import ir_to_python
    f = io.StringIO()
    ir_to_python([module], f, runtime=runtime)
    return f.getvalue()


def run_cases(p, cases):
    """Evaluate a list of cases as one generated module (bisecting when the batch as a whole cannot be generated/compiled)."""
    from vf.core import cpu_limit, CpuTimeout, exc_key
    from vf.sem.irinterp import Interp, Undefined, Horizon, Unsupported
    from vf.sem import irtools
    if not cases:
        return
    b = Batch(cases)
    m = b.module

    def split():
        h = len(cases) // 2
        run_cases(p, cases[:h])
        run_cases(p, cases[h:])

    def defined_runs(case, idx):
        """Does the reference classify at least one run of this case as defined?  (only then a generator failure is judged)"""
        for a in case["args"]:
            it = Interp(m, ptr_size=4, max_steps=case["steps"])
            try:
                it.call("f" + b.suffix[idx], a)
                return a
            except (Undefined, Horizon, Unsupported, RecursionError):
                continue
        return None

    # ---- generate
    stage = "ir_to_python"
    try:
        src = generate(m)
        stage = "compile"
        code = compile(src, "<ir2py>", "exec")
        stage = "module-exec"
        ns = {}
        exec(runtime_code(), ns)
        exec(code, ns)
    except Exception as ex:  # noqa
        if len(cases) > 1:
            return split()
        case = cases[0]
        a = defined_runs(case, 0)
        if a is None:
            p.count("generator_failure_without_defined_run")
            return
        p.add()
        wit = witness(case, a)
        if isinstance(ex, NotImplementedError):
            p.count("ir2py_refuses_with_NotImplementedError")
            p.collect("ir2py_refused", str(ex)[:60])
        elif isinstance(ex, SyntaxError):
            p.violation("generated-code/SyntaxError/%s" % syntax_label(case), "%s: ir_to_python emitted Python that does not compile: %s (line %r)" % (
                case["feat"], ex.msg, (ex.text or "").strip()), wit, order=case["seq"] * 1000)
        else:
            p.violation(exc_key("%s-raises/%s" % (stage, label_of(case)), ex), "%s: %s raised %r for a module with defined runs" % (case["feat"], stage, ex), wit,
                        order=case["seq"] * 1000)
        return
    rt = ns["rt"]
    rt_names = set(vars(ns["IrPy"]))
    trace = []
    for d in b.rdescs:
        for name, argtys, ret in d.get("externals", []):
            rt.externals[name] = make_stub(name, argtys, ret, trace)
    heap0 = bytes(rt.heap)
    check_wf = any(c["kind"] == "cfg" for c in cases)
    if check_wf:
        bad = irtools.wellformed(m)
        if bad:
            p.count("batch_not_wellformed_skipped", len(cases))
            p.collect("not_wellformed", bad[0][0])
            return
    shared = None
    for idx, case in enumerate(cases):
        fname = "f" + b.suffix[idx]
        pyf = ns.get(fname)
        gl = [(g[0], g[1]) for g in b.rdescs[idx].get("globals", []) if g[0][:-len(b.suffix[idx])] not in case.get("skip_globals", ())]
        cut = len(b.suffix[idx])
        pure = case.get("pure", False)
        lab = label_of(case)
        for ai, args in enumerate(case["args"]):
            order = case["seq"] * 1000 + ai
            # ---- reference
            if pure:
                if shared is None:
                    shared = Interp(m, ptr_size=4, max_steps=case["steps"])
                it = shared
                it.steps = 0
                it.trace = []
                it.max_steps = case["steps"]
            else:
                it = Interp(m, ptr_size=4, max_steps=case["steps"])
            try:
                r = it.call(fname, args)
            except Undefined:
                p.count("runs_undefined_not_compared")
                continue
            except (Horizon, RecursionError):
                p.count("runs_beyond_horizon_not_compared")
                continue
            except Unsupported:
                p.count("runs_unsupported_by_reference_not_compared")
                continue
            want_r = r
            regs = dict(it.globals)
            want_mem = [(n, bytes(regs[n].data[:sz]).hex()) for n, sz in gl]
            want_trace = list(it.trace)
            # ---- generated Python
            p.add()
            rt.heap[:] = heap0
            del rt.stack[:]
            del trace[:]
            try:
                if pure:
                    got_r = pyf(*args)
                else:
                    try:
                        with cpu_limit(HANG_CPU_S):
                            got_r = pyf(*args)
                    except CpuTimeout:
                        # a collector pause or timer granularity can exhaust the small budget: decide with a budget 100x larger, from the same start state
                        p.count("runs_slow_retried")
                        rt.heap[:] = heap0
                        del rt.stack[:]
                        del trace[:]
                        with cpu_limit(HANG_RETRY_CPU_S):
                            got_r = pyf(*args)
            except CpuTimeout:
                p.count("runs_hanging")
                p.violation(lab if case["kind"] == "cfg" else "gen-hangs/%s" % lab, "%s args %s: generated Python still running after %.2f CPU-seconds; the reference "
                            "returns %s after %d block steps" % (case["feat"], show(args), HANG_RETRY_CPU_S, show(want_r), it.steps), witness(case, args), order=order)
                continue
            except Exception as ex:  # noqa
                if isinstance(ex, ZeroDivisionError) and "float" in str(ex) and case["kind"] in ("binop", "l1k2"):
                    p.count("float_division_by_zero_raises_not_judged")
                    continue
                p.violation(exception_key(case, ex, rt_names), "%s args %s: generated Python raised %s: %s; the reference returns %s" % (
                    case["feat"], show(args), type(ex).__name__, ex, show(want_r)), witness(case, args), order=order)
                continue
            if obs(got_r) != obs(want_r):
                p.violation(wrong_key(case, args, want_r, got_r, "result"), "%s%s args %s: generated Python returns %s, IR semantics give %s" % (
                    case["feat"], operand_text(case), show(args), show(got_r), show(want_r)), witness(case, args), order=order)
                continue
            bad = False
            got_mem = []
            for n, sz in gl:
                a = ns[n] - HEAP_START
                got_mem.append((n, bytes(rt.heap[a:a + sz]).hex()))
            if got_mem != want_mem:
                bad = True
                p.violation(wrong_key(case, args, want_r, got_r, "memory"), "%s args %s: global memory after the call is %s, IR semantics give %s" % (
                    case["feat"], show(args), got_mem, want_mem), witness(case, args), order=order)
            if trace != want_trace:
                bad = True
                p.violation(wrong_key(case, args, want_r, got_r, "trace"), "%s args %s: external calls %s, IR semantics give %s" % (
                    case["feat"], show(args), trace, want_trace), witness(case, args), order=order)
            if not bad:
                p.outcome((lab, obs(want_r), tuple((n[:-cut], h) for n, h in want_mem)))
                if len(rt.stack):
                    p.count("runs_leaving_stack_bytes_allocated")


def operand_text(case):
    info = case["info"]
    if info.get("form") == "const":
        return " consts %s" % show(info["operands"])
    if "const" in info:
        return " const %s" % show(info["const"])
    if case["kind"] in ("const",) or (case["kind"] in ("cast", "unop") and "operands" in info):
        return " const %s" % show(info["operands"])
    return ""


def witness(case, args):
    w = {k: case[k] for k in ("kind", "info", "feat", "desc", "steps") if k in case}
    for k in ("pure", "skip_globals"):
        if k in case:
            w[k] = case[k]
    w["args"] = [list(args)]
    return enc(w)


# --------------------------------------------------------------------------- families and work items

def families():
    from vf.gen import irgen24 as g
    return {"binop_arg": g.binop_arg_cases, "binop_const": g.binop_const_cases, "binop_mixed": g.binop_mixed_cases, "binop8": g.binop8_cases,
            "unop": g.unop_cases, "const": g.const_cases, "cast": g.cast_cases, "cmp": g.cmp_cases, "mem": g.mem_cases, "l2": g.l2_cases,
            "l3": g.l3_cases, "l4": g.l4_cases, "ssa": g.ssa_cases, "l1k2": g.l1k2_cases, "frame": g.frame_cases, "fptr": g.fptr_cases}


def worker(p, shard):
    fam = families()
    for item_no, name, kw in shard:
        cases = list(fam[name](**kw))
        for i, c in enumerate(cases):
            c["seq"] = item_no * 100000 + i
        if not cases:
            continue
        if p.evaluations == 0 and len(p.samples) < 1:
            c = cases[0]
            p.sample({"family": name, "feature": c["feat"], "function": c["desc"]["functions"][0]["blocks"], "args": enc(c["args"][:2])})
        n = BATCH[cases[0]["kind"]]
        for i in range(0, len(cases), n):
            run_cases(p, cases[i:i + n])


def chunks(n, size):
    return [(i, min(n, i + size)) for i in range(0, n, size)]


def work_items(quick):
    from vf.gen import irgen, irgen24 as g
    items = []
    # simplest first: the item number is the major part of the witness order
    items.append(("const", {}))
    items.append(("unop", {}))
    for ty in g.ALL_TYPES:
        items.append(("binop_arg", {"types": [ty]}))
    for ty in g.ALL_TYPES:
        items.append(("binop_mixed", {"types": [ty]}))
    items.append(("cast", {}))
    items.append(("cmp", {}))
    items.append(("mem", {}))
    for ty in g.ALL_TYPES:
        items.append(("binop_const", {"types": [ty]}))
    for ty in (["i32", "u8"] if quick else ["i32", "u8", "i64", "u16"]):
        items.append(("l2", {"nops": 1, "types": [ty]}))
        items.append(("l2", {"nops": 2, "types": [ty]}))
    items.append(("l4", {"types": ["i32", "u8", "i64", "u32"] if quick else g.INT_TYPES, "quick": quick}))
    items.append(("frame", {"types": ["i32"] if quick else ["i32", "u8", "i64"], "quick": quick}))
    items.append(("fptr", {"quick": quick}))
    for n in (1, 2, 3):
        ns = len(irgen.cfg_skeletons(n))
        for sk in chunks(ns, 8):
            items.append(("ssa", {"nblocks": n, "quick": quick, "sk": sk}))
        for sk in chunks(ns, 24):
            items.append(("l3", {"nblocks": n, "variants": 4 if quick else 6, "quick": quick, "sk": sk}))
    # every operand pair of the 8-bit types, every operator
    for ty in ("i8", "u8"):
        lo, hi = (-128, 127) if ty == "i8" else (0, 255)
        rows = sorted(range(lo, hi + 1), key=abs)
        for op in g.ALL_BINOPS:
            for i in range(0, 256, 64):
                items.append(("binop8", {"ty": ty, "op": op, "rows": rows[i:i + 64]}))
    # all two-instruction straight-line programs
    for ty in (["i8", "u64"] if quick else g.INT_TYPES + ["f64"]):
        for part in range(8):
            items.append(("l1k2", {"types": [ty], "argk": 7 if quick else 13, "part": part, "nparts": 8}))
    if not quick:
        for ty in ("u8", "i64"):
            for n in (1, 2, 3):
                items.append(("ssa", {"nblocks": n, "quick": True, "ty": ty}))
        ns = len(irgen.cfg_skeletons(4))
        for sk in chunks(ns, 24):
            items.append(("ssa", {"nblocks": 4, "quick": True, "sk": sk}))
        for sk in chunks(ns, 96):
            items.append(("l3", {"nblocks": 4, "variants": 4, "quick": True, "sk": sk}))
    return [(i, name, kw) for i, (name, kw) in enumerate(items)]


def run(ctx):
    items = work_items(ctx.quick)
    ctx.note("work_items", len(items))
    ctx.note("families", sorted({n for _, n, _ in items}))
    ctx.sample({"family": "ssa", "why": "do-while loop whose old loop variable is live after the loop",
                "function": [[["const", "i32", 1], ["jmp", 1]], [["phi", "i32", [[0, "p0"], [2, "%2"]]], ["jmp", 2]],
                             [["bin", "+", "%1", "%0", "i32"], ["cjmp", "%2", "<", "p1", 1, 3]], [["ret", "%1"]]], "args": [0, 3], "reference": 2})
    ctx.pmap(worker, items, nshards=min(len(items), 512))


def replay(w):
    from vf.core import Partial
    case = dec(w)
    case["seq"] = 0
    p = Partial()
    run_cases(p, [case])
    if p.violations:
        k = sorted(p.violations, key=lambda k: p.violations[k][0])[0]
        return True, k + ": " + p.violations[k][1]
    return False, "generated Python agrees with the reference interpreter (%d run(s) compared)" % p.evaluations
