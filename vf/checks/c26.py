"""C26 - ppci's C preprocessor vs gcc -E on exhaustively enumerated small translation units.

Families (all enumerated completely inside the stated bound, simplest first):
  I   `#if E` for expression trees of depth <= 2 (fully parenthesised sub-expressions)
  P   `#if a op1 b op2 c` without parentheses (precedence / associativity of the #if parser)
  C   #if/#ifdef/#ifndef/#elif/#else chains, nested conditionals, #define inside skipped groups
  M   <= 3 macro definitions from a menu of shapes x <= 2 use sites from a menu
Second generation (section "second generation families" below; one gcc process per batch, every unit under its own
presumed file name u<k>.c, a scratch include directory shared by both preprocessors):
  L   __LINE__ / __FILE__ in sequences of <= 2 (thorough: <= 3) source items from a menu of 27 (plain, in arguments, in
      bodies, through object-like macros, # and ##, #if, line splices, multi-line comments, multi-line invocations)
  K   __COUNTER__, #define of predefined macro names (one gcc process per unit: their effects cannot be undone inside a process)
  D   #line, #error, #warning, #pragma, _Pragma, null directive: forms x operands x contexts (taken / skipped groups)
  N   #include: 10 operand forms x 19 headers, and every ordered pair of headers (guards, #pragma once, nesting,
      __INCLUDE_LEVEL__, __FILE__ of headers, quote vs angle lookup)
  X   lexer: comments, pp-numbers, literals, splices inside tokens, punctuators, digraphs, stray characters, character
      constants in #if -- each of 97 snippets in up to 5 contexts (top level, skipped group, macro body, argument, stringified argument)
  U   #undef, every ordered pair of same-name definitions (compatible / incompatible redefinition), `defined` forms,
      argument shapes (unbalanced brackets, empty arguments, variadic and named variadic, placemarkers), C99 6.10.3.5 examples
Oracle: `gcc -E -P -std=c99 -pedantic-errors`; units that gcc rejects are excluded.  For #if units a
C-rule reference evaluator written here (intmax_t/uintmax_t) additionally excludes undefined /
implementation-defined expressions and names the locus of a disagreement; the verdict itself is
always gcc's output, compared as token sequences.
"""
import io
import os
import re
import bisect
import itertools
import contextlib
import subprocess

ID = "C26"
LEVEL = "exploration"
RULE = ("K1 bounded-exhaustive: (I) every #if expression tree of depth<=1 over 15 leaves x 18 binary, 4 unary, ?: and defined, plus "
        "depth-2 trees over a reduced leaf set (one deep child: set S; two deep children: set S'); (P) every unparenthesised "
        "`a op1 b op2 c`, unary-binary and ?: nesting over small operands; (C) every #if/#elif/#else chain with <=2 #elif, "
        "6 opening forms, optional #else, one nested group at every branch position; (M) every unit of <=3 macro definitions "
        "(distinct names, menu of 29 shapes over 11 names) x <=2 use sites (menu of 56) in which every use names a defined macro and "
        "every definition is referenced.  Distinct non-trivial = distinct (family, operator/shape set, resulting token sequence) "
        "of a unit that gcc accepts and in which a directive or a macro expansion took effect.  Second generation, each family "
        "a complete product of small menus: (L) every sequence of <=2 (thorough <=3) items of a menu of 27 __LINE__/__FILE__ uses, "
        "followed by `E __LINE__`; (K) 12 __COUNTER__ units and 5 #define of predefined names; (D) 8 #line forms x 5 line numbers x 3 followers, #line in every group "
        "context and in a header, #error and #warning with 4 messages x 11 taken/skipped group contexts, 8 #pragma bodies x 11 "
        "contexts, 8 _Pragma uses, null and malformed directives in skipped groups; (N) 10 #include operand forms x 19 headers plus "
        "every ordered pair of the 19 headers in quote and angle form; (X) 97 lexer snippets, each in up to 5 contexts (top level, "
        "skipped group, object-like macro body, macro argument, stringified argument), 24 comment/white-space placements in directive "
        "lines, 23 character-constant #if expressions and their negations; (U) 11 #undef units, every ordered pair of 9 object-like "
        "and of 7 function-like definitions of one name, 18 `defined` expressions x definedness of two names x #if/#elif, 117 macro "
        "calls with unbalanced brackets / empty / variadic / placemarker arguments over 20 macro shapes, 6 examples of C99 "
        "6.10.3.3-6.10.3.5.  Distinct non-trivial there = distinct (family, feature, gcc verdict, gcc token sequence)")
ASSUMPTIONS = [
    "oracle: gcc 12 `-E -P -std=c99 -pedantic-errors` is a conforming C99 preprocessor; units it rejects (division by zero, "
    "overflow, invalid paste, wrong argument count, missing variadic argument) are excluded",
    "#if arithmetic is intmax_t/uintmax_t = 64 bit (gcc's and ppci's host model); expressions whose C99 meaning is undefined or "
    "implementation-defined (shift count out of range, << of a negative value, >> of a negative value, signed overflow) are "
    "excluded by a reference evaluator in this file, which is cross-checked against gcc on every unit (n_ref_vs_gcc_disagree must be 0)",
    "outputs are compared as preprocessing-token sequences by vf/gen/ctok.py; white space and line structure are not compared, "
    "except inside string literals produced by #",
    "macro shapes whose result C99 leaves unspecified (#/## evaluation order; several ## in one body only where every order "
    "gives the same result) are not in the menu; trigraphs, __DATE__/__TIME__, -D/-U options and c89/c11 modes are not explored",
    "second generation units are given to gcc as one stream per batch, each unit preceded by `#line 1 \"u<k>.c\"` (ppci gets "
    "the unit under the file name u<k>.c), followed by #undef of every name of the family; a unit counts as accepted only if gcc "
    "prints no diagnostic at all for it (checked by re-running the batch without the diagnosed units); diagnostics are attributed "
    "through the presumed file names, anything not attributable is re-run by bisection",
    "__FILE__ is compared literally: both preprocessors run in the same scratch directory with the relative include path `inc`, "
    "so the main file is \"u<k>.c\", a header found through -I is \"inc/<name>\", a header found next to the main file is \"<name>\"",
    "__LINE__: when the use lies in a logical line made of several physical lines (backslash-newline) or in a macro invocation that "
    "spans several lines, C99 does not say which of these lines is `the current source line`; ppci may report any line of that span "
    "(counted in n_line_policy_differs_from_gcc), everywhere else the number must be gcc's",
    "__COUNTER__, __INCLUDE_LEVEL__, #warning and named variadic parameters (`args...`) are GNU extensions which ppci implements; "
    "their reference semantics is gcc's (families K, N, D, U; the last two with gcc run without -pedantic-errors); keys carry `gnu-ext`",
    "#pragma: gcc -E copies `#pragma ...` lines (and the result of _Pragma) to its output, ppci drops them; lines that start with "
    "#pragma are removed from both outputs and everything else is compared (so: neighbouring tokens intact, nothing else emitted, "
    "skipped pragmas skipped, _Pragma(...) removed from the token stream).  `#pragma once`: honouring it (gcc) and ignoring it "
    "(gcc's output for the same unit with the pragma line deleted) are both accepted, the latter counted in n_pragma_once_ignored",
    "#error and incompatible redefinitions: the expected outcome is a CompilerError; token output without a diagnostic or any other "
    "exception is a violation.  #warning must not stop preprocessing.  Where C99 leaves the behaviour undefined or "
    "implementation-defined (`defined` produced by macro expansion, value of '\\377') differences are only counted "
    "(n_differs_where_c99_does_not_define/<label>)",
]
CLAIM = {
    "text": "inside the bound ppci's preprocessor emits the token sequence gcc emits, for every enumerated #if expression, "
            "conditional structure and macro definition/use combination, and for every enumerated use of __LINE__/__FILE__/"
            "__COUNTER__/__INCLUDE_LEVEL__, #line, #error, #warning, #pragma, #include (with guards and nesting), lexer corner case, "
            "#undef / redefinition and macro argument shape; required diagnostics are CompilerErrors, never internal errors",
    "note": "trusted: gcc -E as the conforming preprocessor, the pp-token tokenizer vf/gen/ctok.py, the 64-bit reference evaluator "
            "(only for exclusion of undefined behaviour and for naming the locus)",
    "technique": "bounded exhaustive differential testing against gcc -E",
    "engine": "K1",
}

BATCH = 1000
CPU_LIMIT = 3          # CPU seconds for one unit in ppci (a unit normally takes < 1 ms)
RUNAWAY_BREAKER = 6    # after this many non-terminating units a worker stops exploring the macro family
MARK = "VFMARK_"
NAMES = ["A", "B", "D", "V", "f", "g", "h", "v", "s", "xs", "cat", "xcat", "p"]
UNDEFS = "".join("#undef %s\n" % n for n in NAMES)
GCC = ["gcc", "-E", "-P", "-x", "c", "-std=c99", "-pedantic-errors", "-fno-diagnostics-show-caret", "-"]
M64 = (1 << 64) - 1
IMAX = (1 << 63) - 1
IMIN = -(1 << 63)

# ------------------------------------------------------------------ #if expression trees

# leaf = ("n", text, value, unsigned)
LEAVES = [
    ("n", "0", 0, False), ("n", "1", 1, False), ("n", "2", 2, False), ("n", "3", 3, False), ("n", "7", 7, False),
    ("n", "(-1)", -1, False), ("n", "(-7)", -7, False), ("n", "0u", 0, True), ("n", "1u", 1, True),
    ("n", "0xFFFFFFFFFFFFFFFFu", M64, True), ("n", "0x7FFFFFFFFFFFFFFF", IMAX, False), ("n", "'a'", 97, False),
    ("n", "defined(D)", 1, False), ("n", "defined U", 0, False), ("n", "U", 0, False),
]
LEAF = {l[1]: l for l in LEAVES}
BINOPS = ["*", "/", "%", "+", "-", "<<", ">>", "<", ">", "<=", ">=", "==", "!=", "&", "^", "|", "&&", "||"]
UNOPS = ["!", "~", "-", "+"]
PREC = {"*": 11, "/": 11, "%": 11, "+": 10, "-": 10, "<<": 9, ">>": 9, "<": 8, ">": 8, "<=": 8, ">=": 8,
        "==": 7, "!=": 7, "&": 6, "^": 5, "|": 4, "&&": 3, "||": 2}
CMP = {"<", ">", "<=", ">=", "==", "!="}

# reduced leaf sets for depth 2; the first entries are the ones that make / % and unsigned conversion observable
S_ORDER = ["(-7)", "2", "1u", "0xFFFFFFFFFFFFFFFFu", "(-1)", "0", "3", "0x7FFFFFFFFFFFFFFF", "7", "0u", "1", "'a'"]


def render(t, top=True):
    k = t[0]
    if k == "n":
        return t[1]
    if k == "u":
        s = "%s%s" % (t[1], render(t[2], False))
        # "- -x" / "+ +x" must not glue into -- / ++
        if t[2][0] == "u" and t[2][1] == t[1] and t[1] in "+-":
            s = "%s %s" % (t[1], render(t[2], False))
    elif k == "b":
        s = "%s %s %s" % (render(t[2], False), t[1], render(t[3], False))
    else:
        s = "%s ? %s : %s" % (render(t[1], False), render(t[2], False), render(t[3], False))
    return s if top else "(" + s + ")"


def rootop(t):
    k = t[0]
    return "leaf" if k == "n" else "unary" + t[1] if k == "u" else t[1] if k == "b" else "?:"


def is_unsigned(t):
    """Static C type (signed intmax_t / unsigned uintmax_t) of a #if sub-expression."""
    k = t[0]
    if k == "n":
        return t[3]
    if k == "u":
        return False if t[1] == "!" else is_unsigned(t[2])
    if k == "b":
        op = t[1]
        if op in CMP or op in ("&&", "||"):
            return False
        if op in ("<<", ">>"):
            return is_unsigned(t[2])
        return is_unsigned(t[2]) or is_unsigned(t[3])
    return is_unsigned(t[2]) or is_unsigned(t[3])


class Undefined(Exception):
    """The expression has no C99-defined value (or an implementation-defined one)."""


def ref_eval(t, ev):
    """Value of t under C99 6.10.1/6.6 rules with 64-bit intmax_t; appends locus events to ev."""
    k = t[0]
    if k == "n":
        return t[2]
    if k == "u":
        v = ref_eval(t[2], ev)
        u = is_unsigned(t[2])
        op = t[1]
        if op == "!":
            return int(v == 0)
        if op == "+":
            return v
        if op == "-":
            if u:
                if v:
                    ev.append("unsigned-wrap")
                return (-v) & M64
            if v == IMIN:
                raise Undefined("overflow")
            return -v
        if u:
            ev.append("unsigned-wrap")
            return (~v) & M64
        return ~v
    if k == "t":
        c = ref_eval(t[1], ev)
        br = t[2] if c else t[3]
        v = ref_eval(br, ev)
        if is_unsigned(t) and not is_unsigned(br) and v < 0:
            ev.append("unsigned-convert")
            v &= M64
        return v
    op = t[1]
    if op == "&&":
        a = ref_eval(t[2], ev)
        return int(bool(a) and bool(ref_eval(t[3], ev)))
    if op == "||":
        a = ref_eval(t[2], ev)
        return int(bool(a) or bool(ref_eval(t[3], ev)))
    a = ref_eval(t[2], ev)
    b = ref_eval(t[3], ev)
    ua, ub = is_unsigned(t[2]), is_unsigned(t[3])
    if op in ("<<", ">>"):
        if (not ub and b < 0) or b >= 64:
            raise Undefined("shift count")
        if op == "<<":
            if ua:
                r = a << b
                if r > M64:
                    ev.append("unsigned-wrap")
                return r & M64
            if a < 0:
                raise Undefined("<< of negative")
            r = a << b
            if r > IMAX:
                raise Undefined("overflow")
            return r
        if not ua and a < 0:
            raise Undefined(">> of negative is implementation-defined")
        return a >> b
    u = ua or ub
    if u:
        if (not ua and a < 0) or (not ub and b < 0):
            ev.append("unsigned-compare" if op in CMP else "unsigned-convert")
        a &= M64
        b &= M64
    if op in CMP:
        return int({"<": a < b, ">": a > b, "<=": a <= b, ">=": a >= b, "==": a == b, "!=": a != b}[op])
    if op in ("/", "%"):
        if b == 0:
            raise Undefined("division by zero")
        if u:
            return a // b if op == "/" else a % b
        q = abs(a) // abs(b)
        if (a < 0) != (b < 0):
            q = -q
        r = a - q * b
        if q > IMAX:
            raise Undefined("overflow")
        if op == "/":
            if q != a // b:
                ev.append("div-negative")
            return q
        if r != a % b:
            ev.append("mod-negative")
        return r
    r = {"*": a * b, "+": a + b, "-": a - b, "&": a & b, "^": a ^ b, "|": a | b}[op]
    if u:
        if r < 0 or r > M64:
            ev.append("unsigned-wrap")
        return r & M64
    if r < IMIN or r > IMAX:
        raise Undefined("overflow")
    return r


def depth1(leaves, ternary=True):
    out = []
    for op in UNOPS:
        for a in leaves:
            out.append(("u", op, a))
    for op in BINOPS:
        for a in leaves:
            for b in leaves:
                out.append(("b", op, a, b))
    if ternary:
        for a in leaves:
            for b in leaves:
                for c in leaves:
                    out.append(("t", a, b, c))
    return out


def if_unit(tree):
    e = render(tree)
    src = "#if %s\nYES\n#else\nNO\n#endif\n" % e
    if "defined(D)" in e:
        src = "#define D 1\n" + src
    return src


class Family:
    """An indexable, lazily decoded list of units.  get(i) -> (src, info)."""

    def __init__(self, name, n, get, kind=1):
        self.name, self.n, self.get, self.kind = name, n, get, kind


def fam_trees(name, trees):
    def get(i):
        return if_unit(trees[i]), ("I", trees[i])
    return Family(name, len(trees), get)


def fam_one_deep(name, d1, leaves):
    """Depth-2 trees with exactly one depth-1 child: unary(d), d op l, l op d, and ?: with d in each position."""
    nl, nd = len(leaves), len(d1)
    n_un = len(UNOPS) * nd
    n_bin = len(BINOPS) * 2 * nd * nl
    n_ter = 3 * nd * nl * nl

    def get(i):
        if i < n_un:
            o, d = divmod(i, nd)
            t = ("u", UNOPS[o], d1[d])
        elif i < n_un + n_bin:
            i -= n_un
            i, l = divmod(i, nl)
            i, d = divmod(i, nd)
            o, side = divmod(i, 2)
            t = ("b", BINOPS[o], d1[d], leaves[l]) if side == 0 else ("b", BINOPS[o], leaves[l], d1[d])
        else:
            i -= n_un + n_bin
            i, l2 = divmod(i, nl)
            i, l1 = divmod(i, nl)
            pos, d = divmod(i, nd)
            kids = [leaves[l1], leaves[l2]]
            kids.insert(pos, d1[d])
            t = ("t",) + tuple(kids)
        return if_unit(t), ("I", t)
    return Family(name, n_un + n_bin + n_ter, get)


def fam_two_deep(name, d1):
    nd = len(d1)

    def get(i):
        i, b = divmod(i, nd)
        o, a = divmod(i, nd)
        t = ("b", BINOPS[o], d1[a], d1[b])
        return if_unit(t), ("I", t)
    return Family(name, len(BINOPS) * nd * nd, get)


def fam_prec(name, operands):
    """a op1 b op2 c / unary a op b / a ? b : c ? d : e  -- written without parentheses; the reference tree
    is built from the C grammar's precedence table (all binary operators are left-associative, ?: is right-associative)."""
    leaves = [LEAF[x] for x in operands]
    units = []
    for o1 in BINOPS:
        for o2 in BINOPS:
            for a in leaves:
                for b in leaves:
                    for c in leaves:
                        if PREC[o2] > PREC[o1]:
                            t = ("b", o1, a, ("b", o2, b, c))
                        else:
                            t = ("b", o2, ("b", o1, a, b), c)
                        units.append(("%s %s %s %s %s" % (a[1], o1, b[1], o2, c[1]), t, "%s,%s" % (o1, o2)))
    for u in UNOPS:
        for o in BINOPS:
            for a in leaves:
                for b in leaves:
                    t = ("b", o, ("u", u, a), b)
                    units.append(("%s %s %s %s" % (u, a[1], o, b[1]), t, "unary%s,%s" % (u, o)))
    for a in leaves:
        for b in leaves:
            for c in leaves:
                for d in leaves:
                    for o in ("+", "<", "||"):
                        # ?: binds weaker than every binary operator, and groups right to left
                        t = ("t", ("b", o, a, b), c, ("t", d, a, b))
                        units.append(("%s %s %s ? %s : %s ? %s : %s" % (a[1], o, b[1], c[1], d[1], a[1], b[1]), t, "?:," + o))
                        t = ("t", a, ("t", b, c, d), ("b", o, a, b))
                        units.append(("%s ? %s ? %s : %s : %s %s %s" % (a[1], b[1], c[1], d[1], a[1], o, b[1]), t, "?:?:," + o))

    def get(i):
        e, t, label = units[i]
        return "#if %s\nYES\n#else\nNO\n#endif\n" % e, ("P", t, label)
    return Family(name, len(units), get)


# ------------------------------------------------------------------ conditional structure

IF_FORMS = [("#if 1", 1), ("#if 0", 0), ("#ifdef D", 1), ("#ifdef U", 0), ("#ifndef U", 1), ("#ifndef D", 0)]
ELIF_FORMS = [("#elif 1", 1), ("#elif 0", 0), ("#elif defined D", 1), ("#elif defined(U)", 0)]
NESTED = [
    ["#if 1", "N1", "#endif"], ["#if 0", "N1", "#endif"], ["#ifdef U", "N1", "#endif"], ["#ifndef U", "N1", "#endif"],
    ["#if 1", "N1", "#else", "N2", "#endif"], ["#if 0", "N1", "#else", "N2", "#endif"],
    ["#ifdef U", "N1", "#else", "N2", "#endif"],
    ["#if 0", "N1", "#elif 1", "N2", "#else", "N3", "#endif"], ["#if 1", "N1", "#elif 1", "N2", "#else", "N3", "#endif"],
    ["#if 0", "N1", "#elif 0", "N2", "#else", "N3", "#endif"],
    ["#if 0", "#define V 9", "#else", "#if 1", "N2", "#else", "N3", "#endif", "#endif"],
    ["#if 1", "#if 0", "N1", "#elif 1", "N2", "#endif", "#else", "N3", "#endif"],
]


def cond_units():
    units = []

    def build(opening, elifs, has_else, nest_at=None, nested=None):
        lines = ["#define D 1"]
        heads = [opening] + list(elifs) + (["#else"] if has_else else [])
        for k, h in enumerate(heads):
            lines.append(h)
            lines.append("T%d" % k)
            lines.append("#undef V")
            lines.append("#define V %d" % k)
            if nest_at == k:
                lines.extend(nested)
                lines.append("R%d" % k)
        lines.append("#endif")
        lines.append("V E")
        return "\n".join(lines) + "\n"

    for ne in range(3):
        for has_else in (False, True):
            for op, _ in IF_FORMS:
                for el in itertools.product(ELIF_FORMS, repeat=ne):
                    feat = "elif" if ne else "else" if has_else else "if"
                    units.append((build(op, [e[0] for e in el], has_else), feat))
    for ne in range(3):
        for has_else in (False, True):
            for op in ("#if 1", "#if 0"):
                for el in itertools.product(ELIF_FORMS[:2], repeat=ne):
                    nb = 1 + ne + (1 if has_else else 0)
                    for at in range(nb):
                        for nested in NESTED:
                            units.append((build(op, [e[0] for e in el], has_else, at, nested), "nested"))

    def get(i):
        return units[i][0], ("C", units[i][1])
    return Family("C", len(units), get)


# ------------------------------------------------------------------ macro definitions and uses

# (shape id, macro name, definition line).  Two shapes with the same name never occur in one unit.
DEFS = [
    ("obj", "A", "#define A 1"),
    ("obj-self", "A", "#define A (A + 1)"),
    ("obj-toB", "A", "#define A B"),
    ("obj-call", "A", "#define A f(2)"),
    ("obj-neg", "A", "#define A -1"),
    ("obj-empty", "A", "#define A"),
    ("obj-continued", "A", "#define A 1 \\\n + 2"),
    ("objB-toA", "B", "#define B A"),
    ("objB-fn", "B", "#define B f"),
    ("objB-comma", "B", "#define B 3 , A"),
    ("f1", "f", "#define f(x) (x + 1)"),
    ("f1-self", "f", "#define f(x) f(x + 1)"),
    ("f1-tog", "f", "#define f(x) g(x, 2)"),
    ("f1-unused", "f", "#define f(x) 5"),
    ("f1-twice", "f", "#define f(x) x x"),
    ("g2", "g", "#define g(x, y) y - x"),
    ("g2-tof", "g", "#define g(x, y) f(x) * y"),
    ("h0", "h", "#define h() 7"),
    ("h0-fn", "h", "#define h() f"),
    ("va", "v", "#define v(...) [ __VA_ARGS__ ]"),
    ("va1", "v", "#define v(x, ...) x { __VA_ARGS__ }"),
    ("va-str", "v", "#define v(...) #__VA_ARGS__"),
    ("str", "s", "#define s(x) #x"),
    ("str-both", "s", "#define s(x) #x + x"),
    ("xstr", "xs", "#define xs(x) s(x)"),
    ("cat", "cat", "#define cat(x, y) x ## y"),
    ("xcat", "xcat", "#define xcat(x, y) cat(x, y)"),
    ("paste-id", "p", "#define p(x) A ## x"),
    ("paste-num", "p", "#define p(x) x ## 1"),
]
# (label, text)
USES = [
    ("A", "A"), ("B", "B"), ("f", "f"), ("h", "h"), ("paren1", "(1)"), ("parenA", "(A)"), ("-A", "-A"),
    ("f(1)", "f(1)"), ("f(A)", "f(A)"), ("f(B)", "f(B)"), ("f(f(1))", "f(f(1))"), ("f((1))", "f((1))"), ("f()", "f()"),
    ("f-nl-(", "f\n(4)"), ("(f)(1)", "(f)(1)"), ("B(3)", "B(3)"), ("f(B)(3)", "f(B)(3)"),
    ("h()", "h()"), ("h( )", "h( )"), ("h()(3)", "h()(3)"),
    ("g(1,2)", "g(1, 2)"), ("g(A,B)", "g(A, B)"), ("g(paren-comma)", "g((1, 2), [3, 4])"), ("g(f(1),h())", "g(f(1), h())"),
    ("g(,)", "g(, )"), ("g(1,)", "g(1, )"), ("g(f)(9)", "g(2, f)(9)"),
    ("v()", "v()"), ("v(1)", "v(1)"), ("v(1,2,3)", "v(1, 2, 3)"), ("v(A,f(1))", "v(A, f(1))"), ("v(,)", "v( , )"),
    ("s(A)", "s(A)"), ("s(spaces)", "s(  a  +   \"b\\n\" 'c'  )"), ("s()", "s()"), ("s(esc)", "s(\"\\\\\" '\"' '\\0')"),
    ("s(s(1))", "s(s(1))"), ("s(newline)", "s(a\nb)"), ("s(comment)", "s(a/**/b)"), ("f(s(A))", "f(s(A))"), ("xs(A)", "xs(A)"), ("xs(f(1))", "xs(f(1))"),
    ("cat(A,B)", "cat(A, B)"), ("cat(1,2)", "cat(1, 2)"), ("cat(x,1)", "cat(x, 1)"), ("cat(2,u)", "cat(2, u)"),
    ("cat(1,x)", "cat(1, x)"), ("cat(,A)", "cat(, A)"), ("cat(A,)", "cat(A, )"), ("cat(,)", "cat(, )"),
    ("cat(<,=)", "cat(<, =)"), ("xcat(A,B)", "xcat(A, B)"), ("xcat(1,f(2))", "xcat(x, f(2))"),
    ("p(B)", "p(B)"), ("p(1)", "p(1)"), ("p()", "p()"),
]
_ID = re.compile(r"[A-Za-z_]\w*")
DEF_BODY_NAMES = []
for _sid, _name, _text in DEFS:
    _body = _text[len("#define ") + len(_name):]
    if _body.startswith("("):
        _body = _body[_body.index(")") + 1:]
    DEF_BODY_NAMES.append(set(_ID.findall(_body)) & set(NAMES))
USE_NAMES = [set(_ID.findall(u[1])) & set(NAMES) for u in USES]


def macro_units(max_defs, max_uses, pair_limit=None):
    """All (defs, uses) index tuples inside the bound, simplest first; relevance filter:
    every use mentions a defined macro and every definition is mentioned by a use or by another chosen body."""
    units = []
    by_size = []
    for nd in range(1, max_defs + 1):
        for ds in itertools.combinations(range(len(DEFS)), nd):
            names = [DEFS[d][1] for d in ds]
            if len(set(names)) != nd:
                continue
            by_size.append(ds)
    for nu in range(1, max_uses + 1):
        for ds in by_size:
            if pair_limit is not None and nu == 2 and len(ds) > pair_limit:
                continue
            defined = {DEFS[d][1] for d in ds}
            in_bodies = set()
            for d in ds:
                in_bodies |= DEF_BODY_NAMES[d]
            good = [u for u in range(len(USES)) if USE_NAMES[u] & defined or (USES[u][0].startswith("paren") and nu == 2)]
            for us in itertools.product(good, repeat=nu):
                mentioned = set(in_bodies)
                for u in us:
                    mentioned |= USE_NAMES[u]
                if not defined <= mentioned:
                    continue
                if not any(USE_NAMES[u] & defined for u in us):
                    continue
                units.append((ds, us))
    units.sort(key=lambda du: (len(du[0]) + len(du[1]), len(du[1]), du))
    return units


def macro_src(ds, us):
    return "\n".join(DEFS[d][2] for d in ds) + "\n" + " ".join(USES[u][1] for u in us) + "\n"


def fam_macro(units):
    def get(i):
        ds, us = units[i]
        return macro_src(ds, us), ("M", ds, us)
    return Family("M", len(units), get)


# ------------------------------------------------------------------ running the two preprocessors

_ERR = re.compile(r"^<stdin>:(\d+):\d+: (?:fatal )?error:", re.M)


def _gcc(text):
    env = dict(os.environ, LC_ALL="C")
    r = subprocess.run(GCC, input=text, capture_output=True, text=True, env=env)
    return r.returncode, r.stdout, r.stderr


def gcc_units(srcs, counters=None):
    """[src] -> [token list or None (gcc rejects the unit)], one gcc process for all units when possible."""
    from vf.gen.ctok import tokenize, split_at_markers

    def batch(idx):
        parts, starts, line = [], [], 1
        for k in idx:
            starts.append(line)
            chunk = srcs[k] + UNDEFS + "%s%d\n" % (MARK, k)
            parts.append(chunk)
            line += chunk.count("\n")
        rc, out, err = _gcc("".join(parts))
        units, order, rest = split_at_markers(tokenize(out), MARK)
        bad = set()
        for m in _ERR.finditer(err):
            ln = int(m.group(1))
            bad.add(idx[bisect.bisect_right(starts, ln) - 1])
        return rc, units, order == list(idx) and not rest, bad

    n = len(srcs)
    res = [None] * n
    idx = list(range(n))
    rc, units, ok, bad = batch(idx)
    if rc != 0 and ok and bad:
        good = [k for k in idx if k not in bad]
        rc2, units2, ok2, bad2 = batch(good) if good else (0, {}, True, set())
        if rc2 == 0 and ok2 and all(units2[k] == units[k] for k in good):
            for k in good:
                res[k] = units2[k]
            return res
    elif rc == 0 and ok:
        for k in idx:
            res[k] = units[k]
        return res
    # structure of the batch output is not trustworthy: one process per unit
    if counters is not None:
        counters["gcc_batch_fallback"] = counters.get("gcc_batch_fallback", 0) + 1
    for k in idx:
        rc, out, err = _gcc(srcs[k])
        res[k] = tokenize(out) if rc == 0 else None
    return res


class Runaway(Exception):
    pass


def ppci_unit(src):
    """-> ("ok", token values, printed text) | ("exc", exception)"""
    from ppci.lang.c import CPreProcessor, COptions, CTokenPrinter
    from ppci.lang.c.utils import LineInfo
    from vf.core import cpu_limit, CpuTimeout
    try:
        with cpu_limit(CPU_LIMIT):
            pre = CPreProcessor(COptions())
            toks = []
            for t in pre.process_file(io.StringIO(src), "u.c"):
                if isinstance(t, LineInfo):
                    continue
                toks.append(t)
                if len(toks) > 5000:
                    raise Runaway("more than 5000 tokens produced")
            f = io.StringIO()
            CTokenPrinter().dump(toks, file=f)
    except CpuTimeout:
        return ("exc", Runaway("CPU limit of %d s exceeded" % CPU_LIMIT))
    except Exception as ex:  # noqa
        return ("exc", ex)
    return ("ok", [t.val for t in toks if t.typ not in ("WS", "BOL")], f.getvalue())


def caller_of_error(exc):
    """file:function of the innermost ppci frame that is not the generic `error` helper."""
    import traceback
    tb = traceback.extract_tb(exc.__traceback__)
    for fr in reversed(tb):
        if "/ppci/" in fr.filename and fr.name not in ("error", "consume"):
            return "%s:%s" % (os.path.basename(fr.filename), fr.name)
    return "?"


def glue_kind(got, want):
    """Class of the first token of `got` that is not in `want` at the same position."""
    for i, t in enumerate(got):
        if i >= len(want) or want[i] != t:
            if t[0].isalpha() or t[0] == "_":
                return "identifier"
            if t[0].isdigit():
                return "number"
            return "punctuator"
    return "missing"


def short(toks, n=14):
    s = " ".join(toks[:n])
    return s + (" ..." if len(toks) > n else "")


_DEFINE = re.compile(r"^#define (\w+)(\()?", re.M)


def wrong_symptom(src, vals, g):
    """Name the way ppci's token sequence differs from gcc's, from the two sequences alone."""
    if "##" in vals and "##" not in g:
        return "paste/operator-left-in-output"
    if len(vals) == len(g):
        diff = [(a, b) for a, b in zip(vals, g) if a != b]
        if all(a[:1] == '"' and b[:1] == '"' for a, b in diff):
            if all(a.replace(" ", "") == b.replace(" ", "") for a, b in diff):
                return "stringify/spacing"
            return "stringify/content"
    macros = {m.group(1): bool(m.group(2)) for m in _DEFINE.finditer(src)}
    for i in range(max(len(vals), len(g))):
        a = vals[i] if i < len(vals) else None
        b = g[i] if i < len(g) else None
        if a != b:
            if b in macros:
                return "replaces-a-name-gcc-keeps/" + ("function-like" if macros[b] else "object-like")
            if a in macros:
                return "keeps-a-name-gcc-replaces/" + ("function-like" if macros[a] else "object-like")
            break
    return "tokens"


def judge(src, g):
    """Compare ppci with the gcc tokens g.  -> None (agree) | (kind, key, what)."""
    from vf.gen.ctok import tokenize
    r = ppci_unit(src)
    one = src.replace("\n", "\\n")
    if r[0] == "exc":
        ex = r[1]
        from ppci.common import CompilerError
        if isinstance(ex, CompilerError):
            return ("rejects", "rejects/" + caller_of_error(ex),
                    "ppci rejects `%s` with CompilerError(%s); gcc -pedantic-errors accepts it and gives `%s`" % (one, ex.msg, short(g)))
        if isinstance(ex, Runaway):
            return ("runaway", "runaway", "ppci does not terminate on `%s` (%s); gcc gives `%s`" % (one, ex, short(g)))
        from vf.core import exc_key
        return ("crash", exc_key("crash", ex), "ppci raises %s(%s) on `%s`; gcc gives `%s`" % (type(ex).__name__, ex, one, short(g)))
    vals, text = r[1], r[2]
    if vals != g:
        if tokenize(" ".join(vals)) != vals:
            # a ppci token whose spelling is not one preprocessing token for our tokenizer: cannot judge
            return ("unclassified", "tokenizer", "ppci token values %r do not re-lex to themselves" % (vals,))
        return ("wrong", wrong_symptom(src, vals, g), "`%s`: ppci gives `%s`, gcc gives `%s`" % (one, short(vals), short(g)))
    printed = tokenize(text)
    if printed != g:
        return ("print", "print/glue-" + glue_kind(printed, g),
                "`%s`: the token stream is right but the text written by CTokenPrinter, `%s`, re-lexes to `%s` (gcc prints `%s`)"
                % (one, text.strip().replace("\n", "\\n"), short(printed), short(g)))
    return None


def if_key(info, kind, key):
    """Locus for a failing #if unit: the first C-rule event of the reference evaluation (truncation towards zero
    differs from flooring, a negative value is converted to unsigned, an unsigned result wraps), else the operator."""
    tree = info[1]
    ev = []
    try:
        ref_eval(tree, ev)
    except Undefined:
        pass
    if ev:
        return "if-eval/" + ev[0]
    if info[0] == "P":
        return None  # decided in the parent: operator defect (seen in family I) or grouping defect
    if kind in ("crash", "rejects", "runaway", "print"):
        return "if-eval/" + key
    return "if-eval/op/" + rootop(tree)


def parse_class(label):
    a, b = label.split(",")
    if a.startswith("?:"):
        return "conditional"
    if a.startswith("unary"):
        return "unary-operand"
    return "associativity" if PREC[a] == PREC[b] else "precedence"


_FAMS = None  # set by run() before forking; closures cannot be pickled into pool tasks


def worker(p, shard):
    from vf.gen.ctok import tokenize
    fams = _FAMS
    counters = {}
    runaways = 0
    for fi, start, stop in shard:
        fam = fams[fi]
        if fam.kind == 2:
            worker2(p, fam.name, fi, start, stop, counters)
            continue
        units = [fam.get(i) for i in range(start, stop)]
        # exclusion by the reference evaluator (undefined / implementation-defined in C99)
        refs = []
        for src, info in units:
            if info[0] in ("I", "P"):
                try:
                    refs.append(("v", ref_eval(info[1], [])))
                except Undefined as u:
                    refs.append(("undef", str(u)))
            else:
                refs.append(None)
        gs = gcc_units([u[0] for u in units], counters)
        for k, (src, info) in enumerate(units):
            order = (fi << 32) | (start + k)
            g = gs[k]
            ref = refs[k]
            fam_name = info[0]
            if g is None:
                p.count("excluded_gcc_rejects")
                if ref is not None and ref[0] == "v":
                    p.count("ref_defined_but_gcc_rejects")
                    if p.counters["ref_defined_but_gcc_rejects"] <= 3:
                        p.collect("ref_defined_but_gcc_rejects_examples", render(info[1]))
                continue
            if ref is not None:
                if ref[0] == "undef":
                    p.count("excluded_undefined_in_c99")
                    continue
                want = ["YES"] if ref[1] else ["NO"]
                if g != want:
                    # our reading of the C rules differs from gcc: never a violation, but must be looked at
                    p.count("ref_vs_gcc_disagree")
                    if p.counters["ref_vs_gcc_disagree"] <= 3:
                        p.collect("ref_vs_gcc_disagree_examples", render(info[1]))
                    continue
            if fam_name == "M" and runaways >= RUNAWAY_BREAKER:
                p.count("skipped_after_runaways")
                continue
            p.add()
            p.count("units_" + fam_name)
            v = judge(src, g)
            if v is not None and v[0] == "runaway":
                runaways += 1
            if v is not None and v[0] == "unclassified":
                p.count("unclassified_tokenizer")
                continue
            if fam_name in ("I", "P"):
                p.outcome((fam_name, rootop(info[1]), tuple(g)))
                if v is not None:
                    key = if_key(info, v[0], v[1])
                    if key is None:
                        p.collect("parse_failures", (order, info[2], v[2], src))
                    else:
                        p.violation(key, v[2], {"src": src}, order=order)
            elif fam_name == "C":
                p.outcome(("C", tuple(g)))
                if v is not None:
                    p.violation("cond/%s/%s" % (info[1], v[1]), v[2], {"src": src}, order=order)
            else:
                ds, us = info[1], info[2]
                if g != tokenize(" ".join(USES[u][1] for u in us)):
                    p.outcome(("M", tuple(DEFS[d][0] for d in ds), tuple(g)))
                if v is not None:
                    # keyed in the parent, after minimisation over sub-units
                    p.collect("macro_failures", (start + k, v[0], v[1], v[2]))
    for k, v in counters.items():
        p.count(k, v)


# ------------------------------------------------------------------ second generation families
#
# A unit of these families is a dict:
#   src     source text; "@U@" stands for the unit's file name stem (u<k>), so that `#line 5 "v@U@.c"` is attributable
#   feat    the feature (part of the key), ctx  the context ("" = simplest context of that feature)
#   parts   optional tuple of item ids (family L): a failing unit is reported only if no failing unit is a proper subsequence
#   grp/cid optional: units with the same (feat, grp) are one snippet in several contexts cid; if it fails in the simplest context
#           (cid "") the other contexts are not reported, else the key carries cid
#   expect  "tokens" | "diag" (gcc must reject it with an error and ppci must raise CompilerError) | "any" (whatever gcc says)
#   flags   "strict" (-std=c99 -pedantic-errors) | "gnu" (-std=c99, for GNU extensions)
#   tol     None | ("line", [(lo, hi), ...]) | ("undef", label) | ("alt", alternative source, counter name)
#   pragma  True: lines starting with #pragma are dropped from both outputs
#   files   {relative path: content} written into the scratch directory in addition to HEADERS

HEADERS = {
    "inc/a.h": "int a_h;\n",
    "inc/g.h": "#ifndef G_H\n#define G_H\ng_body\n#endif\n",
    "inc/gd.h": "#if !defined(GD_H)\n#define GD_H 1\ngd_body\n#endif /* GD_H */\n",
    "inc/lvl.h": "lvl __INCLUDE_LEVEL__\n",
    "inc/fl.h": "fl __FILE__ __LINE__\n",
    "inc/n1.h": "n1a\n#include \"n2.h\"\nn1b __LINE__ __FILE__\n",
    "inc/n2.h": "n2a __FILE__\n#include <a.h>\nn2b __LINE__\n",
    "inc/nl1.h": "nl1a __INCLUDE_LEVEL__\n#include \"nl2.h\"\nnl1b __INCLUDE_LEVEL__\n",
    "inc/nl2.h": "nl2a __INCLUDE_LEVEL__\n#include <lvl.h>\nnl2b __INCLUDE_LEVEL__\n",
    "inc/m.h": "#define FROM_M(x) (x + M_K)\n#define M_K 3\nm_h FROM_M(1)\n",
    "inc/cond.h": "#ifdef SEL\nsel_yes SEL\n#else\nsel_no\n#endif\n",
    "inc/self.h": "#ifndef SELF_1\n#define SELF_1\n#include \"self.h\"\nself_outer\n#elif !defined SELF_2\n#define SELF_2\n#include <self.h>\n"
                  "self_middle\n#else\nself_inner\n#endif\n",
    "inc/noeol.h": "no_eol_at_end",
    "inc/loc.h": "loc_inc __FILE__\n",
    "loc.h": "loc_cwd __FILE__\n",
    "inc/sub/s.h": "sub_s __FILE__\n#include \"t.h\"\n",
    "inc/sub/t.h": "sub_t __FILE__\n",
    "inc/x-1.h": "x_1_h\n",
    "inc/ln.h": "#line 90 \"hz.c\"\nln_h __LINE__ __FILE__\n",
    "inc/cnt.h": "cnt_h __COUNTER__\n",
    "inc/pn.h": "once_body\n",
    "inc/empty.h": "",
    "inc/open.h": "#define OPEN_H(x) [x]\nopen_h OPEN_H\n",
    "inc/nx.h": "nx_first\n#include_next <nx.h>\nnx_first_end __FILE__\n",
    "inc2/nx.h": "nx_second __FILE__\n",
    "inc2/only2.h": "only_in_second_directory\n",
}
GCC2 = {
    "strict": ["gcc", "-E", "-P", "-x", "c", "-std=c99", "-pedantic-errors", "-fno-diagnostics-show-caret", "-I", "inc", "-I", "inc2", "-"],
    "gnu": ["gcc", "-E", "-P", "-x", "c", "-std=c99", "-fno-diagnostics-show-caret", "-I", "inc", "-I", "inc2", "-"],
}
_WORKDIR = None    # scratch directory with HEADERS; set by run() / replay() before any unit is evaluated
_FAMS2 = {}        # family letter -> list of units (built before forking)


def U2(src, feat, ctx="", expect="tokens", flags="strict", tol=None, pragma=False, files=None, parts=None, grp=None, cid=""):
    return {"src": src, "feat": feat, "ctx": ctx, "expect": expect, "flags": flags, "tol": tol, "pragma": pragma,
            "files": files, "parts": parts, "grp": grp, "cid": cid}


# -- family L: __LINE__ / __FILE__

L_DEFS = {
    "ID": "#define ID(x) x", "LN": "#define LN __LINE__", "F": "#define F(x) x __LINE__", "S": "#define S(x) #x",
    "XS": "#define XS(x) S(x)", "CAT": "#define CAT(x, y) x ## y", "XCAT": "#define XCAT(x, y) CAT(x, y)",
}
L_NEEDS = {"XS": ["S", "XS"], "XCAT": ["CAT", "XCAT"]}
# (id, feature, text, macros used, ambiguous span (first, last physical line of the item, 0-based) or None)
L_ITEMS = [
    ("plain", "plain", "__LINE__", [], None),
    ("twice", "plain", "x __LINE__ __LINE__", [], None),
    ("empty-line", "plain", "", [], None),
    ("directive-line", "plain", "#undef Q", [], None),
    ("after-block-comment", "after-multi-line-comment", "/* c\n c */ __LINE__", [], None),
    ("skipped-group", "after-skipped-group", "#if 0\nx\n\n#endif", [], None),
    ("after-continuation", "line-splice", "a \\\n __LINE__", [], (0, 1)),
    ("before-continuation", "line-splice", "__LINE__ \\\n b", [], (0, 1)),
    ("splice-in-name", "line-splice", "__LI\\\nNE__", [], (0, 1)),
    ("in-arg", "in-argument", "ID(__LINE__)", ["ID"], None),
    ("in-nested-arg", "in-argument", "ID(ID(__LINE__))", ["ID"], None),
    ("via-object-macro", "via-object-macro", "LN", ["LN"], None),
    ("obj-in-arg", "in-argument", "ID(LN)", ["ID", "LN"], None),
    ("in-body", "in-function-macro-body", "F(1)", ["F"], None),
    ("define-then-use", "via-object-macro", "#define D2 __LINE__\n\nD2", [], None),
    ("stringify", "stringify", "S(__LINE__)", ["S"], None),
    ("xstringify", "in-argument", "XS(__LINE__)", ["XS"], None),
    ("paste", "paste", "CAT(L, __LINE__)", ["CAT"], None),
    ("xpaste", "in-argument", "XCAT(L, __LINE__)", ["XCAT"], None),
    ("if-expr", "#if", "#if __LINE__ == @N@\nY\n#else\nN\n#endif", [], None),
    ("multi-line-call-body", "multi-line-invocation", "F(\n2\n)", ["F"], (0, 2)),
    ("multi-line-call-arg", "in-argument", "ID(\n__LINE__\n)", ["ID"], (0, 2)),
    ("multi-line-call-name-alone", "multi-line-invocation", "F\n(3)", ["F"], (0, 1)),
    ("multi-line-call-then-same-line", "multi-line-invocation", "ID(\n1\n) __LINE__", ["ID"], (0, 2)),
    ("file", "__FILE__", "__FILE__", [], None),
    ("file-in-arg", "__FILE__/in-argument", "ID(__FILE__)", ["ID"], None),
    ("file-xstringify", "__FILE__/in-argument", "XS(__FILE__)", ["XS"], None),
]


def line_unit(seq):
    used = []
    for i in seq:
        for m in L_ITEMS[i][3]:
            for d in L_NEEDS.get(m, [m]):
                if d not in used:
                    used.append(d)
    lines = [L_DEFS[d] for d in L_DEFS if d in used]
    spans = []
    for i in seq:
        _id, _feat, text, _m, span = L_ITEMS[i]
        first = len(lines) + 1
        text = text.replace("@N@", str(first))
        if span:
            spans.append((first + span[0], first + span[1]))
        lines.extend(text.split("\n"))
    lines.append("E __LINE__")
    feats = []
    for i in seq:
        if L_ITEMS[i][1] not in feats:
            feats.append(L_ITEMS[i][1])
    if len(feats) > 1 and "plain" in feats:
        feats.remove("plain")
    return U2("\n".join(lines) + "\n", "+".join(feats), tol=("line", spans) if spans else None, parts=tuple(seq))


def fam_line(maxlen):
    units = []
    n = len(L_ITEMS)
    for ln in range(1, maxlen + 1):
        for seq in itertools.product(range(n), repeat=ln):
            units.append(line_unit(seq))
    return units


# -- family K: __COUNTER__ (GNU extension)

K_PRE = "#define ID(x) x\n#define TW(x) x x\n#define S(x) #x\n#define XS(x) S(x)\n#define CAT(x, y) x ## y\n#define XCAT(x, y) CAT(x, y)\n" \
        "#define U0(x) 0\n"


def fam_counter():
    rows = [
        ("plain", "__COUNTER__ __COUNTER__ __COUNTER__"),
        ("in-argument", "ID(__COUNTER__) __COUNTER__"),
        ("argument-used-twice", "TW(__COUNTER__) __COUNTER__"),
        ("argument-unused", "U0(__COUNTER__) __COUNTER__"),
        ("stringify", "S(__COUNTER__) XS(__COUNTER__) __COUNTER__"),
        ("paste", "XCAT(a, __COUNTER__) XCAT(a, __COUNTER__) CAT(a, __COUNTER__) __COUNTER__"),
        ("via-object-macro", "#define C __COUNTER__\nC C __COUNTER__"),
        ("skipped-group", "#if 0\n__COUNTER__\n#endif\n__COUNTER__"),
        ("#if", "#if __COUNTER__ >= 0\nY\n#endif\n__COUNTER__"),
        ("#ifdef", "#ifdef __COUNTER__\nY\n#endif\n#if defined(__COUNTER__) && defined __COUNTER__\nZ\n#endif\n__COUNTER__"),
        ("in-header", "__COUNTER__\n#include <cnt.h>\n__COUNTER__"),
        ("multi-line-call", "ID(__COUNTER__\n+\n__COUNTER__) __COUNTER__"),
    ]
    units = [U2(K_PRE + t + "\n", "gnu-ext/__COUNTER__/" + f) for f, t in rows]
    # isolated as well: gcc keeps such a definition although it rejects it, which would leak into the rest of a batch
    for pid, text in [("__LINE__", "#define __LINE__ 3\n[__LINE__]"), ("__FILE__", "#define __FILE__ \"x\"\n[__FILE__]"),
                      ("__STDC__", "#define __STDC__ 2\n[__STDC__]"), ("__STDC_VERSION__", "#define __STDC_VERSION__ 1L\n[__STDC_VERSION__]"),
                      ("__COUNTER__", "#define __COUNTER__ 7\n[__COUNTER__]")]:
        units.append(U2(text + "\n", "redefine/predefined-macro", ctx="`%s`" % pid, expect="diag", tol=("undef", "predefined-macro-as-subject-of-#define")))
    return units


# -- family D: #line, #error, #warning, #pragma, _Pragma, null directive

GROUPS = [  # (context id, taken?, lines before, lines after)
    ("top-level", True, [], []),
    ("in-if-1", True, ["#if 1"], ["#endif"]),
    ("in-else-of-if-0", True, ["#if 0", "#else"], ["#endif"]),
    ("in-elif-1", True, ["#if 0", "#elif 1"], ["#endif"]),
    ("in-if-0", False, ["#if 0"], ["#endif"]),
    ("in-ifdef-undefined", False, ["#ifdef U"], ["#endif"]),
    ("in-ifndef-defined", False, ["#define D 1", "#ifndef D"], ["#endif"]),
    ("in-else-of-if-1", False, ["#if 1", "#else"], ["#endif"]),
    ("in-elif-after-taken-if", False, ["#if 1", "#elif 1"], ["#endif"]),
    ("in-else-after-taken-elif", False, ["#if 0", "#elif 1", "#else"], ["#endif"]),
    ("nested-in-skipped-group", False, ["#if 0", "#if 1"], ["#endif", "#endif"]),
]


def in_group(g, body):
    return "\n".join(["a"] + g[2] + body + g[3] + ["z __LINE__"]) + "\n"


def fam_directives():
    units = []
    # #line
    forms = [
        ("number", "#line {n}", False), ("number-and-file", "#line {n} \"v@U@.c\"", True),
        ("number-from-macro", "#define LNO {n}\n#line LNO", False), ("file-from-macro", "#define FN \"v@U@.c\"\n#line {n} FN", True),
        ("both-from-one-macro", "#define LF {n} \"v@U@.c\"\n#line LF", True), ("space-after-hash", "# line {n}", False),
        ("trailing-comment", "#line {n} // c", False), ("trailing-block-comment", "#line {n} \"v@U@.c\" /* c */", True),
    ]
    followers = [("same-and-next-line", "__LINE__ __FILE__\n__LINE__"), ("after-empty-lines", "\n\n__LINE__ __FILE__"),
                 ("after-include", "x __LINE__\n#include <a.h>\n__LINE__ __FILE__")]
    for fid, form, _named in forms:
        for n in ("1", "7", "100", "010", "2147483000"):
            for wid, fol in followers:
                src = "first __LINE__\n" + form.replace("{n}", n) + "\n" + fol + "\n"
                simplest = fid == "number" and n == "7" and wid == "same-and-next-line"
                units.append(U2(src, "#line", ctx="" if simplest else "%s/`n=%s, %s`" % (fid, n, wid)))
    for g in GROUPS[1:]:
        units.append(U2(in_group(g, ["#line 50 \"v@U@.c\"", "b __LINE__ __FILE__"]), "#line", ctx="in-group/`%s`" % g[0]))
    units.append(U2("#include <ln.h>\nafter __LINE__ __FILE__\n", "#line", ctx="in-header"))
    units.append(U2("#line 20\n#include <ln.h>\nafter __LINE__ __FILE__\n", "#line", ctx="in-header/`after #line in the includer`"))
    # #error / #warning
    msgs = [("word", "stop here"), ("empty", ""), ("tokens", "\"quoted\" 1 + 2 (x"), ("comment", "stop // c")]
    for d, flags in (("error", "strict"), ("warning", "gnu")):
        for g in GROUPS:
            for mid, msg in msgs:
                body = ["#%s %s" % (d, msg) if msg else "#" + d, "b"]
                taken = g[1]
                expect = "diag" if (taken and d == "error") else "tokens"
                feat = "#%s/%s" % (d, "taken" if taken else "skipped")
                if d == "warning":
                    feat = "gnu-ext/" + feat
                ctx = "" if (mid == "word" and g[0] in ("top-level", "in-if-0")) else "%s/%s" % (g[0], mid)
                units.append(U2(in_group(g, body), feat, ctx=ctx, expect=expect, flags=flags))
    # #pragma, _Pragma
    bodies = [("name", "#pragma foo"), ("empty", "#pragma"), ("stdc", "#pragma STDC FP_CONTRACT ON"),
              ("macro-names", "#define A 1\n#define B(x) x\n#pragma bar A B(1) B"), ("comment", "#pragma foo // c"),
              ("continued", "#pragma foo \\\n bar"), ("space-after-hash", "#  pragma  foo"), ("unbalanced", "#pragma foo(")]
    for g in GROUPS:
        for bid, body in bodies:
            ctx = "" if (bid == "name" and g[0] in ("top-level", "in-if-0")) else "%s/%s" % (g[0], bid)
            units.append(U2(in_group(g, body.split("\n") + ["b"]), "#pragma/" + ("taken" if g[1] else "skipped"), ctx=ctx, pragma=True))
    ops = [("plain", "_Pragma(\"foo\") x"), ("between-tokens", "x _Pragma(\"foo\") y"), ("escapes", "_Pragma(\"foo \\\"s\\\" \\\\ bar\") x"),
           ("from-macro", "#define P(x) _Pragma(#x)\nP(foo bar) y"), ("object-macro", "#define PO _Pragma(\"foo\")\nPO y PO"),
           ("as-argument", "#define ID(x) x\nID(_Pragma(\"foo\") q)"), ("wide-string", "_Pragma(L\"foo\") x")]
    for oid, op in ops:
        units.append(U2("a\n" + op + "\nz __LINE__\n", "_Pragma", ctx="" if oid == "plain" else oid, pragma=True))
    units.append(U2(in_group(GROUPS[4], ["_Pragma(\"foo\") x"]), "_Pragma", ctx="in-if-0", pragma=True))
    # null directive and unknown directives in skipped groups
    for nid, text in [("bare", "#"), ("spaces", "#   "), ("comment", "# /* c */"), ("line-comment", "# // c")]:
        for g in (GROUPS[0], GROUPS[1], GROUPS[4]):
            units.append(U2(in_group(g, [text, "b"]), "null-directive", ctx="" if (nid == "bare" and g[0] == "top-level") else "%s/%s" % (g[0], nid)))
    for uid, text in [("unknown-directive", "#frobnicate 1 2"), ("non-directive-number", "# 12 x"), ("bad-if-expression", "#if 1 +\nx\n#endif"),
                      ("bad-elif-in-nested", "#if 0\n#elif (\n#endif"), ("define-without-name", "#define"), ("include-nothing", "#include")]:
        for g in (GROUPS[4], GROUPS[7]):
            units.append(U2(in_group(g, text.split("\n") + ["b"]), "skipped-group/" + uid, ctx="" if g is GROUPS[4] else g[0]))
    return units


# -- family N: #include

INC_FORMS = [
    ("quote", ['#include "{h}"']), ("angle", ["#include <{h}>"]),
    ("macro-to-quote", ['#define H "{h}"', "#include H"]), ("macro-to-angle", ["#define H <{h}>", "#include H"]),
    ("function-macro-to-angle", ["#define HX(x) <x>", "#include HX({h})"]),
    ("stringified-operand", ["#define HS(x) #x", "#include HS({h})"]),
    ("space-after-hash", ["#  include  <{h}>"]), ("trailing-line-comment", ["#include <{h}> // c"]),
    ("trailing-block-comment", ['#include "{h}" /* c */']), ("absolute-path", ['#include "@D@/inc/{h}"']),
]
# (id, feature, header name, lines before)
INC_HEADERS = [
    ("plain", "plain-header", "a.h", []), ("guard-ifndef", "include-guard", "g.h", []), ("guard-if-not-defined", "include-guard", "gd.h", []),
    ("file-line", "__FILE__-and-__LINE__-in-header", "fl.h", []), ("nested", "nested-include", "n1.h", []),
    ("level", "gnu-ext/__INCLUDE_LEVEL__", "lvl.h", []), ("nested-level", "gnu-ext/__INCLUDE_LEVEL__", "nl1.h", []),
    ("defines-macros", "macros-from-header", "m.h", []), ("cond-undefined", "conditional-in-header", "cond.h", []),
    ("cond-defined", "conditional-in-header", "cond.h", ["#define SEL 5"]), ("recursive", "recursive-include", "self.h", []),
    ("no-newline-at-eof", "header-without-final-newline", "noeol.h", []), ("quote-vs-angle", "lookup-order", "loc.h", []),
    ("subdirectory", "header-in-subdirectory", "sub/s.h", []), ("odd-name", "header-name-with-minus-and-digit", "x-1.h", []),
    ("line-directive", "#line-in-header", "ln.h", []), ("pragma-once", "pragma-once", "po@U@.h", []), ("empty", "empty-header", "empty.h", []),
    ("open-macro-name", "function-like-name-at-end-of-header", "open.h", []),
]
INC_TAIL = "after __LINE__ __FILE__"


def inc_unit(incs, feat, ctx, parts=None):
    """incs: [(form index, header index)]; `between __LINE__` separates two includes"""
    lines, alt, files = [], [], {}
    for k, (fi, hi) in enumerate(incs):
        _id, _f, h, pre = INC_HEADERS[hi]
        if k:
            lines.append("between __LINE__")
            alt.append("between __LINE__")
        for l in pre + INC_FORMS[fi][1]:
            lines.append(l.replace("{h}", h))
            alt.append(l.replace("{h}", "pn.h" if h.startswith("po") else h))
        if h.startswith("po"):
            # gcc identifies #pragma once files by size, time stamp and content: make every copy different
            files["inc/" + h] = "#pragma once\n/* @U@ */\n" + HEADERS["inc/pn.h"]
    src = "\n".join(["top"] + lines + [INC_TAIL]) + "\n"
    tol = None
    if files:
        tol = ("alt", "\n".join(["top"] + alt + [INC_TAIL]) + "\n", "pragma_once_ignored")
    return U2(src, feat, ctx=ctx, tol=tol, files=files or None, parts=parts)


def inc_feat(hd):
    return hd[1] if hd[1].startswith("gnu-ext/") else "include/" + hd[1]


def fam_include():
    """Singles in quote / angle form are keyed by the header's feature, singles in the other 7 operand forms by the form; a pair is
    reported only if neither of its headers fails alone (parts = header indices)."""
    units = [U2("a __INCLUDE_LEVEL__\n", "gnu-ext/__INCLUDE_LEVEL__"),
             U2("#define ID(x) x\nID(__INCLUDE_LEVEL__)\n", "gnu-ext/__INCLUDE_LEVEL__", ctx="in-argument")]
    for hi, hd in enumerate(INC_HEADERS):
        for fi, fm in enumerate(INC_FORMS):
            if fi < 2:
                gnu = hd[1].startswith("gnu-ext/")
                units.append(inc_unit([(fi, hi)], inc_feat(hd), hd[0] + "/" + fm[0] if gnu else "" if fi == 1 else "quote-form", parts=(hi,)))
            else:
                units.append(inc_unit([(fi, hi)], "include/operand/" + fm[0], "" if hi == 0 else hd[0], parts=(hi, -fi)))
    for h1, d1 in enumerate(INC_HEADERS):
        for h2, d2 in enumerate(INC_HEADERS):
            for fi in (0, 1):
                feat = "include/twice/" + d1[1] if d1[2] == d2[2] else "include/%s-then-%s" % (d1[1], d2[1])
                units.append(inc_unit([(fi, h1), (1 - fi if h1 != h2 else fi, h2)], feat.replace("gnu-ext/", ""), "" if fi == 1 else "quote-form",
                                      parts=(h1, h2)))
    units.append(U2("#include <open.h>\n(1) x\n", "include/function-like-name-at-end-of-header", ctx="arguments-in-includer"))
    units.append(U2("top\n#include <only2.h>\n#include \"only2.h\"\nafter\n", "include/second-include-directory"))
    units.append(U2("top\n#include <nx.h>\nafter __LINE__\n", "gnu-ext/#include_next", flags="gnu"))
    units.append(U2("top\n#include \"nx.h\"\nbetween\n#include <nx.h>\nafter __LINE__\n", "gnu-ext/#include_next", ctx="twice", flags="gnu"))
    return units


# -- family X: lexer

def lex_contexts(text, multi):
    """(context id, source) for one snippet; multi: 0 one line, 1 several lines (no macro-body context), 2 contains a directive
    (top level and skipped group only); a snippet that ends in a line comment gets the closing parenthesis on the next line"""
    out = [("", "a\n%s\nz\n" % text)]
    out.append(("in-skipped-group", "a\n#if 0\n%s\n#endif\nz\n" % text))
    if multi == 2:
        return out
    if not multi:
        out.append(("in-macro-body", "#define A %s\n[A] z\n" % text))
    close = "\n)" if "//" in text.replace('"//"', "") else ")"
    out.append(("in-argument", "#define f(x) <x>\nf(%s%s z\n" % (text, close)))
    out.append(("in-stringified-argument", "#define s(x) #x\ns(%s%s z\n" % (text, close)))
    return out


LEX_SNIPPETS = [
    # comments
    ("line-comment", "b // c", 0), ("line-comment", "b // c /* d", 0), ("line-comment", "b //", 0), ("line-comment", "b //c\\\n d\n e", 1),
    ("line-comment", "b // c '\" `", 0),
    ("block-comment", "b /* c */ d", 0), ("block-comment", "b /* // */ d", 0), ("block-comment", "b /* c\n d */ e", 1), ("block-comment", "b /***/ d /*/ e */ g", 0),
    ("block-comment", "b /* ' \" ` */ d", 0),
    ("comment-chars-in-literal", "\"//\" b", 0), ("comment-chars-in-literal", "\"/*\" b \"*/\"", 0), ("comment-chars-in-literal", "'/' '*' b", 0),
    ("hash-in-literal", "'#' \"#\" \"##\" b", 0), ("quote-in-literal", "'\"' \"'\" b", 0), ("quote-in-literal", "\"\\\"\" '\\'' b", 0),
    ("backslash-in-literal", "\"a\\\\\" // c", 0), ("backslash-in-literal", "'\\\\' \"\\\\\\\\\" b", 0),
    # pp-numbers
    ("pp-number/decimal-float", "1.5", 0), ("pp-number/decimal-float", "0.5", 0), ("pp-number/decimal-float", "0.", 0), ("pp-number/decimal-float", ".5", 0), ("pp-number/decimal-float", "1.", 0), ("pp-number/decimal-float", "1.5e+3", 0),
    ("pp-number/decimal-float", "1e-3", 0), ("pp-number/decimal-float", "1E+3", 0), ("pp-number/decimal-float", "1e3", 0), ("pp-number/decimal-float", ".5e-1", 0),
    ("pp-number/float-suffix", "1.5f", 0), ("pp-number/float-suffix", "1.5L", 0), ("pp-number/float-suffix", "1e+3F", 0), ("pp-number/float-suffix", "1.f", 0),
    ("pp-number/hex-float", "0x1p-2", 0), ("pp-number/hex-float", "0x1.8p+1", 0), ("pp-number/hex-float", "0x.8p1", 0), ("pp-number/hex-float", "0X1P+2f", 0),
    ("pp-number/grammar", "1e+x", 0), ("pp-number/grammar", "1.e+x", 0), ("pp-number/grammar", "#define x 5\n1e+x 1.e+x", 2),
    ("pp-number/grammar", "0xe+1", 0), ("pp-number/grammar", "0x1e-2", 0),
    ("pp-number/integer-suffix", "1u 1U 1l 1L 1ul 1UL 1lu 1ll 1LL 1ull 1ULL 1llu 1LLU", 0), ("pp-number/integer-suffix", "0x1fUL 077u 0", 0),
    ("pp-number/grammar", "1.2.3", 0), ("pp-number/grammar", "12ab", 0), ("pp-number/grammar", "1_000", 0),
    ("pp-number/grammar", "0x", 0), ("pp-number/grammar", "08", 0), ("pp-number/grammar", "1e", 0), ("pp-number/grammar", "1..2", 0),
    ("pp-number/grammar", "1uu", 0), ("pp-number/grammar", "1lul", 0), ("pp-number/grammar", "0b101", 0),
    ("pp-number/then-punctuator", "1+2", 0), ("pp-number/then-punctuator", "1-2", 0), ("pp-number/then-punctuator", "1.5+x", 0), ("pp-number/then-punctuator", "x.1", 0),
    
    # splices inside tokens
    ("splice/in-identifier", "b\\\nc", 1), ("splice/in-number", "1\\\n2", 1), ("splice/in-punctuator", "+\\\n+ <\\\n<\\\n= -\\\n>", 1),
    ("splice/in-comment-opener", "b /\\\n/ c\nd", 1), ("splice/in-comment-opener", "b /\\\n* c *\\\n/ d", 1), ("splice/in-string", "\"b\\\nc\"", 1),
    ("splice/in-char", "'\\\nb'", 1), ("splice/empty-lines", "b \\\n\\\n c", 1), ("splice/alone", "b\n\\\nc", 1),
    # punctuators
    ("punctuators", "[ ] ( ) { } . -> ++ -- & * + - ~ ! / % << >> < > <= >= == != ^ | && || ? : ; ... = *= /= %= += -= <<= >>= &= ^= |=", 0),
    ("punctuators/maximal-munch", "b+++++c", 0), ("punctuators/maximal-munch", "b---c", 0), ("punctuators/maximal-munch", "b<<=c>>=d", 0),
    ("punctuators/maximal-munch", "b->*c", 0), ("punctuators/maximal-munch", "b&&&c|||d", 0), ("punctuators/maximal-munch", "b>>>=c", 0),
    ("punctuators/maximal-munch", "b<<<=c", 0), ("punctuators/maximal-munch", "b!==c", 0),
    ("punctuators/dots", "b..c", 0), ("punctuators/dots", "1...2", 0), ("punctuators/dots", "b....c", 0), ("punctuators/dots", "b . c", 0), ("punctuators/dots", ". . .", 0),
    ("punctuators/not-c", "b ~= c", 0),
    ("digraph", "<: :> <% %>", 0), ("digraph", "b<::>c", 0),
    ("stray-character", "b @ c", 0), ("stray-character", "b ` c", 0), ("stray-character", "b \\ c", 0),
    # white space
    ("white-space", "b\vc", 0), ("white-space", "b\r\nc\r", 1), ("white-space", "b\fc", 0), ("white-space", "b\t\tc", 0),
    # literals
    ("wide-literal", "L'b'", 0), ("wide-literal", "L\"b\"", 0), ("wide-literal", "L \"b\" Lx L", 0),
    ("escape-sequences", "'\\x41' '\\101' '\\0' '\\n' '\\a' '\\?'", 0), ("escape-sequences", "\"\\x41\\101\\0\\n\\t\\v\\f\\r\\b\"", 0),
    ("escape-sequences", "\"\\u00e9\\U0001F600\" '\\u00e9'", 0), ("adjacent-literals", "\"b\"\"c\" \"d\"'e'", 0), ("empty-string", "\"\" b", 0),
    ("name-with-digits-and-underscores", "_ __ _1 b_2c B9 __x__", 0),
]
LEX_DIRECTIVES = [  # comments and white space at the end of / inside directive lines
    ("define-object", "#define A 1 // c\n[A]"), ("define-object-block", "#define A 1 /* c */ + /* d */ 2\n[A]"),
    ("define-function", "#define f(x) x // c\n[f(1)]"), ("define-multi-line-comment", "#define A 1 /* c\n d */ + 2\n[A]"),
    ("define-comment-before-body", "#define A/* c */1\n[A]"), ("define-comment-in-parameters", "#define f(/* c */x /* d */, y) x y\n[f(1, 2)]"),
    ("if", "#if 1 // c\nY\n#endif"), ("if-block-in-expression", "#if 1 /* c */ + 1 == 2 // d\nY\n#endif"), ("else-endif", "#if 0\nN\n#else // c\nY\n#endif // d"),
    ("else-endif-block", "#if 0\nN\n#else /* c */\nY\n#endif /* d */"), ("elif", "#if 0\n#elif 1 // c\nY\n#endif"), ("ifdef", "#define A\n#ifdef A // c\nY\n#endif"),
    ("ifndef", "#ifndef A /* c */\nY\n#endif"), ("undef", "#define A 1\n#undef A // c\n[A]"), ("comment-before-hash", "/* c */ #define A 1\n[A]"),
    ("comment-after-hash", "# /* c */ define A 1\n[A]"), ("tab-after-hash", "#\tdefine\tA\t1\n[A]"), ("continued-directive", "#define A 1 \\\n + 2 \\\n\n[A]"),
    ("continued-comment-in-define", "#define A 1 // c \\\n + 2\n[A]"), ("skipped-line-comment", "#if 0 // c\nx // y\n#else // d\nY\n#endif"),
    ("multi-line-comment-in-skipped-group", "#if 0\n/* \n#endif\n*/\nN\n#endif\nY"), ("directive-in-comment", "/*\n#define A 1\n*/ [A]"),
    ("hash-not-first", "b # define A 1\n[A]"), ("hash-after-comment-line-start", "/* c */ # /* d */ define A 1\n[A]"),
]
CHAR_IF = ["'a' == 97", "'\\n' == 10", "'\\0' == 0", "'\\x41' == 65", "'\\101' == 65", "'\\'' == 39", "'\"' == 34", "'\\\\' == 92", "L'a' == 97",
           "'\\a' == 7", "'?' == 63", "'\\?' == 63", "' ' == 32", "'#' == 35", "'/' == 47", "'0' - '9' == -9", "'a' < 'b'", "'\\x7f' == 127",
           "'\\t' == 9 && '\\v' == 11 && '\\f' == 12 && '\\r' == 13 && '\\b' == 8", "'A' + 1 == 'B'", "L'\\0' == 0", "'\\12' == 10", "'\\1' == 1"]


def fam_lexer():
    units = []
    seen = set()
    for feat, text, multi in LEX_SNIPPETS:
        first = feat not in seen
        seen.add(feat)
        for cid, src in lex_contexts(text, multi):
            units.append(U2(src, "lex/" + feat, ctx=cid, grp=text, cid=cid))
    for did, text in LEX_DIRECTIVES:
        units.append(U2("a\n" + text + "\nz\n", "lex/comment-in-directive", ctx=did))
    for k, e in enumerate(CHAR_IF):
        for neg in (0, 1):
            src = "#if %s(%s)\nY\n#else\nN\n#endif\n" % ("!" if neg else "", e)
            units.append(U2(src, "if-eval/character-constant", ctx="" if (k == 0 and not neg) else "`%s%s`" % ("!" if neg else "", e)))
    for e, label in [("'\\377' < 0", "plain-char-signedness"), ("'\\xff' < 0", "plain-char-signedness"), ("L'\\xff' > 0", "wchar_t-signedness")]:
        units.append(U2("#if %s\nY\n#else\nN\n#endif\n" % e, "if-eval/character-constant", ctx="`%s`" % e, tol=("undef", label)))
    return units


# -- family U: #undef, redefinition, defined, argument shapes, C99 examples

REDEF = {
    "A": [("ws-1", "#define A 1 + 2"), ("ws-2", "#define A 1  +  2"), ("ws-tab", "#define A\t1\t+\t2"), ("ws-comment", "#define A /* c */ 1 /* d */ + 2 // e"),
          ("no-ws", "#define A 1+2"), ("other-token", "#define A 1 + 3"), ("empty", "#define A"), ("function-like", "#define A() 1 + 2"),
          ("other-spelling", "#define A 1 + 02")],
    "f": [("base", "#define f(x) x + 1"), ("ws", "#define f( x )   x  +  1"), ("param-renamed", "#define f(y) y + 1"), ("variadic", "#define f(x, ...) x + 1"),
          ("two-params", "#define f(x, y) x + 1"), ("no-params", "#define f() x + 1"), ("object-like", "#define f (x) x + 1")],
}
REDEF_USE = {"function-like": "[A()]", "variadic": "[f(9, 8)]", "two-params": "[f(9, 8)]", "no-params": "[f()]", "object-like": "[f]"}
DEFINED_EXPRS = ["defined A", "defined(A)", "defined ( A )", "(defined A)", "!defined A", "!defined(A)", "defined A && defined B", "defined(A) || defined(B)",
                 "defined A == 1", "defined(A) + defined B == 2", "defined A ? defined B : !defined B", "defined A && !defined(B) || defined(C)",
                 "defined(A)&&defined(B)", "defined defined_x", "- defined A < 0", "defined A != defined B", "defined\tA", "defined(\tA\t)"]
ARG_MACROS = {
    "f": "#define f(x) (x + 1)", "g": "#define g(x, y) y - x", "h": "#define h() 7", "v": "#define v(...) [ __VA_ARGS__ ]",
    "w": "#define w(x, ...) x { __VA_ARGS__ }", "n": "#define n(args...) [ args ]", "m": "#define m(x, args...) x { args }",
    "cat": "#define cat(x, y) x ## y", "c3": "#define c3(x, y, z) x ## y ## z", "pv": "#define pv(x, ...) x ## __VA_ARGS__",
    "vp": "#define vp(x, ...) __VA_ARGS__ ## x", "lp": "#define lp(x) a ## x", "rp": "#define rp(x) x ## b", "mp": "#define mp(x) a ## x ## b",
    "es": "#define es(x) #x", "s2": "#define s2(x) # x [x]", "sv": "#define sv(x, ...) #x #__VA_ARGS__", "LP": "#define LP (", "RP": "#define RP )",
    "xx": "#define xx(x) x ## x",
}
ARG_CALLS = [
    ("unbalanced-brackets", "f", ["f((a, b))", "f(())", "f([)", "f(])", "f({)", "f(()())", "f((,))", "f())", "f([a, b])", "f(<a, b>)"]),
    ("unbalanced-brackets", "g", ["g((1, 2), 3)", "g([1, 2])", "g((,), (,))", "g({1, 2})"]),
    ("parenthesis-from-macro", "f", ["f LP 1 RP", "f(LP)", "f(RP)", "f LP 1)", "f(LP RP)"]),
    ("empty-argument", "f", ["f()", "f( )", "f(/**/)", "f(\n)", "f(// c\n)"]),
    ("empty-argument", "g", ["g(,)", "g(1,)", "g(,2)", "g( , )", "g(/**/,/**/)"]),
    ("empty-argument", "h", ["h()", "h( )", "h(/**/)", "h(\n)"]),
    ("variadic", "v", ["v()", "v(1)", "v(1,2)", "v(,)", "v(,,)", "v((,),)", "v(v(1),v())", "v(f)"]),
    ("variadic", "w", ["w(1,)", "w(,)", "w(1,2,3)", "w((1,2),(3,4))", "w(,,)", "w(1, )", "w(w(1,2),w(3,))"]),
    ("gnu-ext/named-variadic", "n", ["n()", "n(1)", "n(1,2)", "n(,)", "n((,),)"]),
    ("gnu-ext/named-variadic", "m", ["m(1,)", "m(,)", "m(1,2,3)", "m(1, )", "m(1)"]),
    ("paste/pp-number", "cat", ["cat(1,2)", "cat(1,.5)", "cat(1.,5)", "cat(.,5)", "cat(1,e3)", "cat(1e,3)", "cat(0x,1)", "cat(1,u)", "cat(1.5,f)", "cat(1e,+)",
                                 "cat(1e,+3)", "cat(0x1p,-)", "cat(1,x)", "cat(1,_)", "cat(1,.)", "cat(1.,.)", "cat(.5,e)"]),
    ("paste/to-identifier", "cat", ["cat(x,1)", "cat(x,y)", "cat(_,1)", "cat(L,x)", "cat(x1,y2)"]),
    ("paste/to-literal", "cat", ["cat(L,'a')"]),
    ("paste/to-punctuator", "cat", ["cat(<,<=)", "cat(<<,=)", "cat(-,>)", "cat(+,+)", "cat(-,-)", "cat(&,&)", "cat(|,=)", "cat(>,>=)", "cat(!,=)", "cat(=,=)",
                                    "cat(#,#)", "cat(%,=)", "cat(^,=)", "cat(*,=)", "cat(/,=)", "cat(-,=)", "cat(.,.)", "cat(/,/)"]),
    ("placemarker/##", "cat", ["cat(,)", "cat(a,)", "cat(,b)", "cat(a,b)", "cat( , )", "cat(/**/,b)"]),
    ("placemarker/##-twice", "c3", ["c3(%s,%s,%s)" % (x, y, z) for x in ("", "a") for y in ("", "b") for z in ("", "c")]),
    ("placemarker/##-__VA_ARGS__", "pv", ["pv(a,b)", "pv(a,)", "pv(,b)", "pv(,)", "pv(a,b,c)", "pv(,b,c)", "pv(a,,c)"]),
    ("placemarker/##-__VA_ARGS__", "vp", ["vp(a,b)", "vp(a,)", "vp(,b)", "vp(,)", "vp(a,b,c)", "vp(,b,c)"]),
    ("placemarker/##-fixed-operand", "lp", ["lp()", "lp(x)", "lp(1)", "lp( )"]),
    ("placemarker/##-fixed-operand", "rp", ["rp()", "rp(x)", "rp( )"]),
    ("placemarker/##-fixed-operand", "mp", ["mp()", "mp(x)", "mp(_)"]),
    ("placemarker/##-same-parameter", "xx", ["xx()", "xx(a)", "xx(+)", "xx(<)"]),
    ("stringify-empty", "es", ["es()", "es( )", "es(/**/)", "es(\"\")", "es('\"')", "es(\"\\n\")", "es('\\\\' \"\\\\\")"]),
    ("stringify-empty", "s2", ["s2()", "s2(a b)", "s2(  a   b  )", "s2(a\nb)", "s2(a/**/b)", "s2(a /* c */ b)"]),
    ("stringify-variadic", "sv", ["sv(a,)", "sv(,)", "sv(a,b)", "sv(a, b)", "sv(,b)"]),
]
C99_EXAMPLES = [
    ("6.10.3.5-example-3", "#define x 3\n#define f(a) f(x * (a))\n#undef x\n#define x 2\n#define g f\n#define z z[0]\n#define h g(~\n#define m(a) a(w)\n"
     "#define w 0,1\n#define t(a) a\n#define p() int\n#define q(x) x\n#define r(x,y) x ## y\n#define str(x) # x\n"
     "f(y+1) + f(f(z)) % t(t(g)(0) + t)(1);\ng(x+(3,4)-w) | h 5) & m\n(f)^m(m);\np() i[q()] = { q(1), r(2,3), r(4,), r(,5), r(,) };\n"
     "char c[2][6] = { str(hello), str() };\n"),
    ("6.10.3.5-example-4", "#define str(s) # s\n#define xstr(s) str(s)\n#define debug(s, t) printf(\"x\" # s \"= %d, x\" # t \"= %s\", \\\n x ## s, x ## t)\n"
     "#define INCFILE(n) vers ## n\n#define glue(a, b) a ## b\n#define xglue(a, b) glue(a, b)\n#define HIGHLOW \"hello\"\n#define LOW LOW \", world\"\n"
     "debug(1, 2);\nfputs(str(strncmp(\"abc\\0d\", \"abc\", '\\4') // this goes away\n == 0) str(: @\\n), s);\nxstr(INCFILE(2).h)\nglue(HIGH, LOW);\nxglue(HIGH, LOW)\n"),
    ("6.10.3.5-example-5", "#define t(x,y,z) x ## y ## z\nint j[] = { t(1,2,3), t(,4,5), t(6,,7), t(8,9,),\n t(10,,), t(,11,), t(,,12), t(,,) };\n"),
    ("6.10.3.5-example-7", "#define debug(...) fprintf(stderr, __VA_ARGS__)\n#define showlist(...) puts(#__VA_ARGS__)\n"
     "#define report(test, ...) ((test)?puts(#test):\\\n printf(__VA_ARGS__))\ndebug(\"Flag\");\ndebug(\"X = %d\\n\", x);\nshowlist(The first, second, and third items.);\n"
     "report(x>y, \"x is %d but y is %d\", x, y);\n"),
    ("6.10.3.3-example-hash_hash", "#define hash_hash # ## #\n#define mkstr(a) # a\n#define in_between(a) mkstr(a)\n#define join(c, d) in_between(c hash_hash d)\n"
     "char p[] = join(x, y);\n"),
    ("6.10.3.4-example-nested-self-reference", "#define f(a) a*g\n#define g(a) f(a)\nf(2)(9)\n"),
]


def fam_misc():
    units = []
    undefs = [
        ("object-like", "#define A 1\n[A]\n#undef A\n[A]"), ("never-defined", "#undef U\n[U]"), ("then-redefine", "#define A 1\n#undef A\n#define A 2\n[A]"),
        ("function-like", "#define f(x) x\n#undef f\n[f(1)]"), ("then-ifdef", "#define A 1\n#undef A\n#ifdef A\nN\n#else\nY\n#endif"),
        ("twice", "#define A 1\n#undef A\n#undef A\n[A]"), ("inside-expansion-chain", "#define A B\n#define B 1\n[A]\n#undef B\n[A]\n#define B 2\n[A]"),
        ("redefine-as-other-kind", "#define A 1\n#undef A\n#define A(x) x\n[A] [A(2)]"), ("in-skipped-group", "#define A 1\n#if 0\n#undef A\n#endif\n[A]"),
        ("name-used-as-argument", "#define f(x) x\n#define A 1\n[f(A\n#undef A\n)]"), ("in-header", "#include <m.h>\n#undef M_K\n[FROM_M(2)]"),
    ]
    for uid, text in undefs:
        tol = ("undef", "directive-inside-macro-arguments") if uid == "name-used-as-argument" else None
        units.append(U2(text + "\n", "undef", ctx="" if uid == "object-like" else uid, tol=tol))
    for name, defs in REDEF.items():
        for i1, d1 in defs:
            for i2, d2 in defs:
                units.append(U2("%s\n%s\n%s\n" % (d1, d2, REDEF_USE.get(i2, "[A]" if name == "A" else "[f(9)]")), "redefine",
                                ctx="`%s-like: %s then %s`" % ("object" if name == "A" else "function", i1, i2), expect="any"))
    for kind in ("if", "elif"):
        for e in DEFINED_EXPRS:
            for a in (0, 1):
                for b in (0, 1):
                    pre = ("#define A 0\n" if a else "") + ("#define B\n" if b else "")
                    cond = "#if %s" % e if kind == "if" else "#if 0\n#elif %s" % e
                    units.append(U2("%s%s\nY\n#else\nN\n#endif\n" % (pre, cond), "defined-operator/" + kind,
                                    ctx="" if (e == DEFINED_EXPRS[0] and a and not b) else "`%s`/A=%d,B=%d" % (e, a, b)))
    for did, pre in [("object-macro-paren", "#define D defined(A)"), ("object-macro-bare", "#define D defined A"),
                     ("function-macro", "#define D IS(A)\n#define IS(x) defined(x)"), ("name-only", "#define D IS(A)\n#define IS defined")]:
        for a in (0, 1):
            units.append(U2("%s%s\n#if D\nY\n#else\nN\n#endif\n" % ("#define A 1\n" if a else "", pre), "defined-operator/from-expansion",
                            ctx="%s/A=%d" % (did, a), flags="gnu", tol=("undef", "defined-produced-by-macro-expansion")))
    for pid, text in [("function-like-name", "#define f(x) x\n#ifdef f\nY\n#endif\n#if defined f && defined(f)\nZ\n#endif"),
                      ("__LINE__", "#ifdef __LINE__\nY\n#endif\n#if defined(__LINE__)\nZ\n#endif"), ("__FILE__", "#ifndef __FILE__\nN\n#else\nY\n#endif"),
                      ("__STDC__", "#if defined __STDC__ && __STDC__ == 1\nY\n#endif"), ("__STDC_VERSION__", "#if __STDC_VERSION__ >= 199901L\nY\n#endif\n__STDC_VERSION__"),
                      ("__STDC_HOSTED__", "#ifdef __STDC_HOSTED__\nY\n#endif"), ("__DATE__-__TIME__", "#if defined __DATE__ && defined(__TIME__)\nY\n#endif"),
                      ("__VA_ARGS__", "#ifdef __VA_ARGS__\nN\n#else\nY\n#endif"), ("defined-itself", "#ifdef defined\nN\n#else\nY\n#endif")]:
        units.append(U2(text + "\n", "defined-operator/predefined-name", ctx=pid, tol=("undef", "__VA_ARGS__-outside-variadic-macro") if pid == "__VA_ARGS__" else None))
    seen = set()
    for feat, macro, calls in ARG_CALLS:
        for k, call in enumerate(calls):
            first = feat not in seen
            seen.add(feat)
            pre = [ARG_MACROS[macro]]
            if "LP" in call or "RP" in call:
                pre += [ARG_MACROS["LP"], ARG_MACROS["RP"]]
            if "f" in _ID.findall(call) and macro in ("v", "w"):
                pre.append(ARG_MACROS["f"])
            units.append(U2("\n".join(pre) + "\n[%s] z\n" % call, "args/" + feat, ctx="" if first else "`%s`" % call.replace("\n", "\\n"), flags="gnu" if feat.startswith("gnu-ext") else "strict"))
    for eid, text in C99_EXAMPLES:
        # the stray `@` of example 4 is a finding of family X (lex/stray-character); here it would hide the rest of the example
        units.append(U2(text.replace("@", "at"), "c99-example", ctx=eid))
    return units


FAM2_NAMES = {"L": ["Q", "D2", "E"] + list(L_DEFS), "K": ["ID", "TW", "S", "XS", "CAT", "XCAT", "U0", "C"],
              "D": ["LNO", "FN", "LF", "ID", "D", "A", "B", "P", "PO"],
              "N": ["H", "HX", "HS", "SEL", "G_H", "GD_H", "FROM_M", "M_K", "SELF_1", "SELF_2", "OPEN_H", "ID"],
              "X": ["A", "f", "s", "x"],
              "U": ["A", "B", "C", "D", "IS", "f", "g", "h", "v", "w", "n", "m", "cat", "c3", "pv", "vp", "lp", "rp", "mp", "es", "s2", "sv", "LP", "RP", "xx",
                    "FROM_M", "M_K", "x", "z", "t", "p", "q", "r", "str", "xstr", "debug", "INCFILE", "glue", "xglue", "HIGHLOW", "LOW", "showlist",
                    "report", "hash_hash", "mkstr", "in_between", "join"]}


def families2(tier):
    return {"L": fam_line(2 if tier == "quick" else 3), "K": fam_counter(), "D": fam_directives(), "N": fam_include(), "X": fam_lexer(),
            "U": fam_misc()}


# -- running gcc on a batch of second generation units

_UNAME = re.compile(r"\b[uv]u?(\d+)\.c\b")
_DIAGLINE = re.compile(r"^(\S+?):(?:\d+:)*(?:\d+:)? (fatal error|error|warning): ")
_PRAGMA_LINE = re.compile(r"(?m)^[ \t]*#[ \t]*pragma\b.*$")
MAIN2 = "vfmain.c"


def unit_text(u, k):
    return u["src"].replace("@U@", "u%d" % k).replace("@D@", _WORKDIR or "")


def write_files(d, files, k=None):
    for rel, content in files.items():
        if k is not None:
            rel = rel.replace("@U@", "u%d" % k)
            content = content.replace("@U@", "u%d" % k)
        path = os.path.join(d, rel)
        os.makedirs(os.path.dirname(path), exist_ok=True)
        with open(path, "w") as f:
            f.write(content)


def _gcc2_once(entries, fam, flags, pragma, counters):
    """entries: [(id, text)] -> (rc, {id: tokens}, markers complete and in order, ids with errors, ids with warnings,
    {id: [messages]}, every diagnostic attributed)"""
    from vf.gen.ctok import tokenize, split_at_markers
    counters["gcc_processes"] = counters.get("gcc_processes", 0) + 1
    undefs = "".join("#undef %s\n" % n for n in FAM2_NAMES[fam])
    parts = []
    for k, text in entries:
        parts.append("#line 1 \"u%d.c\"\n%s%s#line 1 \"%s\"\n%s%d\n" % (k, text, undefs, MAIN2, MARK, k))
    env = dict(os.environ, LC_ALL="C")
    r = subprocess.run(GCC2[flags], input="".join(parts), capture_output=True, text=True, env=env, cwd=_WORKDIR)
    out = r.stdout
    if pragma:
        out = _PRAGMA_LINE.sub("", out)
    units, order, rest = split_at_markers(tokenize(out), MARK)
    ids = [k for k, _ in entries]
    errs, warns, msgs = set(), set(), {}
    attributed = True
    ctx_unit = None
    for line in r.stderr.splitlines():
        names = [int(x) for x in _UNAME.findall(line)]
        if line.startswith("In file included from") or line.startswith("                 from"):
            if names:
                ctx_unit = names[-1]
            continue
        m = _DIAGLINE.match(line)
        if not m:
            if not (": note: " in line or line.startswith(" ") or not line.strip()):
                attributed = False
            continue
        fname = m.group(1)
        if names and _UNAME.search(fname):
            k = int(_UNAME.search(fname).group(1))
            ctx_unit = None
        elif ctx_unit is not None and (fname in HEADERS or fname.startswith(("inc/", "inc2/", _WORKDIR + "/")) or fname == "hz.c"):
            k = ctx_unit
        else:
            attributed = False
            continue
        (warns if m.group(2) == "warning" else errs).add(k)
        msgs.setdefault(k, []).append(line)
    if os.environ.get("VF_C26_DEBUG") and (not attributed or (order != ids)):
        print("GCC2", fam, flags, "n", len(ids), "order-ok", order == ids, "rest", rest[:10], "\n" + r.stderr[:1500])
    return r.returncode, units, order == ids and not rest, errs, warns, msgs, attributed


def gcc2(entries, fam, flags, pragma, counters, isolate=False):
    """[(id, text)] -> {id: (status, tokens, messages)}; status: "clean" (no diagnostic), "warning", "error".
    One gcc process for the batch; the result is accepted only if a second run without the diagnosed units is silent
    and gives the same tokens for the remaining units.  Anything else: bisection."""
    res = {}
    if not entries:
        return res
    if len(entries) == 1 or isolate:
        for k, text in entries:
            rc, units, ok, errs, warns, msgs, att = _gcc2_once([(k, text)], fam, flags, pragma, counters)
            toks = units.get(k) if ok else None
            if rc != 0 or errs or toks is None:
                res[k] = ("error", toks, msgs.get(k, []))
            elif warns or msgs or not att:
                res[k] = ("warning", toks, msgs.get(k, []))
            else:
                res[k] = ("clean", toks, [])
        return res
    rc, units, ok, errs, warns, msgs, attributed = _gcc2_once(entries, fam, flags, pragma, counters)
    if ok and attributed and rc == 0 and not errs and not warns:
        return {k: ("clean", units[k], []) for k, _ in entries}
    if ok and attributed and (errs or warns):
        bad = errs | warns
        good = [(k, t) for k, t in entries if k not in bad]
        rc2, units2, ok2, errs2, warns2, _m2, att2 = _gcc2_once(good, fam, flags, pragma, counters) if good else (0, {}, True, set(), set(), {}, True)
        if rc2 == 0 and ok2 and att2 and not errs2 and not warns2 and all(units2[k] == units[k] for k, _ in good):
            for k, _ in good:
                res[k] = ("clean", units2[k], [])
            for k in bad:
                res[k] = ("error" if k in errs else "warning", units[k], msgs.get(k, []))
            return res
    counters["gcc_bisections"] = counters.get("gcc_bisections", 0) + 1
    if os.environ.get("VF_C26_DEBUG"):
        print("BISECT", fam, flags, len(entries), "rc", rc, "ok", ok, "attributed", attributed, "errs", sorted(errs), "warns", sorted(warns))
    half = len(entries) // 2
    res.update(gcc2(entries[:half], fam, flags, pragma, counters))
    res.update(gcc2(entries[half:], fam, flags, pragma, counters))
    return res


@contextlib.contextmanager
def _in_dir(d):
    old = os.getcwd()
    os.chdir(d)
    try:
        yield
    finally:
        os.chdir(old)


def ppci_unit2(src, name, pragma):
    """-> ("ok", token values, printed text) | ("exc", exception); runs inside the scratch directory, include path `inc`"""
    from ppci.lang.c import CPreProcessor, COptions, CTokenPrinter
    from ppci.lang.c.utils import LineInfo
    from vf.core import cpu_limit, CpuTimeout
    try:
        with _in_dir(_WORKDIR), cpu_limit(CPU_LIMIT):
            opts = COptions()
            opts.add_include_path("inc")
            opts.add_include_path("inc2")
            pre = CPreProcessor(opts)
            toks = []
            for t in pre.process_file(io.StringIO(src), name):
                if isinstance(t, LineInfo):
                    continue
                toks.append(t)
                if len(toks) > 5000:
                    raise Runaway("more than 5000 tokens produced")
            if pragma:
                # a preprocessor may pass `#pragma ...` lines on; drop them as in gcc's output
                kept, skipping = [], False
                for i, t in enumerate(toks):
                    if t.first:
                        nxt = [x for x in toks[i + 1:i + 3] if x.typ not in ("WS", "BOL")]
                        skipping = t.typ == "#" and bool(nxt) and nxt[0].val == "pragma" and not nxt[0].first
                    if not skipping:
                        kept.append(t)
                toks = kept
            f = io.StringIO()
            CTokenPrinter().dump(toks, file=f)
    except CpuTimeout:
        return ("exc", Runaway("CPU limit of %d s exceeded" % CPU_LIMIT))
    except Exception as ex:  # noqa
        return ("exc", ex)
    return ("ok", [t.val for t in toks if t.typ not in ("WS", "BOL")], f.getvalue())


_DEC = re.compile(r"^[0-9]+$")
_FILE_NORM = re.compile(r"\b([uv])u?\d+\.c\b")


def diff_symptom(src, vals, g):
    if len(vals) == len(g):
        diff = [(a, b) for a, b in zip(vals, g) if a != b]
        if diff and all(_DEC.match(a) and _DEC.match(b) for a, b in diff):
            return "wrong-number"
        if diff and all(a[:1] == '"' and b[:1] == '"' for a, b in diff):
            if all(a.replace(" ", "") == b.replace(" ", "") for a, b in diff):
                return "stringify/spacing"
            return "wrong-string"
    s = wrong_symptom(src, vals, g)
    return "different-tokens" if s == "tokens" else s


def within_spans(vals, g, spans):
    """ppci differs from gcc only in decimal numbers, and each such pair lies inside one ambiguous line span."""
    if len(vals) != len(g):
        return False
    for a, b in zip(vals, g):
        if a == b:
            continue
        if not (_DEC.match(a) and _DEC.match(b)):
            return False
        if not any(lo <= int(a) <= hi and lo <= int(b) <= hi for lo, hi in spans):
            return False
    return True


def judge2(u, k, gres, galt=None):
    """-> None (agrees / outside the property) | ("count", counter name) | (kind, symptom, what)"""
    from vf.gen.ctok import tokenize
    from ppci.common import CompilerError
    from vf.core import exc_key
    src = unit_text(u, k)
    status, g, msgs = gres
    expect = u["expect"]
    if expect == "any":
        if status == "error":
            if not any("redefined" in m for m in msgs):
                return ("count", "excluded_gcc_rejects")
            expect = "diag"
        else:
            expect = "tokens"
    if expect == "diag":
        if status != "error":
            return ("count", "expected_diagnostic_but_gcc_accepts")
    elif status == "error":
        return ("count", "excluded_gcc_rejects")
    elif status == "warning" and not u["feat"].startswith("gnu-ext/#warning/taken"):
        return ("count", "excluded_gcc_warns")
    r = ppci_unit2(src, "u%d.c" % k, u["pragma"])
    one = src.replace("\n", "\\n").replace("\r", "\\r").replace("\v", "\\v").replace("\f", "\\f").replace("\t", "\\t")
    if expect == "diag":
        first = (msgs[0].split(": ", 1)[-1] if msgs else "an error")
        if r[0] == "ok" and u["tol"] and u["tol"][0] == "undef":
            return ("count", "differs_where_c99_does_not_define/" + u["tol"][1])
        if r[0] == "ok":
            return ("no-diagnostic", "no-diagnostic", "ppci accepts `%s` silently and gives `%s`; a diagnostic is required (gcc: %s)" % (one, short(r[1]), first))
        ex = r[1]
        if isinstance(ex, CompilerError):
            return None
        if isinstance(ex, Runaway):
            return ("runaway", "runaway", "ppci does not terminate on `%s` (%s); gcc: %s" % (one, ex, first))
        return ("crash", exc_key("internal-error-instead-of-diagnostic", ex),
                "ppci raises %s(%s) on `%s` instead of a CompilerError; gcc: %s" % (type(ex).__name__, ex, one, first))
    tol = u["tol"]
    if r[0] == "exc":
        ex = r[1]
        if isinstance(ex, CompilerError):
            v = ("rejects", "rejects/" + caller_of_error(ex),
                 "ppci rejects `%s` with CompilerError(%s); gcc accepts it and gives `%s`" % (one, ex.msg, short(g)))
        elif isinstance(ex, Runaway):
            v = ("runaway", "runaway", "ppci does not terminate on `%s` (%s); gcc gives `%s`" % (one, ex, short(g)))
        else:
            v = ("crash", exc_key("crash", ex), "ppci raises %s(%s) on `%s`; gcc gives `%s`" % (type(ex).__name__, ex, one, short(g)))
        if tol and tol[0] == "undef":
            return ("count", "differs_where_c99_does_not_define/" + tol[1])
        return v
    vals, text = r[1], r[2]
    if vals != g:
        if tokenize(" ".join(vals)) != vals:
            if tokenize(" ".join(vals)) == g:
                # the same characters, but ppci made one token of what are several preprocessing tokens for gcc
                return ("wrong", "merges-tokens", "`%s`: ppci gives `%s`, gcc gives `%s`" % (one, short(vals, 24), short(g, 24)))
            return ("unclassified", "tokenizer", "ppci token values %r do not re-lex to themselves" % (vals,))
        if tol:
            if tol[0] == "line" and within_spans(vals, g, tol[1]):
                return ("count", "line_policy_differs_from_gcc")
            if tol[0] == "undef":
                return ("count", "differs_where_c99_does_not_define/" + tol[1])
            if tol[0] == "alt" and galt is not None and galt[0] == "clean" and \
                    [_FILE_NORM.sub(r"\1.c", t) for t in vals] == [_FILE_NORM.sub(r"\1.c", t) for t in galt[1]]:
                return ("count", tol[2])
        return ("wrong", diff_symptom(src, vals, g), "`%s`: ppci gives `%s`, gcc gives `%s`" % (one, short(vals, 24), short(g, 24)))
    printed = tokenize(_PRAGMA_LINE.sub("", text) if u["pragma"] else text)
    if printed != g:
        return ("print", "print/glue-" + glue_kind(printed, g),
                "`%s`: the token stream is right but the text written by CTokenPrinter, `%s`, re-lexes to `%s` (gcc prints `%s`)"
                % (one, text.strip().replace("\n", "\\n"), short(printed), short(g)))
    return None




def worker2(p, fam, fi, start, stop, counters):
    units = _FAMS2[fam]
    idx = list(range(start, stop))
    for flags in ("strict", "gnu"):
        for pragma in (False, True):
            sel = [k for k in idx if units[k]["flags"] == flags and units[k]["pragma"] == pragma]
            if not sel:
                continue
            entries = [(k, unit_text(units[k], k)) for k in sel]
            alts = [(k, units[k]["tol"][1].replace("@U@", "u%d" % k).replace("@D@", _WORKDIR)) for k in sel if units[k]["tol"] and units[k]["tol"][0] == "alt"]
            gres = gcc2(entries, fam, flags, pragma, counters, isolate=(fam == "K"))
            # alternative conforming behaviour: the same preprocessor on the alternative source, ids shifted behind the family
            galt = gcc2([(k + len(units), t) for k, t in alts], fam, flags, pragma, counters) if alts else {}
            for k in sel:
                u = units[k]
                order = (fi << 32) | k
                v = judge2(u, k, gres[k], galt.get(k + len(units)))
                if v is not None and v[0] == "count":
                    p.count(v[1])
                    if v[1].startswith("excluded") and p.counters[v[1]] <= 4:
                        p.collect("excluded_examples", "%s: %s -- %s" % (v[1], unit_text(u, k).replace("\n", "\\n")[:120], "; ".join(gres[k][2])[:160]))
                    if v[1].startswith(("differs_where", "line_policy", "pragma_once")) and p.counters[v[1]] <= 2:
                        p.collect("tolerated_examples", "%s: %s" % (v[1], unit_text(u, k).replace("\n", "\\n")[:160]))
                    if v[1].startswith("excluded") or v[1].startswith("expected_diagnostic"):
                        continue
                    p.add()
                    p.count("units_" + fam)
                    continue
                p.add()
                p.count("units_" + fam)
                if v is not None and v[0] == "unclassified":
                    p.count("unclassified_tokenizer")
                    p.collect("unclassified_examples", v[2][:200])
                    continue
                g = gres[k][1] or []
                p.outcome((fam, u["feat"], gres[k][0], tuple(_FILE_NORM.sub(r"\1.c", t) for t in g)))
                if v is not None:
                    p.collect("fam2_failures", (fam, k, v[0], v[1], v[2]))


def witness2(fam, k):
    u = _FAMS2[fam][k]
    w = {"gen": 2, "fam": fam, "k": k, "src": u["src"], "feat": u["feat"], "ctx": u["ctx"], "expect": u["expect"], "flags": u["flags"],
         "pragma": u["pragma"]}
    if u["tol"]:
        w["tol"] = list(u["tol"])
    if u["files"]:
        w["files"] = u["files"]
    return w


def is_subsequence(a, b):
    it = iter(b)
    return all(x in it for x in a)


def key_fam2_failures(ctx, fails, fam_order):
    """Keys: <feature>/<symptom> when the feature fails in its simplest context, else <feature>/<context>/<symptom>;
    family L: only failing units none of whose proper sub-sequences fails.  Symptoms shared with the first generation
    (stringify spacing, text printer glue) keep their first generation keys."""
    by_fam = {}
    for f in fails:
        by_fam.setdefault(f[0], []).append(f)
    n_sub = 0
    for fam, fl in by_fam.items():
        units = _FAMS2[fam]
        fl.sort(key=lambda f: f[1])
        failing_parts = {units[f[1]]["parts"] for f in fl if units[f[1]]["parts"]}
        base = {}     # (feat, symptom) fails in the simplest context
        grp_base = set()
        for _fam, k, kind, sym, what in fl:
            if units[k]["ctx"] == "":
                base[(units[k]["feat"], sym)] = True
            if units[k]["grp"] is not None and units[k]["cid"] == "":
                grp_base.add((units[k]["feat"], units[k]["grp"]))
        for _fam, k, kind, sym, what in fl:
            u = units[k]
            if u["parts"] and any(len(q) < len(u["parts"]) and is_subsequence(q, u["parts"]) for q in failing_parts):
                n_sub += 1
                continue
            if u["grp"] is not None and u["cid"] != "" and (u["feat"], u["grp"]) in grp_base:
                n_sub += 1
                continue
            if sym == "stringify/spacing" or sym.startswith("print/glue-"):
                key = "macro/" + sym
            elif sym == "rejects/preprocessor.py:concat" and u["feat"] == "args/paste/pp-number":
                key = "macro/" + sym     # first generation key: a paste whose result is a pp-number but not a C number
            else:
                prefix = "line/" if fam == "L" else ""
                if fam == "L" and sym in ("wrong-number", "wrong-string", "different-tokens") and "gives" in what:
                    sym = "wrong-value"
                if u["ctx"] == "" or (u["feat"], sym) in base:
                    key = "%s%s/%s" % (prefix, u["feat"], sym)
                else:
                    c = u["ctx"]
                    if c.startswith("`") or "/`" in c or "=" in c:
                        # the context is a concrete operand, not a named situation: one key per feature and symptom
                        c = c.split("/`")[0] if "/`" in c else ""
                        c = "" if c.startswith("`") or "=" in c else c
                    key = "%s%s/%s%s" % (prefix, u["feat"], c + "/" if c else "", sym)
            if key.startswith(("gnu-ext/", "args/gnu-ext/")) or key.startswith("redefine/no-diagnostic"):
                # outside what C26 states: GNU extensions are not behaviour of "a conforming C preprocessor", and a missing diagnostic for an
                # incompatible redefinition is not a difference in the produced token sequence.  Observed, listed in the evidence, not judged.
                ctx.count("observations_outside_the_property")
                ctx.collect("observations_outside_the_property_keys", key)
                continue
            ctx.violation(key, what, witness2(fam, k), order=(fam_order[fam] << 32) | k)
    ctx.note("second_generation_failing_units", len(fails))
    ctx.note("line_family_failures_with_a_failing_subsequence", n_sub)


def replay2(w):
    global _WORKDIR
    from vf.core import scratch
    fam, k = w["fam"], w["k"]
    u = {"src": w["src"], "feat": w["feat"], "ctx": w["ctx"], "expect": w["expect"], "flags": w["flags"], "pragma": w["pragma"],
         "tol": tuple(w["tol"]) if w.get("tol") else None, "files": w.get("files"), "parts": None}
    with scratch(ID + "r") as d:
        _WORKDIR = d
        write_files(d, HEADERS)
        if u["files"]:
            write_files(d, u["files"], k)
        counters = {}
        gres = gcc2([(k, unit_text(u, k))], fam, u["flags"], u["pragma"], counters)[k]
        galt = None
        if u["tol"] and u["tol"][0] == "alt":
            galt = gcc2([(k + 1, u["tol"][1].replace("@U@", "u%d" % k).replace("@D@", d))], fam, u["flags"], u["pragma"], counters)[k + 1]
        v = judge2(u, k, gres, galt)
    if v is None:
        return False, "ppci and gcc agree (gcc: %s, `%s`)" % (gres[0], short(gres[1] or []))
    if v[0] == "count":
        return False, "outside the property or tolerated: " + v[1]
    if v[0] == "unclassified":
        return False, v[2]
    return True, "%s: %s" % (v[1], v[2])


# ------------------------------------------------------------------ bounds per tier

def leaf_sets(tier, seed):
    if tier == "thorough":
        s1 = S_ORDER[:8]
        s2 = S_ORDER[:4]
    else:
        # fixed core + one leaf chosen by the seed (every choice is inside the thorough bound)
        s1 = S_ORDER[:2] + [S_ORDER[2 + seed % 6]]
        s2 = [S_ORDER[0], S_ORDER[1 + seed % 3]]
    return [LEAF[x] for x in s1], [LEAF[x] for x in s2]


def families(tier, seed):
    s1, s2 = leaf_sets(tier, seed)
    fams = [
        fam_trees("I0", list(LEAVES)),
        fam_trees("I1", depth1(LEAVES)),
        cond_units(),
        fam_prec("P", ["0", "2", "7"] if tier == "quick" else ["0", "1", "2", "3", "7"]),
        fam_one_deep("I2a", depth1(s1), s1),
        fam_two_deep("I2b", depth1(s2, ternary=(tier == "thorough"))),
    ]
    if tier == "thorough":
        munits = macro_units(3, 2)
    else:
        munits = macro_units(3, 2, pair_limit=2)
    fams.append(fam_macro(munits))
    return fams, munits, s1, s2


def unit_context(ds, us):
    """Static feature of a (minimal failing) macro unit that names the mechanism involved."""
    defined = {DEFS[d][1]: d for d in ds}
    fn_like = {n for n, d in defined.items() if DEFS[d][2][len("#define ") + len(n):].startswith("(")}
    # macros whose replacement list ends in the name of a function-like macro
    producers = set()
    for _ in defined:
        for n, d in defined.items():
            if (_ID.findall(DEFS[d][2]) or [""])[-1] in fn_like | producers and DEFS[d][2].rstrip()[-1] != ")":
                producers.add(n)
    for u, nxt in zip(us, us[1:]):
        text = USES[u][1]
        if (text in fn_like or (_ID.findall(text) or [""])[0] in producers) and not USES[nxt][1].startswith("("):
            return "name-without-arguments"
    # recursion: a cycle in "body mentions name"
    edges = {n: DEF_BODY_NAMES[d] & set(defined) for n, d in defined.items()}
    for n in edges:
        seen, todo = set(), list(edges[n])
        while todo:
            m = todo.pop()
            if m == n:
                return "recursive-macros"
            if m not in seen:
                seen.add(m)
                todo.extend(edges[m])
    return "plain"


def key_macro_failures(ctx, munits, fails, fam_index):
    """Report only failures none of whose sub-units (fewer definitions / fewer uses) fails."""
    index = {u: i for i, u in enumerate(munits)}
    failing = {f[0]: f for f in fails}
    n_min = 0
    for i in sorted(failing):
        ds, us = munits[i]
        minimal = True
        for nd in range(len(ds) + 1):
            for sub_d in itertools.combinations(ds, nd):
                for nu in range(1, len(us) + 1):
                    for sub_u in itertools.combinations(us, nu):
                        if (sub_d, sub_u) == (ds, us):
                            continue
                        j = index.get((sub_d, sub_u))
                        if j is not None and j in failing:
                            minimal = False
        if not minimal:
            continue
        n_min += 1
        _, kind, key, what = failing[i]
        if kind == "wrong":
            if key.startswith(("paste/", "stringify/")):
                k = "macro/" + key
            else:
                ctxt = unit_context(ds, us)
                if ctxt == "plain" and key == "replaces-a-name-gcc-keeps/function-like":
                    # no recursion, so gcc kept the name only because no "(" followed it when it was scanned
                    ctxt = "name-without-arguments"
                k = "macro/wrong/" + ctxt + ("/" + key if ctxt == "plain" else "")
        else:
            k = "macro/" + key
        ctx.violation(k, what, {"src": macro_src(ds, us)}, order=(fam_index << 32) | i)
    ctx.note("macro_failing_units", len(failing))
    ctx.note("macro_minimal_failing_units", n_min)


def key_parse_failures(ctx, fails):
    """An unparenthesised unit that fails although its C-rule evaluation has no special event: blame the operator if the
    parenthesised family already shows that operator evaluating wrongly, else the grouping (precedence / associativity)."""
    bad_ops = {k[len("if-eval/op/"):] for k in ctx.violations if k.startswith("if-eval/op/")}
    explained = 0
    for order, label, what, src in sorted(fails):
        ops = set(label.replace("?:?:", "?:").split(","))
        if ops & bad_ops:
            explained += 1
            continue
        ctx.violation("if-parse/" + parse_class(label), what, {"src": src}, order=order)
    ctx.note("parse_failures", len(fails))
    ctx.note("parse_failures_explained_by_operator_defect", explained)


def run(ctx):
    global _FAMS, _WORKDIR
    fams, munits, s1, s2 = families(ctx.tier, ctx.seed)
    batch = BATCH if ctx.quick else 4 * BATCH
    items = []
    for fi, fam in enumerate(fams):
        for start in range(0, fam.n, batch):
            items.append((fi, start, min(fam.n, start + batch)))
    ctx.note("units_per_family", {f.name: f.n for f in fams})
    ctx.note("macro_bound", "<=2 definitions x <=2 uses and 3 definitions x 1 use" if ctx.quick else "<=3 definitions x <=2 uses")
    ctx.note("depth2_leaf_sets", {"one_deep_child": [l[1] for l in s1], "two_deep_children": [l[1] for l in s2]})
    for name in ("I1", "C", "I2a", "M"):
        fam = [f for f in fams if f.name == name][0]
        ctx.sample({"family": fam.name, "unit": fam.get(fam.n // 2)[0]})
    n1 = len(fams)
    _FAMS2.clear()
    _FAMS2.update(families2(ctx.tier))
    fam_order = {}
    for letter, units2 in _FAMS2.items():
        fam_order[letter] = len(fams)
        fams.append(Family(letter, len(units2), None, kind=2))
        for start in range(0, len(units2), BATCH):
            items.append((fam_order[letter], start, min(len(units2), start + BATCH)))
        ctx.sample({"family": letter, "unit": units2[len(units2) // 2]["src"]})
    ctx.note("units_per_family", {f.name: f.n for f in fams})
    ctx.note("line_family_bound", "sequences of <=%d items of %d" % (2 if ctx.quick else 3, len(L_ITEMS)))
    _FAMS = fams
    from vf.core import scratch
    with scratch(ID) as d:
        _WORKDIR = d
        write_files(d, HEADERS)
        for units2 in _FAMS2.values():
            for k, u in enumerate(units2):
                if u["files"]:
                    write_files(d, u["files"], k)
        ctx.pmap(worker, items)
    fails = ctx.sets.pop("macro_failures", set())
    key_macro_failures(ctx, munits, fails, n1 - 1)
    key_fam2_failures(ctx, sorted(ctx.sets.pop("fam2_failures", set())), fam_order)
    key_parse_failures(ctx, ctx.sets.pop("parse_failures", set()))
    if ctx.counters.get("skipped_after_runaways"):
        ctx.cap("%d macro units skipped after %d non-terminating units in a worker" % (ctx.counters["skipped_after_runaways"], RUNAWAY_BREAKER))
    if ctx.counters.get("ref_vs_gcc_disagree"):
        ctx.cap("reference evaluator and gcc disagree on %d #if units (excluded, see examples)" % ctx.counters["ref_vs_gcc_disagree"])


def replay(w):
    if w.get("gen") == 2:
        return replay2(w)
    src = w["src"]
    g = gcc_units([src])[0]
    if g is None:
        return False, "gcc rejects the unit; it is outside the property"
    v = judge(src, g)
    if v is None or v[0] == "unclassified":
        return False, "ppci and gcc give the same token sequence `%s`" % short(g)
    return True, "%s: %s" % (v[1], v[2])
