"""C26 - ppci's C preprocessor vs gcc -E on exhaustively enumerated small translation units.

Families (all enumerated completely inside the stated bound, simplest first):
  I   `#if E` for expression trees of depth <= 2 (fully parenthesised sub-expressions)
  P   `#if a op1 b op2 c` without parentheses (precedence / associativity of the #if parser)
  C   #if/#ifdef/#ifndef/#elif/#else chains, nested conditionals, #define inside skipped groups
  M   <= 3 macro definitions from a menu of shapes x <= 2 use sites from a menu
Oracle: `gcc -E -P -std=c99 -pedantic-errors`; units that gcc rejects are excluded.  For #if units a
C-rule reference evaluator written here (intmax_t/uintmax_t) additionally excludes undefined /
implementation-defined expressions and names the locus of a disagreement; the verdict itself is
always gcc's output, compared as token sequences.
"""
import io
import os
import re
import bisect
import itertools
import subprocess

ID = "C26"
LEVEL = "exploration"
RULE = ("K1 bounded-exhaustive: (I) every #if expression tree of depth<=1 over 15 leaves x 18 binary, 4 unary, ?: and defined, plus "
        "depth-2 trees over a reduced leaf set (one deep child: set S; two deep children: set S'); (P) every unparenthesised "
        "`a op1 b op2 c`, unary-binary and ?: nesting over small operands; (C) every #if/#elif/#else chain with <=2 #elif, "
        "6 opening forms, optional #else, one nested group at every branch position; (M) every unit of <=3 macro definitions "
        "(distinct names, menu of 29 shapes over 11 names) x <=2 use sites (menu of 56) in which every use names a defined macro and "
        "every definition is referenced.  Distinct non-trivial = distinct (family, operator/shape set, resulting token sequence) "
        "of a unit that gcc accepts and in which a directive or a macro expansion took effect")
ASSUMPTIONS = [
    "oracle: gcc 12 `-E -P -std=c99 -pedantic-errors` is a conforming C99 preprocessor; units it rejects (division by zero, "
    "overflow, invalid paste, wrong argument count, missing variadic argument) are excluded",
    "#if arithmetic is intmax_t/uintmax_t = 64 bit (gcc's and ppci's host model); expressions whose C99 meaning is undefined or "
    "implementation-defined (shift count out of range, << of a negative value, >> of a negative value, signed overflow) are "
    "excluded by a reference evaluator in this file, which is cross-checked against gcc on every unit (n_ref_vs_gcc_disagree must be 0)",
    "outputs are compared as preprocessing-token sequences by vf/gen/ctok.py; white space and line structure are not compared, "
    "except inside string literals produced by #",
    "macro shapes whose result C99 leaves unspecified (#/## evaluation order, several ## in one body) are not in the menu; "
    "__LINE__/__FILE__/__COUNTER__, #include, #line, #pragma and trigraphs are not explored",
]
CLAIM = {
    "text": "inside the bound ppci's preprocessor emits the token sequence gcc emits, for every enumerated #if expression, "
            "conditional structure and macro definition/use combination",
    "note": "trusted: gcc -E as the conforming preprocessor, the pp-token tokenizer vf/gen/ctok.py, the 64-bit reference evaluator "
            "(only for exclusion of undefined behaviour and for naming the locus)",
    "technique": "bounded exhaustive differential testing against gcc -E",
    "engine": "K1",
}

BATCH = 1000
CPU_LIMIT = 3          # CPU seconds for one unit in ppci (a unit normally takes < 1 ms)
RUNAWAY_BREAKER = 6    # after this many non-terminating units a worker stops exploring the macro family
MARK = "VFMARK_"
NAMES = ["A", "B", "D", "V", "f", "g", "h", "v", "s", "xs", "cat", "xcat", "p"]
UNDEFS = "".join("#undef %s\n" % n for n in NAMES)
GCC = ["gcc", "-E", "-P", "-x", "c", "-std=c99", "-pedantic-errors", "-fno-diagnostics-show-caret", "-"]
M64 = (1 << 64) - 1
IMAX = (1 << 63) - 1
IMIN = -(1 << 63)

# ------------------------------------------------------------------ #if expression trees

# leaf = ("n", text, value, unsigned)
LEAVES = [
    ("n", "0", 0, False), ("n", "1", 1, False), ("n", "2", 2, False), ("n", "3", 3, False), ("n", "7", 7, False),
    ("n", "(-1)", -1, False), ("n", "(-7)", -7, False), ("n", "0u", 0, True), ("n", "1u", 1, True),
    ("n", "0xFFFFFFFFFFFFFFFFu", M64, True), ("n", "0x7FFFFFFFFFFFFFFF", IMAX, False), ("n", "'a'", 97, False),
    ("n", "defined(D)", 1, False), ("n", "defined U", 0, False), ("n", "U", 0, False),
]
LEAF = {l[1]: l for l in LEAVES}
BINOPS = ["*", "/", "%", "+", "-", "<<", ">>", "<", ">", "<=", ">=", "==", "!=", "&", "^", "|", "&&", "||"]
UNOPS = ["!", "~", "-", "+"]
PREC = {"*": 11, "/": 11, "%": 11, "+": 10, "-": 10, "<<": 9, ">>": 9, "<": 8, ">": 8, "<=": 8, ">=": 8,
        "==": 7, "!=": 7, "&": 6, "^": 5, "|": 4, "&&": 3, "||": 2}
CMP = {"<", ">", "<=", ">=", "==", "!="}

# reduced leaf sets for depth 2; the first entries are the ones that make / % and unsigned conversion observable
S_ORDER = ["(-7)", "2", "1u", "0xFFFFFFFFFFFFFFFFu", "(-1)", "0", "3", "0x7FFFFFFFFFFFFFFF", "7", "0u", "1", "'a'"]


def render(t, top=True):
    k = t[0]
    if k == "n":
        return t[1]
    if k == "u":
        s = "%s%s" % (t[1], render(t[2], False))
        # "- -x" / "+ +x" must not glue into -- / ++
        if t[2][0] == "u" and t[2][1] == t[1] and t[1] in "+-":
            s = "%s %s" % (t[1], render(t[2], False))
    elif k == "b":
        s = "%s %s %s" % (render(t[2], False), t[1], render(t[3], False))
    else:
        s = "%s ? %s : %s" % (render(t[1], False), render(t[2], False), render(t[3], False))
    return s if top else "(" + s + ")"


def rootop(t):
    k = t[0]
    return "leaf" if k == "n" else "unary" + t[1] if k == "u" else t[1] if k == "b" else "?:"


def is_unsigned(t):
    """Static C type (signed intmax_t / unsigned uintmax_t) of a #if sub-expression."""
    k = t[0]
    if k == "n":
        return t[3]
    if k == "u":
        return False if t[1] == "!" else is_unsigned(t[2])
    if k == "b":
        op = t[1]
        if op in CMP or op in ("&&", "||"):
            return False
        if op in ("<<", ">>"):
            return is_unsigned(t[2])
        return is_unsigned(t[2]) or is_unsigned(t[3])
    return is_unsigned(t[2]) or is_unsigned(t[3])


class Undefined(Exception):
    """The expression has no C99-defined value (or an implementation-defined one)."""


def ref_eval(t, ev):
    """Value of t under C99 6.10.1/6.6 rules with 64-bit intmax_t; appends locus events to ev."""
    k = t[0]
    if k == "n":
        return t[2]
    if k == "u":
        v = ref_eval(t[2], ev)
        u = is_unsigned(t[2])
        op = t[1]
        if op == "!":
            return int(v == 0)
        if op == "+":
            return v
        if op == "-":
            if u:
                if v:
                    ev.append("unsigned-wrap")
                return (-v) & M64
            if v == IMIN:
                raise Undefined("overflow")
            return -v
        if u:
            ev.append("unsigned-wrap")
            return (~v) & M64
        return ~v
    if k == "t":
        c = ref_eval(t[1], ev)
        br = t[2] if c else t[3]
        v = ref_eval(br, ev)
        if is_unsigned(t) and not is_unsigned(br) and v < 0:
            ev.append("unsigned-convert")
            v &= M64
        return v
    op = t[1]
    if op == "&&":
        a = ref_eval(t[2], ev)
        return int(bool(a) and bool(ref_eval(t[3], ev)))
    if op == "||":
        a = ref_eval(t[2], ev)
        return int(bool(a) or bool(ref_eval(t[3], ev)))
    a = ref_eval(t[2], ev)
    b = ref_eval(t[3], ev)
    ua, ub = is_unsigned(t[2]), is_unsigned(t[3])
    if op in ("<<", ">>"):
        if (not ub and b < 0) or b >= 64:
            raise Undefined("shift count")
        if op == "<<":
            if ua:
                r = a << b
                if r > M64:
                    ev.append("unsigned-wrap")
                return r & M64
            if a < 0:
                raise Undefined("<< of negative")
            r = a << b
            if r > IMAX:
                raise Undefined("overflow")
            return r
        if not ua and a < 0:
            raise Undefined(">> of negative is implementation-defined")
        return a >> b
    u = ua or ub
    if u:
        if (not ua and a < 0) or (not ub and b < 0):
            ev.append("unsigned-compare" if op in CMP else "unsigned-convert")
        a &= M64
        b &= M64
    if op in CMP:
        return int({"<": a < b, ">": a > b, "<=": a <= b, ">=": a >= b, "==": a == b, "!=": a != b}[op])
    if op in ("/", "%"):
        if b == 0:
            raise Undefined("division by zero")
        if u:
            return a // b if op == "/" else a % b
        q = abs(a) // abs(b)
        if (a < 0) != (b < 0):
            q = -q
        r = a - q * b
        if q > IMAX:
            raise Undefined("overflow")
        if op == "/":
            if q != a // b:
                ev.append("div-negative")
            return q
        if r != a % b:
            ev.append("mod-negative")
        return r
    r = {"*": a * b, "+": a + b, "-": a - b, "&": a & b, "^": a ^ b, "|": a | b}[op]
    if u:
        if r < 0 or r > M64:
            ev.append("unsigned-wrap")
        return r & M64
    if r < IMIN or r > IMAX:
        raise Undefined("overflow")
    return r


def depth1(leaves, ternary=True):
    out = []
    for op in UNOPS:
        for a in leaves:
            out.append(("u", op, a))
    for op in BINOPS:
        for a in leaves:
            for b in leaves:
                out.append(("b", op, a, b))
    if ternary:
        for a in leaves:
            for b in leaves:
                for c in leaves:
                    out.append(("t", a, b, c))
    return out


def if_unit(tree):
    e = render(tree)
    src = "#if %s\nYES\n#else\nNO\n#endif\n" % e
    if "defined(D)" in e:
        src = "#define D 1\n" + src
    return src


class Family:
    """An indexable, lazily decoded list of units.  get(i) -> (src, info)."""

    def __init__(self, name, n, get):
        self.name, self.n, self.get = name, n, get


def fam_trees(name, trees):
    def get(i):
        return if_unit(trees[i]), ("I", trees[i])
    return Family(name, len(trees), get)


def fam_one_deep(name, d1, leaves):
    """Depth-2 trees with exactly one depth-1 child: unary(d), d op l, l op d, and ?: with d in each position."""
    nl, nd = len(leaves), len(d1)
    n_un = len(UNOPS) * nd
    n_bin = len(BINOPS) * 2 * nd * nl
    n_ter = 3 * nd * nl * nl

    def get(i):
        if i < n_un:
            o, d = divmod(i, nd)
            t = ("u", UNOPS[o], d1[d])
        elif i < n_un + n_bin:
            i -= n_un
            i, l = divmod(i, nl)
            i, d = divmod(i, nd)
            o, side = divmod(i, 2)
            t = ("b", BINOPS[o], d1[d], leaves[l]) if side == 0 else ("b", BINOPS[o], leaves[l], d1[d])
        else:
            i -= n_un + n_bin
            i, l2 = divmod(i, nl)
            i, l1 = divmod(i, nl)
            pos, d = divmod(i, nd)
            kids = [leaves[l1], leaves[l2]]
            kids.insert(pos, d1[d])
            t = ("t",) + tuple(kids)
        return if_unit(t), ("I", t)
    return Family(name, n_un + n_bin + n_ter, get)


def fam_two_deep(name, d1):
    nd = len(d1)

    def get(i):
        i, b = divmod(i, nd)
        o, a = divmod(i, nd)
        t = ("b", BINOPS[o], d1[a], d1[b])
        return if_unit(t), ("I", t)
    return Family(name, len(BINOPS) * nd * nd, get)


def fam_prec(name, operands):
    """a op1 b op2 c / unary a op b / a ? b : c ? d : e  -- written without parentheses; the reference tree
    is built from the C grammar's precedence table (all binary operators are left-associative, ?: is right-associative)."""
    leaves = [LEAF[x] for x in operands]
    units = []
    for o1 in BINOPS:
        for o2 in BINOPS:
            for a in leaves:
                for b in leaves:
                    for c in leaves:
                        if PREC[o2] > PREC[o1]:
                            t = ("b", o1, a, ("b", o2, b, c))
                        else:
                            t = ("b", o2, ("b", o1, a, b), c)
                        units.append(("%s %s %s %s %s" % (a[1], o1, b[1], o2, c[1]), t, "%s,%s" % (o1, o2)))
    for u in UNOPS:
        for o in BINOPS:
            for a in leaves:
                for b in leaves:
                    t = ("b", o, ("u", u, a), b)
                    units.append(("%s %s %s %s" % (u, a[1], o, b[1]), t, "unary%s,%s" % (u, o)))
    for a in leaves:
        for b in leaves:
            for c in leaves:
                for d in leaves:
                    for o in ("+", "<", "||"):
                        # ?: binds weaker than every binary operator, and groups right to left
                        t = ("t", ("b", o, a, b), c, ("t", d, a, b))
                        units.append(("%s %s %s ? %s : %s ? %s : %s" % (a[1], o, b[1], c[1], d[1], a[1], b[1]), t, "?:," + o))
                        t = ("t", a, ("t", b, c, d), ("b", o, a, b))
                        units.append(("%s ? %s ? %s : %s : %s %s %s" % (a[1], b[1], c[1], d[1], a[1], o, b[1]), t, "?:?:," + o))

    def get(i):
        e, t, label = units[i]
        return "#if %s\nYES\n#else\nNO\n#endif\n" % e, ("P", t, label)
    return Family(name, len(units), get)


# ------------------------------------------------------------------ conditional structure

IF_FORMS = [("#if 1", 1), ("#if 0", 0), ("#ifdef D", 1), ("#ifdef U", 0), ("#ifndef U", 1), ("#ifndef D", 0)]
ELIF_FORMS = [("#elif 1", 1), ("#elif 0", 0), ("#elif defined D", 1), ("#elif defined(U)", 0)]
NESTED = [
    ["#if 1", "N1", "#endif"], ["#if 0", "N1", "#endif"], ["#ifdef U", "N1", "#endif"], ["#ifndef U", "N1", "#endif"],
    ["#if 1", "N1", "#else", "N2", "#endif"], ["#if 0", "N1", "#else", "N2", "#endif"],
    ["#ifdef U", "N1", "#else", "N2", "#endif"],
    ["#if 0", "N1", "#elif 1", "N2", "#else", "N3", "#endif"], ["#if 1", "N1", "#elif 1", "N2", "#else", "N3", "#endif"],
    ["#if 0", "N1", "#elif 0", "N2", "#else", "N3", "#endif"],
    ["#if 0", "#define V 9", "#else", "#if 1", "N2", "#else", "N3", "#endif", "#endif"],
    ["#if 1", "#if 0", "N1", "#elif 1", "N2", "#endif", "#else", "N3", "#endif"],
]


def cond_units():
    units = []

    def build(opening, elifs, has_else, nest_at=None, nested=None):
        lines = ["#define D 1"]
        heads = [opening] + list(elifs) + (["#else"] if has_else else [])
        for k, h in enumerate(heads):
            lines.append(h)
            lines.append("T%d" % k)
            lines.append("#undef V")
            lines.append("#define V %d" % k)
            if nest_at == k:
                lines.extend(nested)
                lines.append("R%d" % k)
        lines.append("#endif")
        lines.append("V E")
        return "\n".join(lines) + "\n"

    for ne in range(3):
        for has_else in (False, True):
            for op, _ in IF_FORMS:
                for el in itertools.product(ELIF_FORMS, repeat=ne):
                    feat = "elif" if ne else "else" if has_else else "if"
                    units.append((build(op, [e[0] for e in el], has_else), feat))
    for ne in range(3):
        for has_else in (False, True):
            for op in ("#if 1", "#if 0"):
                for el in itertools.product(ELIF_FORMS[:2], repeat=ne):
                    nb = 1 + ne + (1 if has_else else 0)
                    for at in range(nb):
                        for nested in NESTED:
                            units.append((build(op, [e[0] for e in el], has_else, at, nested), "nested"))

    def get(i):
        return units[i][0], ("C", units[i][1])
    return Family("C", len(units), get)


# ------------------------------------------------------------------ macro definitions and uses

# (shape id, macro name, definition line).  Two shapes with the same name never occur in one unit.
DEFS = [
    ("obj", "A", "#define A 1"),
    ("obj-self", "A", "#define A (A + 1)"),
    ("obj-toB", "A", "#define A B"),
    ("obj-call", "A", "#define A f(2)"),
    ("obj-neg", "A", "#define A -1"),
    ("obj-empty", "A", "#define A"),
    ("obj-continued", "A", "#define A 1 \\\n + 2"),
    ("objB-toA", "B", "#define B A"),
    ("objB-fn", "B", "#define B f"),
    ("objB-comma", "B", "#define B 3 , A"),
    ("f1", "f", "#define f(x) (x + 1)"),
    ("f1-self", "f", "#define f(x) f(x + 1)"),
    ("f1-tog", "f", "#define f(x) g(x, 2)"),
    ("f1-unused", "f", "#define f(x) 5"),
    ("f1-twice", "f", "#define f(x) x x"),
    ("g2", "g", "#define g(x, y) y - x"),
    ("g2-tof", "g", "#define g(x, y) f(x) * y"),
    ("h0", "h", "#define h() 7"),
    ("h0-fn", "h", "#define h() f"),
    ("va", "v", "#define v(...) [ __VA_ARGS__ ]"),
    ("va1", "v", "#define v(x, ...) x { __VA_ARGS__ }"),
    ("va-str", "v", "#define v(...) #__VA_ARGS__"),
    ("str", "s", "#define s(x) #x"),
    ("str-both", "s", "#define s(x) #x + x"),
    ("xstr", "xs", "#define xs(x) s(x)"),
    ("cat", "cat", "#define cat(x, y) x ## y"),
    ("xcat", "xcat", "#define xcat(x, y) cat(x, y)"),
    ("paste-id", "p", "#define p(x) A ## x"),
    ("paste-num", "p", "#define p(x) x ## 1"),
]
# (label, text)
USES = [
    ("A", "A"), ("B", "B"), ("f", "f"), ("h", "h"), ("paren1", "(1)"), ("parenA", "(A)"), ("-A", "-A"),
    ("f(1)", "f(1)"), ("f(A)", "f(A)"), ("f(B)", "f(B)"), ("f(f(1))", "f(f(1))"), ("f((1))", "f((1))"), ("f()", "f()"),
    ("f-nl-(", "f\n(4)"), ("(f)(1)", "(f)(1)"), ("B(3)", "B(3)"), ("f(B)(3)", "f(B)(3)"),
    ("h()", "h()"), ("h( )", "h( )"), ("h()(3)", "h()(3)"),
    ("g(1,2)", "g(1, 2)"), ("g(A,B)", "g(A, B)"), ("g(paren-comma)", "g((1, 2), [3, 4])"), ("g(f(1),h())", "g(f(1), h())"),
    ("g(,)", "g(, )"), ("g(1,)", "g(1, )"), ("g(f)(9)", "g(2, f)(9)"),
    ("v()", "v()"), ("v(1)", "v(1)"), ("v(1,2,3)", "v(1, 2, 3)"), ("v(A,f(1))", "v(A, f(1))"), ("v(,)", "v( , )"),
    ("s(A)", "s(A)"), ("s(spaces)", "s(  a  +   \"b\\n\" 'c'  )"), ("s()", "s()"), ("s(esc)", "s(\"\\\\\" '\"' '\\0')"),
    ("s(s(1))", "s(s(1))"), ("s(newline)", "s(a\nb)"), ("s(comment)", "s(a/**/b)"), ("f(s(A))", "f(s(A))"), ("xs(A)", "xs(A)"), ("xs(f(1))", "xs(f(1))"),
    ("cat(A,B)", "cat(A, B)"), ("cat(1,2)", "cat(1, 2)"), ("cat(x,1)", "cat(x, 1)"), ("cat(2,u)", "cat(2, u)"),
    ("cat(1,x)", "cat(1, x)"), ("cat(,A)", "cat(, A)"), ("cat(A,)", "cat(A, )"), ("cat(,)", "cat(, )"),
    ("cat(<,=)", "cat(<, =)"), ("xcat(A,B)", "xcat(A, B)"), ("xcat(1,f(2))", "xcat(x, f(2))"),
    ("p(B)", "p(B)"), ("p(1)", "p(1)"), ("p()", "p()"),
]
_ID = re.compile(r"[A-Za-z_]\w*")
DEF_BODY_NAMES = []
for _sid, _name, _text in DEFS:
    _body = _text[len("#define ") + len(_name):]
    if _body.startswith("("):
        _body = _body[_body.index(")") + 1:]
    DEF_BODY_NAMES.append(set(_ID.findall(_body)) & set(NAMES))
USE_NAMES = [set(_ID.findall(u[1])) & set(NAMES) for u in USES]


def macro_units(max_defs, max_uses, pair_limit=None):
    """All (defs, uses) index tuples inside the bound, simplest first; relevance filter:
    every use mentions a defined macro and every definition is mentioned by a use or by another chosen body."""
    units = []
    by_size = []
    for nd in range(1, max_defs + 1):
        for ds in itertools.combinations(range(len(DEFS)), nd):
            names = [DEFS[d][1] for d in ds]
            if len(set(names)) != nd:
                continue
            by_size.append(ds)
    for nu in range(1, max_uses + 1):
        for ds in by_size:
            if pair_limit is not None and nu == 2 and len(ds) > pair_limit:
                continue
            defined = {DEFS[d][1] for d in ds}
            in_bodies = set()
            for d in ds:
                in_bodies |= DEF_BODY_NAMES[d]
            good = [u for u in range(len(USES)) if USE_NAMES[u] & defined or (USES[u][0].startswith("paren") and nu == 2)]
            for us in itertools.product(good, repeat=nu):
                mentioned = set(in_bodies)
                for u in us:
                    mentioned |= USE_NAMES[u]
                if not defined <= mentioned:
                    continue
                if not any(USE_NAMES[u] & defined for u in us):
                    continue
                units.append((ds, us))
    units.sort(key=lambda du: (len(du[0]) + len(du[1]), len(du[1]), du))
    return units


def macro_src(ds, us):
    return "\n".join(DEFS[d][2] for d in ds) + "\n" + " ".join(USES[u][1] for u in us) + "\n"


def fam_macro(units):
    def get(i):
        ds, us = units[i]
        return macro_src(ds, us), ("M", ds, us)
    return Family("M", len(units), get)


# ------------------------------------------------------------------ running the two preprocessors

_ERR = re.compile(r"^<stdin>:(\d+):\d+: (?:fatal )?error:", re.M)


def _gcc(text):
    env = dict(os.environ, LC_ALL="C")
    r = subprocess.run(GCC, input=text, capture_output=True, text=True, env=env)
    return r.returncode, r.stdout, r.stderr


def gcc_units(srcs, counters=None):
    """[src] -> [token list or None (gcc rejects the unit)], one gcc process for all units when possible."""
    from vf.gen.ctok import tokenize, split_at_markers

    def batch(idx):
        parts, starts, line = [], [], 1
        for k in idx:
            starts.append(line)
            chunk = srcs[k] + UNDEFS + "%s%d\n" % (MARK, k)
            parts.append(chunk)
            line += chunk.count("\n")
        rc, out, err = _gcc("".join(parts))
        units, order, rest = split_at_markers(tokenize(out), MARK)
        bad = set()
        for m in _ERR.finditer(err):
            ln = int(m.group(1))
            bad.add(idx[bisect.bisect_right(starts, ln) - 1])
        return rc, units, order == list(idx) and not rest, bad

    n = len(srcs)
    res = [None] * n
    idx = list(range(n))
    rc, units, ok, bad = batch(idx)
    if rc != 0 and ok and bad:
        good = [k for k in idx if k not in bad]
        rc2, units2, ok2, bad2 = batch(good) if good else (0, {}, True, set())
        if rc2 == 0 and ok2 and all(units2[k] == units[k] for k in good):
            for k in good:
                res[k] = units2[k]
            return res
    elif rc == 0 and ok:
        for k in idx:
            res[k] = units[k]
        return res
    # structure of the batch output is not trustworthy: one process per unit
    if counters is not None:
        counters["gcc_batch_fallback"] = counters.get("gcc_batch_fallback", 0) + 1
    for k in idx:
        rc, out, err = _gcc(srcs[k])
        res[k] = tokenize(out) if rc == 0 else None
    return res


class Runaway(Exception):
    pass


def ppci_unit(src):
    """-> ("ok", token values, printed text) | ("exc", exception)"""
    from ppci.lang.c import CPreProcessor, COptions, CTokenPrinter
    from ppci.lang.c.utils import LineInfo
    from vf.core import cpu_limit, CpuTimeout
    try:
        with cpu_limit(CPU_LIMIT):
            pre = CPreProcessor(COptions())
            toks = []
            for t in pre.process_file(io.StringIO(src), "u.c"):
                if isinstance(t, LineInfo):
                    continue
                toks.append(t)
                if len(toks) > 5000:
                    raise Runaway("more than 5000 tokens produced")
            f = io.StringIO()
            CTokenPrinter().dump(toks, file=f)
    except CpuTimeout:
        return ("exc", Runaway("CPU limit of %d s exceeded" % CPU_LIMIT))
    except Exception as ex:  # noqa
        return ("exc", ex)
    return ("ok", [t.val for t in toks if t.typ not in ("WS", "BOL")], f.getvalue())


def caller_of_error(exc):
    """file:function of the innermost ppci frame that is not the generic `error` helper."""
    import traceback
    tb = traceback.extract_tb(exc.__traceback__)
    for fr in reversed(tb):
        if "/ppci/" in fr.filename and fr.name not in ("error", "consume"):
            return "%s:%s" % (os.path.basename(fr.filename), fr.name)
    return "?"


def glue_kind(got, want):
    """Class of the first token of `got` that is not in `want` at the same position."""
    for i, t in enumerate(got):
        if i >= len(want) or want[i] != t:
            if t[0].isalpha() or t[0] == "_":
                return "identifier"
            if t[0].isdigit():
                return "number"
            return "punctuator"
    return "missing"


def short(toks, n=14):
    s = " ".join(toks[:n])
    return s + (" ..." if len(toks) > n else "")


_DEFINE = re.compile(r"^#define (\w+)(\()?", re.M)


def wrong_symptom(src, vals, g):
    """Name the way ppci's token sequence differs from gcc's, from the two sequences alone."""
    if "##" in vals and "##" not in g:
        return "paste/operator-left-in-output"
    if len(vals) == len(g):
        diff = [(a, b) for a, b in zip(vals, g) if a != b]
        if all(a[:1] == '"' and b[:1] == '"' for a, b in diff):
            if all(a.replace(" ", "") == b.replace(" ", "") for a, b in diff):
                return "stringify/spacing"
            return "stringify/content"
    macros = {m.group(1): bool(m.group(2)) for m in _DEFINE.finditer(src)}
    for i in range(max(len(vals), len(g))):
        a = vals[i] if i < len(vals) else None
        b = g[i] if i < len(g) else None
        if a != b:
            if b in macros:
                return "replaces-a-name-gcc-keeps/" + ("function-like" if macros[b] else "object-like")
            if a in macros:
                return "keeps-a-name-gcc-replaces/" + ("function-like" if macros[a] else "object-like")
            break
    return "tokens"


def judge(src, g):
    """Compare ppci with the gcc tokens g.  -> None (agree) | (kind, key, what)."""
    from vf.gen.ctok import tokenize
    r = ppci_unit(src)
    one = src.replace("\n", "\\n")
    if r[0] == "exc":
        ex = r[1]
        from ppci.common import CompilerError
        if isinstance(ex, CompilerError):
            return ("rejects", "rejects/" + caller_of_error(ex),
                    "ppci rejects `%s` with CompilerError(%s); gcc -pedantic-errors accepts it and gives `%s`" % (one, ex.msg, short(g)))
        if isinstance(ex, Runaway):
            return ("runaway", "runaway", "ppci does not terminate on `%s` (%s); gcc gives `%s`" % (one, ex, short(g)))
        from vf.core import exc_key
        return ("crash", exc_key("crash", ex), "ppci raises %s(%s) on `%s`; gcc gives `%s`" % (type(ex).__name__, ex, one, short(g)))
    vals, text = r[1], r[2]
    if vals != g:
        if tokenize(" ".join(vals)) != vals:
            # a ppci token whose spelling is not one preprocessing token for our tokenizer: cannot judge
            return ("unclassified", "tokenizer", "ppci token values %r do not re-lex to themselves" % (vals,))
        return ("wrong", wrong_symptom(src, vals, g), "`%s`: ppci gives `%s`, gcc gives `%s`" % (one, short(vals), short(g)))
    printed = tokenize(text)
    if printed != g:
        return ("print", "print/glue-" + glue_kind(printed, g),
                "`%s`: the token stream is right but the text written by CTokenPrinter, `%s`, re-lexes to `%s` (gcc prints `%s`)"
                % (one, text.strip().replace("\n", "\\n"), short(printed), short(g)))
    return None


def if_key(info, kind, key):
    """Locus for a failing #if unit: the first C-rule event of the reference evaluation (truncation towards zero
    differs from flooring, a negative value is converted to unsigned, an unsigned result wraps), else the operator."""
    tree = info[1]
    ev = []
    try:
        ref_eval(tree, ev)
    except Undefined:
        pass
    if ev:
        return "if-eval/" + ev[0]
    if info[0] == "P":
        return None  # decided in the parent: operator defect (seen in family I) or grouping defect
    if kind in ("crash", "rejects", "runaway", "print"):
        return "if-eval/" + key
    return "if-eval/op/" + rootop(tree)


def parse_class(label):
    a, b = label.split(",")
    if a.startswith("?:"):
        return "conditional"
    if a.startswith("unary"):
        return "unary-operand"
    return "associativity" if PREC[a] == PREC[b] else "precedence"


_FAMS = None  # set by run() before forking; closures cannot be pickled into pool tasks


def worker(p, shard):
    from vf.gen.ctok import tokenize
    fams = _FAMS
    counters = {}
    runaways = 0
    for fi, start, stop in shard:
        fam = fams[fi]
        units = [fam.get(i) for i in range(start, stop)]
        # exclusion by the reference evaluator (undefined / implementation-defined in C99)
        refs = []
        for src, info in units:
            if info[0] in ("I", "P"):
                try:
                    refs.append(("v", ref_eval(info[1], [])))
                except Undefined as u:
                    refs.append(("undef", str(u)))
            else:
                refs.append(None)
        gs = gcc_units([u[0] for u in units], counters)
        for k, (src, info) in enumerate(units):
            order = (fi << 32) | (start + k)
            g = gs[k]
            ref = refs[k]
            fam_name = info[0]
            if g is None:
                p.count("excluded_gcc_rejects")
                if ref is not None and ref[0] == "v":
                    p.count("ref_defined_but_gcc_rejects")
                    if p.counters["ref_defined_but_gcc_rejects"] <= 3:
                        p.collect("ref_defined_but_gcc_rejects_examples", render(info[1]))
                continue
            if ref is not None:
                if ref[0] == "undef":
                    p.count("excluded_undefined_in_c99")
                    continue
                want = ["YES"] if ref[1] else ["NO"]
                if g != want:
                    # our reading of the C rules differs from gcc: never a violation, but must be looked at
                    p.count("ref_vs_gcc_disagree")
                    if p.counters["ref_vs_gcc_disagree"] <= 3:
                        p.collect("ref_vs_gcc_disagree_examples", render(info[1]))
                    continue
            if fam_name == "M" and runaways >= RUNAWAY_BREAKER:
                p.count("skipped_after_runaways")
                continue
            p.add()
            p.count("units_" + fam_name)
            v = judge(src, g)
            if v is not None and v[0] == "runaway":
                runaways += 1
            if v is not None and v[0] == "unclassified":
                p.count("unclassified_tokenizer")
                continue
            if fam_name in ("I", "P"):
                p.outcome((fam_name, rootop(info[1]), tuple(g)))
                if v is not None:
                    key = if_key(info, v[0], v[1])
                    if key is None:
                        p.collect("parse_failures", (order, info[2], v[2], src))
                    else:
                        p.violation(key, v[2], {"src": src}, order=order)
            elif fam_name == "C":
                p.outcome(("C", tuple(g)))
                if v is not None:
                    p.violation("cond/%s/%s" % (info[1], v[1]), v[2], {"src": src}, order=order)
            else:
                ds, us = info[1], info[2]
                if g != tokenize(" ".join(USES[u][1] for u in us)):
                    p.outcome(("M", tuple(DEFS[d][0] for d in ds), tuple(g)))
                if v is not None:
                    # keyed in the parent, after minimisation over sub-units
                    p.collect("macro_failures", (start + k, v[0], v[1], v[2]))
    for k, v in counters.items():
        p.count(k, v)


# ------------------------------------------------------------------ bounds per tier

def leaf_sets(tier, seed):
    if tier == "thorough":
        s1 = S_ORDER[:8]
        s2 = S_ORDER[:4]
    else:
        # fixed core + one leaf chosen by the seed (every choice is inside the thorough bound)
        s1 = S_ORDER[:2] + [S_ORDER[2 + seed % 6]]
        s2 = [S_ORDER[0], S_ORDER[1 + seed % 3]]
    return [LEAF[x] for x in s1], [LEAF[x] for x in s2]


def families(tier, seed):
    s1, s2 = leaf_sets(tier, seed)
    fams = [
        fam_trees("I0", list(LEAVES)),
        fam_trees("I1", depth1(LEAVES)),
        cond_units(),
        fam_prec("P", ["0", "2", "7"] if tier == "quick" else ["0", "1", "2", "3", "7"]),
        fam_one_deep("I2a", depth1(s1), s1),
        fam_two_deep("I2b", depth1(s2, ternary=(tier == "thorough"))),
    ]
    if tier == "thorough":
        munits = macro_units(3, 2)
    else:
        munits = macro_units(3, 2, pair_limit=2)
    fams.append(fam_macro(munits))
    return fams, munits, s1, s2


def unit_context(ds, us):
    """Static feature of a (minimal failing) macro unit that names the mechanism involved."""
    defined = {DEFS[d][1]: d for d in ds}
    fn_like = {n for n, d in defined.items() if DEFS[d][2][len("#define ") + len(n):].startswith("(")}
    # macros whose replacement list ends in the name of a function-like macro
    producers = set()
    for _ in defined:
        for n, d in defined.items():
            if (_ID.findall(DEFS[d][2]) or [""])[-1] in fn_like | producers and DEFS[d][2].rstrip()[-1] != ")":
                producers.add(n)
    for u, nxt in zip(us, us[1:]):
        text = USES[u][1]
        if (text in fn_like or (_ID.findall(text) or [""])[0] in producers) and not USES[nxt][1].startswith("("):
            return "name-without-arguments"
    # recursion: a cycle in "body mentions name"
    edges = {n: DEF_BODY_NAMES[d] & set(defined) for n, d in defined.items()}
    for n in edges:
        seen, todo = set(), list(edges[n])
        while todo:
            m = todo.pop()
            if m == n:
                return "recursive-macros"
            if m not in seen:
                seen.add(m)
                todo.extend(edges[m])
    return "plain"


def key_macro_failures(ctx, munits, fails, fam_index):
    """Report only failures none of whose sub-units (fewer definitions / fewer uses) fails."""
    index = {u: i for i, u in enumerate(munits)}
    failing = {f[0]: f for f in fails}
    n_min = 0
    for i in sorted(failing):
        ds, us = munits[i]
        minimal = True
        for nd in range(len(ds) + 1):
            for sub_d in itertools.combinations(ds, nd):
                for nu in range(1, len(us) + 1):
                    for sub_u in itertools.combinations(us, nu):
                        if (sub_d, sub_u) == (ds, us):
                            continue
                        j = index.get((sub_d, sub_u))
                        if j is not None and j in failing:
                            minimal = False
        if not minimal:
            continue
        n_min += 1
        _, kind, key, what = failing[i]
        if kind == "wrong":
            if key.startswith(("paste/", "stringify/")):
                k = "macro/" + key
            else:
                ctxt = unit_context(ds, us)
                if ctxt == "plain" and key == "replaces-a-name-gcc-keeps/function-like":
                    # no recursion, so gcc kept the name only because no "(" followed it when it was scanned
                    ctxt = "name-without-arguments"
                k = "macro/wrong/" + ctxt + ("/" + key if ctxt == "plain" else "")
        else:
            k = "macro/" + key
        ctx.violation(k, what, {"src": macro_src(ds, us)}, order=(fam_index << 32) | i)
    ctx.note("macro_failing_units", len(failing))
    ctx.note("macro_minimal_failing_units", n_min)


def key_parse_failures(ctx, fails):
    """An unparenthesised unit that fails although its C-rule evaluation has no special event: blame the operator if the
    parenthesised family already shows that operator evaluating wrongly, else the grouping (precedence / associativity)."""
    bad_ops = {k[len("if-eval/op/"):] for k in ctx.violations if k.startswith("if-eval/op/")}
    explained = 0
    for order, label, what, src in sorted(fails):
        ops = set(label.replace("?:?:", "?:").split(","))
        if ops & bad_ops:
            explained += 1
            continue
        ctx.violation("if-parse/" + parse_class(label), what, {"src": src}, order=order)
    ctx.note("parse_failures", len(fails))
    ctx.note("parse_failures_explained_by_operator_defect", explained)


def run(ctx):
    global _FAMS
    fams, munits, s1, s2 = families(ctx.tier, ctx.seed)
    batch = BATCH if ctx.quick else 4 * BATCH
    items = []
    for fi, fam in enumerate(fams):
        for start in range(0, fam.n, batch):
            items.append((fi, start, min(fam.n, start + batch)))
    ctx.note("units_per_family", {f.name: f.n for f in fams})
    ctx.note("macro_bound", "<=2 definitions x <=2 uses and 3 definitions x 1 use" if ctx.quick else "<=3 definitions x <=2 uses")
    ctx.note("depth2_leaf_sets", {"one_deep_child": [l[1] for l in s1], "two_deep_children": [l[1] for l in s2]})
    for name in ("I1", "C", "I2a", "M"):
        fam = [f for f in fams if f.name == name][0]
        ctx.sample({"family": fam.name, "unit": fam.get(fam.n // 2)[0]})
    _FAMS = fams
    ctx.pmap(worker, items)
    fails = ctx.sets.pop("macro_failures", set())
    key_macro_failures(ctx, munits, fails, len(fams) - 1)
    key_parse_failures(ctx, ctx.sets.pop("parse_failures", set()))
    if ctx.counters.get("skipped_after_runaways"):
        ctx.cap("%d macro units skipped after %d non-terminating units in a worker" % (ctx.counters["skipped_after_runaways"], RUNAWAY_BREAKER))
    if ctx.counters.get("ref_vs_gcc_disagree"):
        ctx.cap("reference evaluator and gcc disagree on %d #if units (excluded, see examples)" % ctx.counters["ref_vs_gcc_disagree"])


def replay(w):
    src = w["src"]
    g = gcc_units([src])[0]
    if g is None:
        return False, "gcc rejects the unit; it is outside the property"
    v = judge(src, g)
    if v is None or v[0] == "unclassified":
        return False, "ppci and gcc give the same token sequence `%s`" % short(g)
    return True, "%s: %s" % (v[1], v[2])
