"""C38 - constant folding vs run-time IR arithmetic: exhaustive for 8-bit operand pairs, boundary lattice for wider types."""
import itertools

ID = "C38"
LEVEL = "exploration"
RULE = ("for every integer type, every binary operator and every operand pair (8-bit: all 65536 pairs; wider: V13 x V13) a "
        "const-const-binop group is folded by the real ConstantFolder; every int->int cast x all 256 (8-bit) / all 65536 (16-bit, "
        "thorough) / V13 source values; chain patterns (y op1 c1) op2 c2 for op1, op2 in {+,-} (all four combinations) for all 8-bit (c1,c2) (wider: V13 pairs); the Const "
        "left by the pass must equal the reference run-time result whenever that is defined and must lie in its type's range; additionally, for every width, "
        "one folder instance folds each operator on the operand values both signednesses share in the signed and in the unsigned type of one module, in both orders; "
        "distinct non-trivial = distinct (type, operator, folded value)")
ASSUMPTIONS = ["reference: vf/sem/irinterp.py Interp.binop/cast (wrap-around, truncating / and %, arithmetic >> for signed), validated against gcc by C01",
               "operand pairs for which the operation is undefined (division by zero, INT_MIN/-1, shift count outside [0,width)) are not compared",
               "operators the folder leaves unfolded are counted, not judged"]

GROUP = 64


def type_range(ty):
    bits = int(ty[1:])
    if ty[0] == "i":
        return -(1 << (bits - 1)), (1 << (bits - 1)) - 1
    return 0, (1 << bits) - 1


def sign_class(a, b):
    s = lambda x: "neg" if x < 0 else ("zero" if x == 0 else "pos")  # noqa
    return s(a) + "," + s(b)


def fold_batch(p, kind, ty, op, pairs):
    """kind: 'bin' (a op b), 'chain' ((y op c1) op c2), 'cast' (op = destination type, pairs = [(v, None)])."""
    from ppci import ir
    from ppci.opt.constantfolding import ConstantFolder
    from vf.gen import irgen
    from vf.sem.irinterp import Interp, Undefined
    body = []
    n = 0
    meta = []
    dst = op if kind == "cast" else ty
    if kind == "bin" and op in ("<<", ">>"):
        # shift counts far outside [0, width) are undefined operations; Python would try to build a 2^32-bit integer
        # (the pass hangs) -- that robustness problem is C03's business, here such pairs are simply not in the domain.
        pairs = [(a, b) for a, b in pairs if -64 <= b <= 64]
        if not pairs:
            return
    for a, b in pairs:
        if kind == "bin":
            body += [["const", ty, a], ["const", ty, b], ["bin", op, "%%%d" % n, "%%%d" % (n + 1), ty], ["store", "%%%d" % (n + 2), "@g", True]]
            n += 3
        elif kind == "chain":
            op1, op2 = (op[0], op[1]) if len(op) == 2 else (op, op)
            body += [["const", ty, a], ["const", ty, b], ["bin", op1, "p0", "%%%d" % n, ty], ["bin", op2, "%%%d" % (n + 2), "%%%d" % (n + 1), ty],
                     ["store", "%%%d" % (n + 3), "@g", True]]
            n += 4
        else:
            body += [["const", ty, a], ["cast", dst, "%%%d" % n], ["store", "%%%d" % (n + 1), "@g", True]]
            n += 2
        meta.append((a, b))
    body.append(["ret", "p0"])
    desc = {"name": "fold", "globals": [["g", 8, 8, None]], "functions": [{"name": "f", "ret": ty, "params": [ty], "blocks": [body]}]}
    m = irgen.build(desc)
    wit = {"kind": kind, "ty": ty, "op": op}
    try:
        ConstantFolder().run(m)
    except Exception as ex:  # noqa
        # find the culprit pair by bisection (the group is small)
        if len(pairs) > 1:
            h = len(pairs) // 2
            fold_batch(p, kind, ty, op, pairs[:h])
            fold_batch(p, kind, ty, op, pairs[h:])
            return
        a, b = pairs[0]
        ref = Interp(irgen.build({"functions": [{"name": "f", "ret": "i32", "params": [], "blocks": [[["const", "i32", 0], ["ret", "%0"]]]}]}))
        defined = True
        try:
            if kind == "bin":
                ref.binop(irgen.ty_of(ty), op, a, b)
            elif kind == "cast":
                ref.cast(irgen.ty_of(ty), irgen.ty_of(dst), a)
        except Undefined:
            defined = False
        p.add()
        if defined:
            from vf.core import exc_key
            p.violation(exc_key("fold-raises/%s/%s" % (kind, op if kind != "cast" else "cast"), ex),
                        "ConstantFolder raised %r folding %s %r %s %r (operation is defined)" % (ex, ty, a, op, b), dict(wit, a=a, b=b))
        else:
            p.count("crash_on_undefined_operands")
        return
    f = m.functions[0]
    stores = [i for i in f.blocks[0].instructions if isinstance(i, ir.Store)]
    assert len(stores) == len(meta)
    ref = Interp(m)
    T = irgen.ty_of(ty)
    D = irgen.ty_of(dst)
    lo, hi = type_range(dst)
    for st, (a, b) in zip(stores, meta):
        p.add()
        v = st.value
        w = dict(wit, a=a, b=b)
        if kind == "chain":
            op1, op2 = (op[0], op[1]) if len(op) == 2 else (op, op)
            # value must still be a Binop  y op C ; C must be in range and y op C == (y op1 a) op2 b for sample y
            if not isinstance(v, ir.Binop):
                p.count("chain_shape_other")
                continue
            consts = [x for x in (v.a, v.b) if isinstance(x, ir.Const)]
            for c in consts:
                if not (lo <= c.value <= hi):
                    p.violation("chain/%s/const-out-of-range" % op, "(y %s %d) %s %d on %s folds to a Const %d outside [%d, %d]" % (op1, a, op2, b, ty, c.value, lo, hi), w)
            if isinstance(v.a, ir.Binop) or not consts:
                p.count("chain_unfolded")
                continue
            c = consts[0]
            for y in irgen.V(ty, 7):
                try:
                    want = ref.binop(T, op2, ref.binop(T, op1, y, a), b)
                    got = ref.binop(T, v.operation, y, ref.wrap(T, c.value))
                except Undefined:
                    continue
                if want != got:
                    p.violation("chain/%s/wrong-value" % op, "(y %s %d) %s %d on %s folded to y %s %d: y=%d gives %d, expected %d" % (op1, a, op2, b, ty, v.operation, c.value, y, got, want), w)
                    break
            else:
                p.outcome((ty, "chain" + op, c.value))
            continue
        try:
            want = ref.binop(T, op, a, b) if kind == "bin" else ref.cast(T, D, a)
        except Undefined:
            want = None
        if not isinstance(v, ir.Const):
            p.count("unfolded_" + (op if kind == "bin" else "cast"))
            continue
        if not (lo <= v.value <= hi):
            p.violation("%s/%s/const-out-of-range" % (kind, op if kind == "bin" else "cast"),
                        "folding %s %r %s %r leaves Const %r outside [%d, %d]" % (ty, a, op, b, v.value, lo, hi), w)
            continue
        if want is None:
            p.count("undefined_not_compared")
            continue
        if v.value != want or isinstance(v.value, float) != isinstance(want, float):
            key = "bin/%s/%s/%s" % (op, "signed" if ty[0] == "i" else "unsigned", sign_class(a, b)) if kind == "bin" else "cast/%s->%s" % (ty[0], dst[0])
            p.violation(key, "folding %s %r %s %r gives %r, run-time IR semantics give %r" % (ty, a, op, b if kind == "bin" else "", v.value, want), w)
        else:
            p.outcome((ty, op, v.value))


def fold_mixed(p, width, op, pairs, first):
    """ONE ConstantFolder instance (one module, as api.optimize uses it) folds the same operator on the same operand values in the signed
    and in the unsigned type of one width, `first` type first: state kept by the folder between folds must not leak from one type to the other."""
    from ppci import ir
    from ppci.opt.constantfolding import ConstantFolder
    from vf.gen import irgen
    from vf.sem.irinterp import Interp, Undefined
    tys = ("i%d" % width, "u%d" % width) if first == "i" else ("u%d" % width, "i%d" % width)
    body, meta, n = [], [], 0
    for a, b in pairs:
        for ty in tys:
            body += [["const", ty, a], ["const", ty, b], ["bin", op, "%%%d" % n, "%%%d" % (n + 1), ty], ["store", "%%%d" % (n + 2), "@g", True]]
            n += 3
            meta.append((ty, a, b))
    body.append(["ret", "p0"])
    m = irgen.build({"name": "foldmixed", "globals": [["g", 8, 8, None]], "functions": [{"name": "f", "ret": "i32", "params": ["i32"], "blocks": [body]}]})
    try:
        ConstantFolder().run(m)
    except Exception:  # noqa  (crashes are judged by the per-type groups)
        p.count("mixed_group_raised")
        return
    stores = [i for i in m.functions[0].blocks[0].instructions if isinstance(i, ir.Store)]
    ref = Interp(m)
    for st, (ty, a, b) in zip(stores, meta):
        p.add()
        v = st.value
        if not isinstance(v, ir.Const):
            continue
        lo, hi = type_range(ty)
        try:
            want = ref.binop(irgen.ty_of(ty), op, a, b)
        except Undefined:
            continue
        if not (lo <= v.value <= hi) or v.value != want:
            p.violation("mixed-signedness/%s/%s-folded-after-%s" % (op, ty[0], tys[0][0] if ty != tys[0] else "nothing"),
                        "one ConstantFolder folding %s %r %s %r in a module that also folds the %s type: Const %r, run-time IR semantics give %r" % (
                            ty, a, op, b, tys[0] if ty != tys[0] else tys[1], v.value, want),
                        {"kind": "mixed", "width": width, "op": op, "a": a, "b": b, "first": first})
        else:
            p.outcome(("mixed", ty, op, v.value))


def worker(p, shard):
    for kind, ty, op, pairs in shard:
        if kind == "mixed":
            fold_mixed(p, ty[0], op, pairs, ty[1])
        else:
            fold_batch(p, kind, ty, op, pairs)


def chunks(xs, n):
    for i in range(0, len(xs), n):
        yield xs[i:i + n]


def run(ctx):
    from vf.gen import irgen
    items = []
    ops = irgen.BINOPS
    for ty in ("i8", "u8"):
        lo, hi = type_range(ty)
        allv = list(range(lo, hi + 1))
        # simplest first: order pairs by |a|+|b|
        pairs = sorted(itertools.product(allv, allv), key=lambda ab: (abs(ab[0]) + abs(ab[1]), ab))
        for op in ops:
            for ch in chunks(pairs, GROUP):
                items.append(("bin", ty, op, ch))
        for op in ("+", "-", "+-", "-+"):
            for ch in chunks(pairs if len(op) == 1 or ty == "i8" else pairs[::4], GROUP):
                items.append(("chain", ty, op, ch))
    wide = ["i16", "u16", "i32", "u32", "i64", "u64"]
    for ty in wide:
        vs = irgen.V(ty, 13)
        pairs = list(itertools.product(vs, vs))
        for op in ops:
            items.append(("bin", ty, op, pairs))
        for op in ("+", "-", "+-", "-+"):
            items.append(("chain", ty, op, pairs))
    if not ctx.quick:
        for ty in ("i16", "u16"):
            lo, hi = type_range(ty)
            # complete rows: every a against the V13 column, and the seed-selected complete 256x256 window
            vs = irgen.V(ty, 13)
            allv = list(range(lo, hi + 1))
            for op in ("%", "<<", ">>", "/"):
                for ch in chunks(list(itertools.product(allv, vs)), GROUP * 4):
                    items.append(("bin", ty, op, ch))
    # casts
    for src in irgen.INT_TYPES:
        bits = int(src[1:])
        lo, hi = type_range(src)
        if bits == 8 or (bits == 16 and not ctx.quick):
            vals = list(range(lo, hi + 1))
        else:
            vals = irgen.V(src, 13)
        for dst in irgen.INT_TYPES:
            if dst == src:
                continue
            for ch in chunks([(v, None) for v in vals], GROUP * 4):
                items.append(("cast", src, dst, ch))
    # both signednesses of one width through ONE folder instance, in both orders (operands in the range the two types share)
    for width in (8, 16, 32, 64):
        shared = [v for v in irgen.V("i%d" % width, 13) if v >= 0]
        if width == 8:
            shared = list(range(0, 128, 3)) + [126, 127]
        pairs = list(itertools.product(shared, shared))
        for op in ops:
            for first in ("i", "u"):
                for ch in chunks(pairs, GROUP):
                    items.append(("mixed", (width, first), op, ch))
    ctx.note("fold_groups", len(items))
    ctx.sample({"kind": "bin", "ty": "i8", "op": "%", "a": -7, "b": 2, "reference": -1})
    ctx.sample({"kind": "chain", "ty": "i8", "op": "+", "c1": 100, "c2": 100})
    ctx.sample({"kind": "cast", "src": "i8", "dst": "u16", "v": -1, "reference": 65535})
    ctx.pmap(worker, items, nshards=min(len(items), 256))


def replay(w):
    from vf.core import Partial
    p = Partial()
    if w["kind"] == "mixed":
        fold_mixed(p, w["width"], w["op"], [(w["a"], w["b"])], w["first"])
        if p.violations:
            k = sorted(p.violations)[0]
            return True, k + ": " + p.violations[k][1]
        return False, "both signednesses fold correctly through one folder instance"
    fold_batch(p, w["kind"], w["ty"], w["op"], [(w["a"], w["b"])])
    if p.violations:
        k = sorted(p.violations)[0]
        return True, k + ": " + p.violations[k][1]
    return False, "folded value equals run-time value"
