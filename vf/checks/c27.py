"""C27 - C integer constant expressions vs gcc: bounded-exhaustive expression trees in every constant-expression context."""
import io
import itertools

ID = "C27"
LEVEL = "exploration"
RULE = ("constant expression trees: every binary operator over every ordered pair of a 20-leaf literal alphabet (int/unsigned/long/"
        "unsigned long literals at their boundaries, narrow types through casts, a character constant), every unary operator and every "
        "cast to the 10 integer types over the leaves, ?: over a sub-alphabet, depth-2 trees over a 6-leaf alphabet (seed-rotated root "
        "operator in quick); each expression is used as the initializer of a long long global, of a global of a rotating integer type "
        "(conversion to the destination type), of a static local, as an enumerator (first, and after other enumerators with a dependent later enumerator), as a case label (against the run-time evaluation "
        "of the same expression), as an array bound and as a bit-field width; distinct non-trivial = distinct (context, operator, value)")
ASSUMPTIONS = ["oracle: gcc 12.2 -O0 on the same translation unit; expressions gcc rejects or flags (integer overflow in expression, division by "
               "zero, shift count negative/too large, left shift of a negative value) are excluded",
               "ppci: c_to_ir(x86_64); global images are read from ir.Variable.value via the reference interpreter's initial memory; "
               "functions are executed by vf/sem/irinterp.py",
               "a CompilerError (diagnostic) from ppci is counted, not a violation of this property unless the property demands conversion "
               "(a constant that does not fit its destination type); internal errors (KeyError, struct.error ...) are violations"]
CLAIM = {"technique": "bounded exhaustive enumeration of constant-expression trees x contexts on the real front end, against gcc",
         "engine": "K1 input enumeration vs gcc"}

BIN = ["+", "-", "*", "/", "%", "<<", ">>", "&", "|", "^", "<", ">", "<=", ">=", "==", "!=", "&&", "||"]
UN = ["-", "~", "!", "+"]
TYPES = ["signed char", "unsigned char", "short", "unsigned short", "int", "unsigned", "long", "unsigned long", "long long", "unsigned long long"]
LEAVES = ["0", "1", "2", "7", "(-1)", "(-7)", "2147483647", "(-2147483647-1)", "0u", "1u", "4294967295u", "2147483648u", "1L", "(-1L)",
          "9223372036854775807L", "18446744073709551615ul", "((signed char)-128)", "((unsigned char)255)", "((unsigned short)65535)", "'a'"]
SMALL = ["1", "2", "3", "7", "(-1)", "2u"]


# further operand forms of integer constant expressions: floating constants as the immediate operand of a cast, sizeof(type), _Bool casts
# (_Bool is not among them: the front end has no _Bool type at all and says so with a diagnostic)
# plus operands that are never evaluated (C99 6.6p11 example: `2 || 1 / 0` is a valid constant expression)
EXTRA_LEAVES = ["((int)2.7)", "((unsigned char)3.9)", "((long long)1e10)", "((int)0.5f)", "sizeof(int)", "sizeof(long long)", "((int)sizeof(char))",
                "(0 && (1 / 0))", "(2 || (1 / 0))", "(1 ? 2 : (1 / 0))", "(0 ? (1 % 0) : 3)", "(0 && (1 << 99))"]


def exprs(tier, seed):
    """[(expr text, operator tag)] simplest first"""
    out = [(l, "leaf") for l in LEAVES]
    out += [(l, "leaf-x") for l in EXTRA_LEAVES]
    for op in UN:
        out += [("(%s%s)" % (op, l), "un" + op + "-x") for l in EXTRA_LEAVES]
    for t in TYPES:
        out += [("((%s)%s)" % (t, l), "cast-x") for l in EXTRA_LEAVES]
    for op in BIN:
        out += [("(%s %s %s)" % (a, op, b), op + "-x") for a in EXTRA_LEAVES for b in SMALL]
        out += [("(%s %s %s)" % (b, op, a), op + "-x") for a in EXTRA_LEAVES for b in SMALL]
    for op in UN:
        out += [("(%s%s)" % (op, l), "un" + op) for l in LEAVES]
    for t in TYPES:
        out += [("((%s)%s)" % (t, l), "cast") for l in LEAVES]
    for op in BIN:
        out += [("(%s %s %s)" % (a, op, b), op) for a in LEAVES for b in LEAVES]
    for c in ("0", "1", "(-1)", "0u"):
        out += [("(%s ? %s : %s)" % (c, a, b), "?:") for a in ("1", "(-7)", "4294967295u", "(-1L)", "((signed char)-128)", "18446744073709551615ul")
                for b in ("2", "(-1)", "1u", "7")]
    roots = BIN if tier != "quick" else [BIN[seed % len(BIN)]]
    six = ["1", "7", "(-7)", "4294967295u", "(-1L)", "((signed char)-128)"]
    if tier == "quick":
        six = ["7", "(-7)", "4294967295u"]
    for op2 in roots:
        for op1 in BIN:
            for a, b, c in itertools.product(six, repeat=3):
                out.append(("((%s %s %s) %s %s)" % (a, op1, b, op2, c), "(%s)%s" % (op1, op2)))
                out.append(("(%s %s (%s %s %s))" % (a, op2, b, op1, c), "%s(%s)" % (op2, op1)))
    return out


def small_exprs():
    out = [(l, "leaf") for l in SMALL]
    for op in BIN:
        out += [("(%s %s %s)" % (a, op, b), op) for a in SMALL for b in SMALL]
    out += [("(%s%s)" % (op, l), "un" + op) for op in UN for l in SMALL]
    out += [("sizeof(%s)" % t, "sizeof") for t in TYPES]
    return out


def mk(src, ret, ctx, op, expr, globals_=()):
    return {"src": src, "fname": "f@", "ret": ret, "params": ["int"], "vectors": [[0]], "globals": list(globals_), "restore": [],
            "fam": ctx, "feat": op, "expr": expr}


def cases(tier, seed):
    out = []
    es = exprs(tier, seed)
    for i, (e, op) in enumerate(es):
        out.append(mk("long long g@ = %s; long long f@(int a){ return g@; }" % e, "long long", "global-ll", op, e, ["g@"]))
        t = TYPES[i % len(TYPES)]
        out.append(mk("%s g@ = %s; %s f@(int a){ return g@; }" % (t, e, t), t, "global-conv/" + t, op, e, ["g@"]))
    sub = es[seed % 7::7] if tier == "quick" else es
    for i, (e, op) in enumerate(sub):
        t = TYPES[(i * 3 + 1) % len(TYPES)]
        out.append(mk("long long f@(int a){ static %s s = %s; return s; }" % (t, e), "long long", "static-local/" + t, op, e))
        out.append(mk("int f@(int a){ long long v = a + (long long)%s; switch (v) { case %s: return 1; default: return 2; } }" % (e, e), "int", "case-label", op, e))
        out.append(mk("enum E@ { K@ = %s, N@ }; long long f@(int a){ return (long long)K@ * 3 + N@; }" % e, "long long", "enumerator", op, e))
        # an explicit value after other enumerators (the implicit counter is then not what the expression gives), and an enumerator defined
        # from an earlier one
        out.append(mk("enum E@ { P@ = 5, Q@, K@ = %s, N@, M@ = K@ - K@, L@ }; long long f@(int a){ return (long long)K@ * 3 + N@ + 1000 * (long long)M@ + 100000 * (long long)L@ + Q@; }" % e,
                      "long long", "enumerator-later", op, e))
    for e, op in small_exprs():
        out.append(mk("typedef char T@[%s]; unsigned long f@(int a){ return sizeof(T@); }" % e, "unsigned long", "array-bound", op, e))
        out.append(mk("int t@[%s]; unsigned long f@(int a){ return sizeof(t@) / sizeof(t@[0]); }" % e, "unsigned long", "array-bound-global", op, e))
        out.append(mk("struct S@ { unsigned x : %s; unsigned y : 3; }; struct S@ s@; unsigned f@(int a){ s@.x = 0xffffffffu; s@.y = 5; return s@.x; }" % e,
                      "unsigned", "bitfield-width", op, e))
        out.append(mk("int t@[4] = { [%s] = 9 }; int f@(int a){ return t@[0] + 2*t@[1] + 3*t@[2] + 4*t@[3]; }" % e, "int", "designator-index", op, e))
    return out


WARN = r"integer overflow in expression|division by zero|shift count|left shift of negative"
WFLAGS = ["-Woverflow", "-Wdiv-by-zero", "-Wshift-count-negative", "-Wshift-count-overflow", "-Wshift-overflow=1", "-Wshift-negative-value", "-pedantic-errors", "-fno-sanitize=all"]


def compare(p, case, gres, pres):
    from vf.core import exc_key
    ctx = case["fam"].split("/")[0]
    wit = {k: case[k] for k in ("src", "fname", "ret", "params", "globals", "restore", "fam", "feat", "expr")}
    p.add()
    if gres is None:
        p.count("gcc_rejects")
        return
    g = gres.get(0)
    if g is None or g[0] != "ok":
        p.count("excluded_ub_or_flagged")
        return
    if isinstance(pres, tuple):
        if pres[0] == "rejected":
            # gcc accepts the unit without any diagnostic (-pedantic-errors): a constant expression ppci refuses is not "evaluated as C prescribes"
            p.count("ppci_diagnostic")
            p.collect("ppci_diagnostic_contexts", ctx + ":" + pres[1][:40])
            p.violation("%s/%s/rejected" % (ctx, case["feat"]), "%s in context %s is a valid constant expression (gcc: %r) but ppci rejects it: %s" % (
                case["expr"], case["fam"], g[1], pres[1][:100]), wit)
            return
        ex = pres[1]
        p.violation(exc_key("internal/" + ctx, ex), "%s = %s in context %s: ppci raises %s: %s (gcc accepts, value %r)" % (case["expr"], g[1], case["fam"], type(ex).__name__, str(ex)[:80], g[1]), wit)
        return
    r = pres.get(0)
    if r is None or r[0] in ("horizon", "unsupported"):
        p.count("unclassified")
        return
    key = "%s/%s" % (ctx, case["feat"])
    if r[0] == "undef":
        p.violation(key + "/ir-undefined", "%s in %s: gcc gives %r, ppci's IR run is undefined: %s" % (case["expr"], case["fam"], g[1], r[1]), wit)
    elif r[1] != g[1]:
        p.violation(key + "/value", "%s in context %s evaluates to %r, gcc gives %r" % (case["expr"], case["fam"], r[1], g[1]), wit)
    elif r[2] != g[2]:
        p.violation(key + "/image", "%s in context %s: global image %r, gcc %r" % (case["expr"], case["fam"], r[2], g[2]), wit)
    else:
        p.outcome((ctx, case["feat"], g[1]))


def worker(p, shard):
    import os
    from vf.core import scratch
    from vf.oracles import gccrun
    from vf.checks.c01 import ppci_run
    cs = [c for _, c in shard]
    with scratch("C27") as d:
        gres = gccrun.run_cases(cs, d, batch=200, tag="w%d_" % os.getpid(), extra_flags=WFLAGS, warn_exclude=WARN)
    for k, c in enumerate(cs):
        g = gres[k]
        if g is None or g.get(0) is None or g[0][0] != "ok":
            compare(p, c, g, {})  # excluded by the oracle: ppci is not even run (undefined expressions may be arbitrarily costly)
            continue
        compare(p, c, g, ppci_run(c, "_%d" % k))


def run(ctx):
    cs = cases(ctx.tier, ctx.seed)
    ctx.note("cases", len(cs))
    fam = {}
    for c in cs:
        k = c["fam"].split("/")[0]
        fam[k] = fam.get(k, 0) + 1
    ctx.note("contexts", fam)
    ctx.sample(cs[0]["src"])
    ctx.sample(cs[len(cs) // 2]["src"])
    ctx.sample(cs[-1]["src"])
    ctx.pmap(worker, list(enumerate(cs)), nshards=64)


def replay(w):
    from vf.core import Partial, scratch
    from vf.oracles import gccrun
    from vf.checks.c01 import ppci_run
    case = dict(w)
    case["vectors"] = [[0]]
    p = Partial()
    with scratch("C27r") as d:
        gres = gccrun.run_cases([case], d, extra_flags=WFLAGS, warn_exclude=WARN)
    compare(p, case, gres[0], ppci_run(case, "_0"))
    if p.violations:
        k = sorted(p.violations)[0]
        return True, p.violations[k][1]
    return False, "agrees with gcc (or excluded)"
