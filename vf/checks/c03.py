"""C03 - optimisation passes keep IR well-formed and never fail: K2 search over pass sequences, checker W as invariant."""
from vf.checks import _passgraph_common as common

ID = "C03"
LEVEL = "model_checking"
RULE = common.RULE + " C03 invariant in every state: the pass returned (no exception, no CPU run-away), the independent checker W passes (one terminator per block in last position, all blocks reachable, every use dominated by its definition, exactly one phi input per predecessor, operand types agree) and ppci's own verifier accepts the module."
ASSUMPTIONS = common.ASSUMPTIONS + ["W (vf/sem/irtools.py:wellformed) computes predecessors, reachability and dominators itself (iterative set intersection), independent of ppci.graph",
                                    "two bookkeeping conditions ppci's own Verifier asserts (Block.references = real predecessors, phi inputs registered in uses) are checked too"]
CLAIM = {"engine": "K2 explicit-state search over optimisation-pass sequences (vf/passgraph.py)",
         "technique": "explicit-state model checking: BFS over pass sequences on the real passes, canonical-state dedup, structural invariant W in every state",
         "text": "Every module state reachable by pass sequences up to the stated depth (plus every prefix of the real pipeline and optimize(1/2/s)) from every enumerated initial module satisfies the well-formedness clauses of the property, and no pass raises or runs away.",
         "note": "trusted: vf/sem/irtools.py (W, clone, canon)"}


def run(ctx):
    common.run(ctx, "C03")


def replay(w):
    return common.replay(w, "C03")
