"""C36 - Python front end vs CPython: bounded-exhaustive annotated functions, python_to_ir + reference IR interpreter vs exec."""
import io
import ast
import struct
import contextlib

ID = "C36"
LEVEL = "exploration"
RULE = ("every annotated function f(a, b) of vf/gen/pygen.py (int and float twins): E expression trees of depth <= 2 over + - * // (float: + - * / //) "
        "with leaves a, b, 3 and calls of a second function; A augmented and tuple assignment for every operator; C comparisons and and/or/not "
        "conditions of depth <= 2; S statement skeletons of nesting depth <= 2 over if, if/else, while, for-range with 1 or 2 arguments, break, "
        "continue, augmented/tuple assignment, calls, recursion; L loop variable read after the loop; X externals/procedures/statements: modules "
        "compiled with python_to_ir(f, imports=...) against 9 imported functions and procedures (int, float and str parameters; every program in "
        "both signature forms, (return type, [argument types]) tuples and annotated callables): every call site (imported function on every "
        "ordered pair of leaves in each of 9 expression/statement contexts, two calls in one expression, nested calls, string-constant arguments "
        "from 3 strings, procedure calls as statements), every effect statement of a menu at every position of sequence / if / if-else / while / "
        "for skeletons with break and continue, procedures as entry point (no annotation and -> None x 17-20 bodies: pass, docstring, fall off "
        "the end, bare return last / in if / in both branches / in loops, dead code), 7 internal procedures x 7-8 callers (incl. recursion and a "
        "f -> qr -> pr chain), 6-7 plain statements (pass, docstring, name, constant, binop, discarded call) at 8-10 positions, first assignment "
        "of a local inside a compound statement, all 8 int/float signatures x a menu of return/binop/compare/assign/call bodies (the ill-typed "
        "ones are probes), and one probe per diagnostic / construct outside the subset; each function is called on all 64 argument vectors of "
        "{-7,-2,-1,0,1,2,3,7}^2; calls where CPython raises, an integer intermediate leaves 64 bits or the iteration horizon is passed are "
        "excluded; compared: the returned value (None for procedures) and, for X, the sequence of (imported function, arguments) calls; "
        "distinct non-trivial = distinct (family, mechanism tags, returned value, external call trace)")
ASSUMPTIONS = ["oracle: exec of the same source text by CPython 3.12 (the interpreter running the harness)",
               "ppci side: ppci.lang.python.python_to_ir, executed by vf/sem/irinterp.py (wrap-around i64, truncating IR '/', IEEE f64)",
               "the 64-bit / horizon exclusion is decided on an instrumented copy of the same AST (every BinOp/AugAssign result checked, "
               "every loop iteration counted); the instrumented and the plain run must return the same value",
               "programs the front end rejects with CompilerError (%, &, not, ...) or on which it crashes are counted, not judged: the "
               "property speaks about the values of code ppci compiles",
               "family X: the imported functions are defined once (c36.ext_value: ei(p,q)=2p-q+1, ef(p,q)=p-q/2+1/4, e0()=5, es(s)=sum of the UTF-8 "
               "bytes+1, procedures return nothing); on the CPython side they are real annotated Python functions that append (name, arguments) to a "
               "trace, on the IR side externals of the reference interpreter that append the same record (a str argument is read back from "
               "the interpreter's memory as a NUL-terminated UTF-8 string); strings have no other observable meaning in the property "
               "(str-typed locals, parameters and comparisons are probes)",
               "family X, judged: an internal error of python_to_ir (neither CompilerError nor NotImplementedError) on a program that uses only "
               "constructs the front end implements and documents (imports, procedures, expression statements, pass, if/else assignment) and that "
               "CPython runs is a violation keyed by the raise site inside ppci/lang/python; programs tagged 'probe' (ill-typed with respect to their "
               "own annotations, or using a construct outside the subset) are enumerated to record the front end's reaction (diagnostic, "
               "internal error, or compiles) and are never judged"]
CLAIM = {"text": "Within the bound, the IR produced by the Python front end returns CPython's value and performs CPython's sequence of calls to "
                 "imported functions, for functions and for procedures.",
         "note": "trusted: CPython, vf/sem/irinterp.py, the shared definition of the imported functions",
         "technique": "bounded exhaustive enumeration of annotated Python functions x 64 argument vectors on the real front end, against CPython "
                      "(returned value and trace of imported-function calls)",
         "engine": "K1 input enumeration vs CPython exec"}

HORIZON_TICKS = 4000
INTERP_STEPS = 60000
I64 = (-(1 << 63), (1 << 63) - 1)


class Overflow64(Exception):
    pass


class TickHorizon(Exception):
    pass


class _Instrument(ast.NodeTransformer):
    """Wrap every arithmetic result in _chk(...) and count loop iterations with _tick()."""

    def visit_BinOp(self, node):
        self.generic_visit(node)
        return ast.copy_location(ast.Call(ast.Name("_chk", ast.Load()), [node], []), node)

    def visit_AugAssign(self, node):
        self.generic_visit(node)
        tgt = node.target
        load = ast.Name(tgt.id, ast.Load())
        val = ast.Call(ast.Name("_chk", ast.Load()), [ast.BinOp(load, node.op, node.value)], [])
        return ast.copy_location(ast.Assign([ast.Name(tgt.id, ast.Store())], val), node)

    def _loop(self, node):
        self.generic_visit(node)
        node.body.insert(0, ast.Expr(ast.Call(ast.Name("_tick", ast.Load()), [], [])))
        return node

    visit_While = _loop
    visit_For = _loop

    def visit_FunctionDef(self, node):
        self.generic_visit(node)
        node.body.insert(0, ast.Expr(ast.Call(ast.Name("_tick", ast.Load()), [], [])))
        return node


class Oracle:
    """CPython evaluation of one program text (family X: in a namespace that holds the imported functions, which record their calls)."""

    def __init__(self, src, externals=False):
        self.ticks = 0
        self.trace = []
        ns = cpython_externals(self.trace) if externals else {}
        exec(compile(src, "<c36>", "exec"), ns)
        self.plain = ns["f"]
        tree = _Instrument().visit(ast.parse(src))
        ast.fix_missing_locations(tree)
        ns2 = cpython_externals(self.trace) if externals else {}
        ns2.update({"_chk": self._chk, "_tick": self._tick})
        exec(compile(tree, "<c36-instrumented>", "exec"), ns2)
        self.instr = ns2["f"]

    def _chk(self, v):
        if isinstance(v, int) and not (I64[0] <= v <= I64[1]):
            raise Overflow64()
        return v

    def _tick(self):
        self.ticks += 1
        if self.ticks > HORIZON_TICKS:
            raise TickHorizon()

    def call(self, args, ty):
        """ty: 'int' | 'float' | 'none' (what f is annotated to return)  -> ('ok', value, ticks, external call trace) | ('skip', reason)"""
        from vf.core import cpu_limit, CpuTimeout
        self.ticks = 0
        del self.trace[:]
        try:
            r2 = self.instr(*args)
        except ZeroDivisionError:
            return ("skip", "zerodivision")
        except Overflow64:
            return ("skip", "exceeds64")
        except TickHorizon:
            return ("skip", "horizon")
        except RecursionError:
            return ("skip", "horizon")
        except Exception as e:  # noqa  (UnboundLocalError, TypeError: CPython raises -> outside the property)
            return ("skip", "raises_" + type(e).__name__)
        ticks = self.ticks
        trace2 = tuple(self.trace)
        del self.trace[:]
        try:
            with cpu_limit(5):
                r = self.plain(*args)
        except CpuTimeout:
            return ("skip", "horizon")
        if type(r) is not type(r2) or repr(r) != repr(r2) or tuple(self.trace) != trace2:
            raise AssertionError("instrumented run disagrees with plain run: %r %r vs %r %r" % (r2, trace2, r, self.trace))
        want = {"int": int, "float": float, "none": type(None)}[ty]
        if type(r) is not want:
            return ("skip", "returns_" + type(r).__name__)
        if ty == "int" and not (I64[0] <= r <= I64[1]):
            return ("skip", "exceeds64")
        return ("ok", r, ticks, trace2)


def fhex(x):
    if x != x:
        return "nan"
    return struct.pack("<d", x).hex()


# ------------------------------------------------------------------ the imported world of family X
# One definition of what every imported function computes (ext_value) and of how a call is written into the trace (canon); the CPython side
# (real Python functions, cpython_externals) and the IR side (externals of the reference interpreter, interp_externals) both use it.

PYTYPES = {"int": int, "float": float, "str": str}


def ext_value(name, args):
    if name == "ei":
        return 2 * args[0] - args[1] + 1
    if name == "ef":
        return args[0] - 0.5 * args[1] + 0.25
    if name == "e0":
        return 5
    if name == "es":
        return sum(args[0].encode("utf8")) + 1
    return None  # procedures


def canon(v):
    if isinstance(v, float):
        return "f:" + fhex(v)
    if isinstance(v, str):
        return "s:" + v
    return v


def record(trace, name, args):
    for v in args:
        if type(v) is int and not (I64[0] <= v <= I64[1]):
            raise Overflow64()
    r = ext_value(name, args)
    if type(r) is int and not (I64[0] <= r <= I64[1]):
        raise Overflow64()
    trace.append((name, tuple(canon(v) for v in args)))
    return r


_EXT_SOURCE = None


def externals_source():
    """Python text of the imported functions: annotated like pygen.EXTERNALS says; procedures alternate between no return annotation and -> None."""
    global _EXT_SOURCE
    if _EXT_SOURCE is None:
        from vf.gen import pygen
        out = []
        for k, (name, (ret, params)) in enumerate(pygen.EXTERNALS.items()):
            ps = ["p%d" % i for i in range(len(params))]
            ann = " -> %s" % ret if ret else (" -> None" if k % 2 else "")
            out.append("def %s(%s)%s:\n    return _record(_trace, %r, (%s))\n" % (name, ", ".join("%s: %s" % pt for pt in zip(ps, params)), ann, name,
                                                                                   "".join(x + ", " for x in ps)))
        _EXT_SOURCE = compile("\n".join(out), "<c36-externals>", "exec")
    return _EXT_SOURCE


def cpython_externals(trace):
    ns = {"_record": record, "_trace": trace}
    exec(externals_source(), ns)
    return ns


def imports_for(form):
    """The `imports` argument of python_to_ir in one of its two documented forms."""
    from vf.gen import pygen
    if form is None:
        return None
    if form == "tuple":
        return {name: (PYTYPES[ret] if ret else None, [PYTYPES[t] for t in params]) for name, (ret, params) in pygen.EXTERNALS.items()}
    ns = cpython_externals([])
    return {name: ns[name] for name in pygen.EXTERNALS}


def read_c_string(interp, addr):
    """The NUL-terminated UTF-8 string at addr in the reference interpreter's memory (Undefined when it runs out of its object)."""
    out = bytearray()
    while True:
        b = interp.read_bytes(addr + len(out), 1)
        if b == b"\0":
            return out.decode("utf8")
        out += b


def interp_externals(trace):
    from vf.gen import pygen

    def mk(name, params):
        def fn(interp, args):
            if len(args) != len(params):
                from vf.sem.irinterp import Undefined
                raise Undefined("%s called with %d arguments, expects %d" % (name, len(args), len(params)))
            return record(trace, name, [read_c_string(interp, a) if t == "str" else a for t, a in zip(params, args)])
        return fn
    return {name: mk(name, params) for name, (ret, params) in pygen.EXTERNALS.items()}


def python2ir_site(exc):
    """innermost frame of the traceback inside ppci/lang/python (where the front end went wrong), else the innermost ppci frame"""
    import os
    import traceback
    from vf.core import innermost_ppci_frame
    inner = innermost_ppci_frame(exc)
    for fr in reversed(traceback.extract_tb(exc.__traceback__)):
        if "/ppci/lang/python/" in fr.filename:
            site = "%s:%s" % (os.path.basename(fr.filename), fr.name)
            # when the error surfaces deeper (the IR verifier, an ir.* constructor) the key names both ends
            return site if site == inner else site + ">" + inner
    return inner


def compile_ppci(src, form=None):
    """-> ('ok', module) | ('rejected', msg) | ('crash', exc)"""
    from ppci.lang.python import python_to_ir
    from ppci.common import CompilerError
    sink = io.StringIO()
    try:
        with contextlib.redirect_stdout(sink):
            if form is None:
                m = python_to_ir(io.StringIO(src))
            else:
                m = python_to_ir(io.StringIO(src), imports=imports_for(form))
        return ("ok", m)
    except CompilerError as e:
        return ("rejected", str(e.msg)[:60])
    except NotImplementedError as e:
        # the front end's explicit "not implemented" (python2ir.gen_function: a function whose last block is open): unsupported, said so
        return ("rejected", "NotImplementedError in " + python2ir_site(e))
    except Exception as e:  # noqa
        return ("crash", e)


def run_ppci(m, args, trace=None):
    from vf.sem.irinterp import run_function
    if trace is None:
        return run_function(m, "f", args, max_steps=INTERP_STEPS)
    return run_function(m, "f", args, max_steps=INTERP_STEPS, externals=interp_externals(trace))


def sign_class(a, b):
    return "mixed-signs" if (a < 0) != (b < 0) else "same-signs"


# ------------------------------------------------------------------ locus keys

_probe_cache = {}


def probe_binop(op, ty, va, vb):
    """Does the one-operator function `return a op b` already disagree with CPython on (va, vb)?  -> True/False/None (not judged)"""
    key = (op, ty)
    if key not in _probe_cache:
        src = "def f(a: %s, b: %s) -> %s:\n    return a %s b\n" % (ty, ty, ty, op)
        st = compile_ppci(src)
        _probe_cache[key] = (src, st[1] if st[0] == "ok" else None)
    src, m = _probe_cache[key]
    if m is None:
        return None
    try:
        want = eval("a %s b" % op, {"a": va, "b": vb})
    except ZeroDivisionError:
        return None
    if ty == "int" and not (I64[0] <= want <= I64[1]):
        return None
    r = run_ppci(m, (va, vb))
    if r[0] != "ok":
        return True
    got = r[1][0]
    return got != (want if ty == "int" else fhex(want))


def expr_key(prog, args):
    """Locus inside an expression: the first sub-expression (post-order over the real AST of the text) whose single operator already
    computes a wrong value on the operand values CPython sees there.  -> key or None (then it is the composition that is wrong)."""
    ty = prog["ty"]
    tree = ast.parse(prog["src"])
    fdef = [n for n in tree.body if n.name == "f"][0]
    env = {"a": args[0], "b": args[1]}
    for n in tree.body:
        if n.name != "f":
            ns = {}
            exec(compile(ast.Module([n], []), "<g>", "exec"), ns)
            env.update({k: v for k, v in ns.items() if k != "__builtins__"})
    found = []

    def visit(node):
        for ch in ast.iter_child_nodes(node):
            if found:
                return
            visit(ch)
        if found or not isinstance(node, ast.BinOp):
            return
        try:
            vl = eval(compile(ast.Expression(node.left), "<l>", "eval"), dict(env))
            vr = eval(compile(ast.Expression(node.right), "<r>", "eval"), dict(env))
        except Exception:  # noqa
            return
        op = BINOPS.get(type(node.op))
        if op and probe_binop(op, ty, vl, vr):
            found.append((op, vl, vr))

    visit(fdef)
    if found:
        op, vl, vr = found[0]
        return binop_key("binop", op, ty, vl, vr)
    return None


BINOPS = {ast.Add: "+", ast.Sub: "-", ast.Mult: "*", ast.FloorDiv: "//", ast.Div: "/"}


def binop_key(prefix, op, ty, vl, vr):
    from vf.gen import pygen
    k = "%s/%s/%s" % (prefix, pygen.OPNAME[op], ty)
    if ty == "int":
        k += "/" + sign_class(vl, vr)
    return k


def mechanism(prog):
    """Statement-level mechanism of a skeleton, from its tags: the loop kind and what its body contains."""
    feat = prog["feat"]
    fam = prog["fam"]
    if fam == "X":
        return "x/" + feat[0]
    if fam == "C":
        return "cond/" + feat[0]
    if fam == "L":
        return "for/loopvar-after-loop"
    if fam == "A":
        return "assign/tuple" if "tuple" in feat else "augassign"
    if fam == "E":
        return "expr/call" if "call" in feat else "expr"
    loop = [t for t in feat if t.split("/")[0] in ("for1", "for2", "while")]
    inner = [t for t in feat if t.endswith("-inner")]
    outer_for = bool(loop) and loop[0].startswith("for")
    inner_for = bool(inner) and inner[0].startswith("for")
    # control flow inside the body of a `for` (wherever that loop sits) is one mechanism: gen_for feeds the loop phi from the first
    # body block, and `continue` targets the test block without passing the increment
    if (outer_for and "continue" in feat) or (inner_for and "inner-continue" in feat):
        return "for/continue"
    if (outer_for and ("break" in feat or "nested" in feat)) or (inner_for and "inner-break" in feat):
        return "for/nested-phi"
    if not loop:
        if inner:
            return "if/nested-" + ("for" if inner[0].startswith("for") else "while")
        if "recursion" in feat:
            return "call/recursion"
        if "call" in feat:
            return "if/call"
        return "if/nested-if" if "nested" in feat else "if"
    outer = "for" if outer_for else "while"
    if "continue" in feat:
        return outer + "/continue"
    if "break" in feat:
        return outer + "/break"
    if "nested" in feat:
        return outer + "/nested-" + (("for" if inner[0].startswith("for") else "while") if inner else "if")
    if "call" in feat:
        return outer + "/call"
    return outer + "/" + ("boolcond" if "boolcond" in loop[0] else "simple-body")


def locus(prog, args, kind):
    """kind: 'value' | 'trace' | 'ir-undefined' | 'diverges' | 'frontend-crash/<exception type>'"""
    ty = prog["ty"]
    fam = prog["fam"]
    if fam == "X":
        return "%s/%s" % (mechanism(prog), kind)
    if fam in ("E", "A") and not kind.startswith("frontend-crash") and "tuple" not in prog["feat"]:
        if fam == "A":
            from vf.gen import pygen
            node = [n for n in ast.walk(ast.parse(prog["src"])) if isinstance(n, ast.AugAssign)][0]
            return "augassign/%s/%s" % (pygen.OPNAME[BINOPS[type(node.op)]], ty)
        k = expr_key(prog, args)
        if k:
            return k
        return "%s/composition/%s/%s" % (mechanism(prog), ty, kind)
    mech = mechanism(prog)
    if fam == "S" or fam == "L":
        return "%s/%s" % (mech, kind)
    return "%s/%s/%s" % (mech, ty, kind)


def second_opinion(m, args, trace=None):
    """The same IR executed by ppci's own ir_to_python backend -> value | None (no opinion).  trace: list that receives the calls of the
    numeric imported functions (a module that calls one with a string argument gets no opinion)."""
    from vf.core import cpu_limit, CpuTimeout
    try:
        from ppci.api import ir_to_python
        from vf.gen import pygen
        f = io.StringIO()
        ir_to_python([m], f)
        ns = {}
        sink = io.StringIO()
        with contextlib.redirect_stdout(sink):
            exec(compile(f.getvalue(), "<ir2py>", "exec"), ns)
            if trace is not None:
                for name, (ret, params) in pygen.EXTERNALS.items():
                    if "str" not in params:
                        ns["rt"].externals[name] = (lambda *a, _n=name: record(trace, _n, list(a)))
            with cpu_limit(5):
                return ns["f"](*args)
    except CpuTimeout:
        return None
    except Exception:  # noqa
        return None


# ------------------------------------------------------------------ one program

def call_vector(args, sig):
    return tuple(int(x) if t == "int" else float(x) for x, t in zip(args, sig))


def show_trace(tr):
    return "[" + ", ".join("%s(%s)" % (n, ", ".join(repr(struct.unpack("<d", bytes.fromhex(v[2:]))[0]) if isinstance(v, str) and v.startswith("f:") and v != "f:nan"
                                                         else repr(v[2:]) if isinstance(v, str) and v.startswith("s:") else repr(v) for v in a)) for n, a in tr) + "]"


def check_program(p, prog, vectors, base=0):
    ty = prog["ty"]
    isx = prog["fam"] == "X"
    sig = tuple(prog.get("sig") or (ty, ty))
    ret = prog.get("ret") or ty
    form = prog.get("imports")
    probe = "probe" in prog["feat"]
    st = compile_ppci(prog["src"], form)
    wit0 = {"src": prog["src"], "ty": ty, "fam": prog["fam"], "feat": list(prog["feat"])}
    if isx:
        wit0.update(sig=list(sig), ret=ret, imports=form)
    text = prog["src"].strip().replace("\n", " | ")
    if form:
        text += "   [python_to_ir(.., imports={name: %s, ..})]" % ("(return type, [argument types])" if form == "tuple" else "annotated function")
    if st[0] == "rejected":
        # a diagnostic: the front end declares the construct unsupported -> outside the supported subset
        p.add()
        p.count("frontend_rejects")
        p.collect("frontend_reject_messages", st[1].split(" <")[0])
        if isx:
            p.count("x_rejected_probes" if probe else "x_rejected_programs_of_the_subset")
            if not probe:
                p.collect("x_rejected_programs_of_the_subset", "%s: %s" % (prog["feat"][0], st[1].split(" <")[0]))
        return
    orc = Oracle(prog["src"], externals=isx)
    if st[0] == "crash":
        # an internal error (not a diagnostic) on a function made only of constructs the property names; judged only when CPython
        # itself runs the function for at least one argument vector
        p.add()
        if probe:
            # a construct (or an ill-typed program) outside the subset, enumerated only to record how the front end reacts: not judged
            p.count("x_probe_frontend_crashes")
            p.collect("x_probe_frontend_crashes", "%s: %s at %s" % ("/".join(t for t in prog["feat"] if t != "probe"), type(st[1]).__name__, python2ir_site(st[1])))
            return
        runs = [a for a in vectors if orc.call(call_vector(a, sig), ret)[0] == "ok"]
        if not runs:
            p.count("frontend_crash_on_function_cpython_never_runs")
            return
        p.count("frontend_crashes")
        if isx:
            # one defect of the front end = one raise site, whatever program reaches it
            key = "x/frontend-crash/%s/%s" % (type(st[1]).__name__, python2ir_site(st[1]))
        else:
            key = locus(prog, runs[0], "frontend-crash/" + type(st[1]).__name__)
        p.violation(key, "%s: python_to_ir raises %s (%s: %s) instead of compiling this function; CPython runs it"
                    % (text, type(st[1]).__name__, python2ir_site(st[1]), str(st[1])[:80]), dict(wit0, args=list(runs[0])), base)
        return
    m = st[1]
    if isx:
        p.count("x_probes_compiled" if probe else "x_programs_compiled")
    for vi, args in enumerate(vectors):
        p.add()
        order = base + vi
        call_args = call_vector(args, sig)
        o = orc.call(call_args, ret)
        if o[0] == "skip":
            p.count("excluded_" + o[1])
            continue
        want, ticks, want_trace = o[1], o[2], o[3]
        got_trace = [] if isx else None
        r = run_ppci(m, call_args, got_trace)
        wit = dict(wit0, args=list(args))
        head = "%s%r" % (text, call_args)
        if r[0] == "unsupported":
            p.count("unclassified_interp_unsupported")
            continue
        if probe and r[0] != "ok":
            p.count("x_probe_compiled_but_differs")
            p.collect("x_probe_compiled_but_differs", "/".join(t for t in prog["feat"] if t != "probe"))
            continue
        if r[0] == "horizon":
            if ticks * 40 + 2000 < INTERP_STEPS:
                p.violation(locus(prog, call_args, "diverges"), "%s: CPython returns %r after %d iterations, ppci's IR is still running after %d blocks"
                            % (head, want, ticks, INTERP_STEPS), wit, order)
            else:
                p.count("unclassified_interp_horizon")
            continue
        if r[0] == "undef":
            p.violation(locus(prog, call_args, "ir-undefined"), "%s: CPython returns %r, ppci's IR has no defined result: %s" % (head, want, r[1]), wit, order)
            continue
        got = r[1][0]
        exp = want if ret != "float" else fhex(want)
        if isx:
            got_trace = tuple(got_trace)
        if probe and (got != exp or got_trace != want_trace):
            # outside the subset (ill-typed, or a construct the subset gives no meaning to, e.g. comparing strings): recorded, not judged
            p.count("x_probe_compiled_but_differs")
            p.collect("x_probe_compiled_but_differs", "/".join(t for t in prog["feat"] if t != "probe"))
            continue
        if got != exp or (isx and got_trace != want_trace):
            so_trace = [] if isx else None
            so = second_opinion(m, call_args, so_trace)
            if (so is not None or ret == "none") and type(so) is type(want) and (so if ret != "float" else fhex(so)) == exp and (not isx or tuple(so_trace) == want_trace):
                # ppci's own second executor of the same IR sides with CPython: the two IR executors disagree, nothing is concluded
                p.count("unclassified_ir_executors_disagree")
                continue
            if got != exp:
                shown = got if ret != "float" else (struct.unpack("<d", bytes.fromhex(got))[0] if got != "nan" else got)
                p.violation(locus(prog, call_args, "value"), "%s: ppci's IR returns %r, CPython returns %r" % (head, shown, want), wit, order)
            else:
                p.violation(locus(prog, call_args, "trace"), "%s: both return %r, but ppci's IR calls the imported functions as %s, CPython as %s"
                            % (head, want, show_trace(got_trace), show_trace(want_trace)), wit, order)
        elif isx:
            p.outcome(("X", prog["feat"], ty, exp, want_trace))
        else:
            p.outcome((prog["fam"], prog["feat"], ty, exp))


def worker(p, shard):
    from vf.gen import pygen
    vectors = [(a, b) for a in pygen.ARGS for b in pygen.ARGS]
    # simplest vectors first: the witness recorded for a key is the one with the smallest operands
    vectors.sort(key=lambda v: (abs(v[0]) + abs(v[1]), v))
    for idx, prog in shard:
        # order of a witness = position in the global simplest-first enumeration
        check_program(p, prog, vectors, base=idx * 64)


def run(ctx):
    from vf.gen import pygen
    progs = pygen.programs(ctx.tier)
    fam = {}
    for g in progs:
        k = g["fam"] + "/" + g["ty"]
        fam[k] = fam.get(k, 0) + 1
    ctx.note("functions", len(progs))
    ctx.note("families", fam)
    ctx.note("argument_vectors", 64)
    xs = [q for q in progs if q["fam"] == "X"]
    xm = {}
    for g in xs:
        xm[g["feat"][0]] = xm.get(g["feat"][0], 0) + 1
    ctx.note("x_mechanisms", xm)
    ctx.note("x_imported_functions", {n: "%s(%s)" % (r or "procedure", ", ".join(a)) for n, (r, a) in pygen.EXTERNALS.items()})
    for g in (progs[0], [q for q in progs if q["fam"] == "S" and "nested" in q["feat"]][0], [q for q in progs if q["fam"] == "C"][40],
              [q for q in xs if q["feat"][0] == "procedure-internal" and "recursive" in q["feat"]][0]):
        ctx.sample({"src": g["src"], "family": g["fam"], "mechanisms": list(g["feat"])})
    ctx.pmap(worker, list(enumerate(progs)))


def replay(w):
    from vf.core import Partial
    p = Partial()
    prog = {"src": w["src"], "ty": w["ty"], "fam": w["fam"], "feat": tuple(w["feat"])}
    for k in ("sig", "ret", "imports"):
        if k in w:
            prog[k] = tuple(w[k]) if k == "sig" else w[k]
    check_program(p, prog, [tuple(w["args"])])
    if p.violations:
        k = sorted(p.violations)[0]
        return True, k + ": " + p.violations[k][1]
    return False, "ppci's IR returns what CPython returns for this call (or the call is excluded)"
