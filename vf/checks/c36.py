"""C36 - Python front end vs CPython: bounded-exhaustive annotated functions, python_to_ir + reference IR interpreter vs exec."""
import io
import ast
import struct
import contextlib

ID = "C36"
LEVEL = "exploration"
RULE = ("every annotated function f(a, b) of vf/gen/pygen.py (int and float twins): E expression trees of depth <= 2 over + - * // "
        "(float: + - * / //) with leaves a, b, 3 and calls of a second function; A augmented and tuple assignment for every operator; "
        "C comparisons and and/or/not conditions of depth <= 2; S statement skeletons of nesting depth <= 2 over if, if/else, while, "
        "for-range with 1 or 2 arguments, break, continue, augmented/tuple assignment, calls, recursion; L loop variable read after the "
        "loop; each function is called on all 64 argument vectors of {-7,-2,-1,0,1,2,3,7}^2; calls where CPython raises, an integer "
        "intermediate leaves 64 bits or the iteration horizon is passed are excluded; distinct non-trivial = distinct "
        "(family, mechanism tags, returned value)")
ASSUMPTIONS = ["oracle: exec of the same source text by CPython 3.12 (the interpreter running the harness)",
               "ppci side: ppci.lang.python.python_to_ir, executed by vf/sem/irinterp.py (wrap-around i64, truncating IR '/', IEEE f64)",
               "the 64-bit / horizon exclusion is decided on an instrumented copy of the same AST (every BinOp/AugAssign result checked, "
               "every loop iteration counted); the instrumented and the plain run must return the same value",
               "programs the front end rejects with CompilerError (%, &, not, ...) or on which it crashes are counted, not judged: the "
               "property speaks about the values of code ppci compiles"]
CLAIM = {"technique": "bounded exhaustive enumeration of annotated Python functions x 64 argument vectors on the real front end, against CPython",
         "engine": "K1 input enumeration vs CPython exec"}

HORIZON_TICKS = 4000
INTERP_STEPS = 60000
I64 = (-(1 << 63), (1 << 63) - 1)


class Overflow64(Exception):
    pass


class TickHorizon(Exception):
    pass


class _Instrument(ast.NodeTransformer):
    """Wrap every arithmetic result in _chk(...) and count loop iterations with _tick()."""

    def visit_BinOp(self, node):
        self.generic_visit(node)
        return ast.copy_location(ast.Call(ast.Name("_chk", ast.Load()), [node], []), node)

    def visit_AugAssign(self, node):
        self.generic_visit(node)
        tgt = node.target
        load = ast.Name(tgt.id, ast.Load())
        val = ast.Call(ast.Name("_chk", ast.Load()), [ast.BinOp(load, node.op, node.value)], [])
        return ast.copy_location(ast.Assign([ast.Name(tgt.id, ast.Store())], val), node)

    def _loop(self, node):
        self.generic_visit(node)
        node.body.insert(0, ast.Expr(ast.Call(ast.Name("_tick", ast.Load()), [], [])))
        return node

    visit_While = _loop
    visit_For = _loop

    def visit_FunctionDef(self, node):
        self.generic_visit(node)
        node.body.insert(0, ast.Expr(ast.Call(ast.Name("_tick", ast.Load()), [], [])))
        return node


class Oracle:
    """CPython evaluation of one program text."""

    def __init__(self, src):
        self.ticks = 0
        ns = {}
        exec(compile(src, "<c36>", "exec"), ns)
        self.plain = ns["f"]
        tree = _Instrument().visit(ast.parse(src))
        ast.fix_missing_locations(tree)
        ns2 = {"_chk": self._chk, "_tick": self._tick}
        exec(compile(tree, "<c36-instrumented>", "exec"), ns2)
        self.instr = ns2["f"]

    def _chk(self, v):
        if isinstance(v, int) and not (I64[0] <= v <= I64[1]):
            raise Overflow64()
        return v

    def _tick(self):
        self.ticks += 1
        if self.ticks > HORIZON_TICKS:
            raise TickHorizon()

    def call(self, args, ty):
        """-> ('ok', value, ticks) | ('skip', reason)"""
        from vf.core import cpu_limit, CpuTimeout
        self.ticks = 0
        try:
            r2 = self.instr(*args)
        except ZeroDivisionError:
            return ("skip", "zerodivision")
        except Overflow64:
            return ("skip", "exceeds64")
        except TickHorizon:
            return ("skip", "horizon")
        except RecursionError:
            return ("skip", "horizon")
        except Exception as e:  # noqa  (UnboundLocalError, TypeError: CPython raises -> outside the property)
            return ("skip", "raises_" + type(e).__name__)
        ticks = self.ticks
        try:
            with cpu_limit(5):
                r = self.plain(*args)
        except CpuTimeout:
            return ("skip", "horizon")
        if type(r) is not type(r2) or repr(r) != repr(r2):
            raise AssertionError("instrumented run disagrees with plain run: %r vs %r" % (r2, r))
        want = int if ty == "int" else float
        if type(r) is not want:
            return ("skip", "returns_" + type(r).__name__)
        if ty == "int" and not (I64[0] <= r <= I64[1]):
            return ("skip", "exceeds64")
        return ("ok", r, ticks)


def fhex(x):
    if x != x:
        return "nan"
    return struct.pack("<d", x).hex()


def compile_ppci(src):
    """-> ('ok', module) | ('rejected', msg) | ('crash', exc)"""
    from ppci.lang.python import python_to_ir
    from ppci.common import CompilerError
    sink = io.StringIO()
    try:
        with contextlib.redirect_stdout(sink):
            m = python_to_ir(io.StringIO(src))
        return ("ok", m)
    except CompilerError as e:
        return ("rejected", str(e.msg)[:60])
    except Exception as e:  # noqa
        return ("crash", e)


def run_ppci(m, args):
    from vf.sem.irinterp import run_function
    return run_function(m, "f", args, max_steps=INTERP_STEPS)


def sign_class(a, b):
    return "mixed-signs" if (a < 0) != (b < 0) else "same-signs"


# ------------------------------------------------------------------ locus keys

_probe_cache = {}


def probe_binop(op, ty, va, vb):
    """Does the one-operator function `return a op b` already disagree with CPython on (va, vb)?  -> True/False/None (not judged)"""
    key = (op, ty)
    if key not in _probe_cache:
        src = "def f(a: %s, b: %s) -> %s:\n    return a %s b\n" % (ty, ty, ty, op)
        st = compile_ppci(src)
        _probe_cache[key] = (src, st[1] if st[0] == "ok" else None)
    src, m = _probe_cache[key]
    if m is None:
        return None
    try:
        want = eval("a %s b" % op, {"a": va, "b": vb})
    except ZeroDivisionError:
        return None
    if ty == "int" and not (I64[0] <= want <= I64[1]):
        return None
    r = run_ppci(m, (va, vb))
    if r[0] != "ok":
        return True
    got = r[1][0]
    return got != (want if ty == "int" else fhex(want))


def expr_key(prog, args):
    """Locus inside an expression: the first sub-expression (post-order over the real AST of the text) whose single operator already
    computes a wrong value on the operand values CPython sees there.  -> key or None (then it is the composition that is wrong)."""
    ty = prog["ty"]
    tree = ast.parse(prog["src"])
    fdef = [n for n in tree.body if n.name == "f"][0]
    env = {"a": args[0], "b": args[1]}
    for n in tree.body:
        if n.name != "f":
            ns = {}
            exec(compile(ast.Module([n], []), "<g>", "exec"), ns)
            env.update({k: v for k, v in ns.items() if k != "__builtins__"})
    found = []

    def visit(node):
        for ch in ast.iter_child_nodes(node):
            if found:
                return
            visit(ch)
        if found or not isinstance(node, ast.BinOp):
            return
        try:
            vl = eval(compile(ast.Expression(node.left), "<l>", "eval"), dict(env))
            vr = eval(compile(ast.Expression(node.right), "<r>", "eval"), dict(env))
        except Exception:  # noqa
            return
        op = BINOPS.get(type(node.op))
        if op and probe_binop(op, ty, vl, vr):
            found.append((op, vl, vr))

    visit(fdef)
    if found:
        op, vl, vr = found[0]
        return binop_key("binop", op, ty, vl, vr)
    return None


BINOPS = {ast.Add: "+", ast.Sub: "-", ast.Mult: "*", ast.FloorDiv: "//", ast.Div: "/"}


def binop_key(prefix, op, ty, vl, vr):
    from vf.gen import pygen
    k = "%s/%s/%s" % (prefix, pygen.OPNAME[op], ty)
    if ty == "int":
        k += "/" + sign_class(vl, vr)
    return k


def mechanism(prog):
    """Statement-level mechanism of a skeleton, from its tags: the loop kind and what its body contains."""
    feat = prog["feat"]
    fam = prog["fam"]
    if fam == "C":
        return "cond/" + feat[0]
    if fam == "L":
        return "for/loopvar-after-loop"
    if fam == "A":
        return "assign/tuple" if "tuple" in feat else "augassign"
    if fam == "E":
        return "expr/call" if "call" in feat else "expr"
    loop = [t for t in feat if t.split("/")[0] in ("for1", "for2", "while")]
    inner = [t for t in feat if t.endswith("-inner")]
    outer_for = bool(loop) and loop[0].startswith("for")
    inner_for = bool(inner) and inner[0].startswith("for")
    # control flow inside the body of a `for` (wherever that loop sits) is one mechanism: gen_for feeds the loop phi from the first
    # body block, and `continue` targets the test block without passing the increment
    if (outer_for and "continue" in feat) or (inner_for and "inner-continue" in feat):
        return "for/continue"
    if (outer_for and ("break" in feat or "nested" in feat)) or (inner_for and "inner-break" in feat):
        return "for/nested-phi"
    if not loop:
        if inner:
            return "if/nested-" + ("for" if inner[0].startswith("for") else "while")
        if "recursion" in feat:
            return "call/recursion"
        if "call" in feat:
            return "if/call"
        return "if/nested-if" if "nested" in feat else "if"
    outer = "for" if outer_for else "while"
    if "continue" in feat:
        return outer + "/continue"
    if "break" in feat:
        return outer + "/break"
    if "nested" in feat:
        return outer + "/nested-" + (("for" if inner[0].startswith("for") else "while") if inner else "if")
    if "call" in feat:
        return outer + "/call"
    return outer + "/" + ("boolcond" if "boolcond" in loop[0] else "simple-body")


def locus(prog, args, kind):
    """kind: 'value' | 'ir-undefined' | 'diverges' | 'frontend-crash/<exception type>'"""
    ty = prog["ty"]
    fam = prog["fam"]
    if fam in ("E", "A") and not kind.startswith("frontend-crash") and "tuple" not in prog["feat"]:
        if fam == "A":
            from vf.gen import pygen
            node = [n for n in ast.walk(ast.parse(prog["src"])) if isinstance(n, ast.AugAssign)][0]
            return "augassign/%s/%s" % (pygen.OPNAME[BINOPS[type(node.op)]], ty)
        k = expr_key(prog, args)
        if k:
            return k
        return "%s/composition/%s/%s" % (mechanism(prog), ty, kind)
    mech = mechanism(prog)
    if fam == "S" or fam == "L":
        return "%s/%s" % (mech, kind)
    return "%s/%s/%s" % (mech, ty, kind)


def second_opinion(m, args):
    """The same IR executed by ppci's own ir_to_python backend -> value | None (no opinion)."""
    from vf.core import cpu_limit, CpuTimeout
    try:
        from ppci.api import ir_to_python
        f = io.StringIO()
        ir_to_python([m], f)
        ns = {}
        sink = io.StringIO()
        with contextlib.redirect_stdout(sink):
            exec(compile(f.getvalue(), "<ir2py>", "exec"), ns)
            with cpu_limit(5):
                return ns["f"](*args)
    except CpuTimeout:
        return None
    except Exception:  # noqa
        return None


# ------------------------------------------------------------------ one program

def check_program(p, prog, vectors, base=0):
    from vf.core import exc_key
    ty = prog["ty"]
    st = compile_ppci(prog["src"])
    wit0 = {"src": prog["src"], "ty": ty, "fam": prog["fam"], "feat": list(prog["feat"])}
    text = prog["src"].strip().replace("\n", " | ")
    if st[0] == "rejected":
        # a diagnostic: the front end declares the construct unsupported -> outside the supported subset
        p.add()
        p.count("frontend_rejects")
        p.collect("frontend_reject_messages", st[1].split(" <")[0])
        return
    orc = Oracle(prog["src"])
    if st[0] == "crash":
        # an internal error (not a diagnostic) on a function made only of constructs the property names; judged only when CPython
        # itself runs the function for at least one argument vector
        p.add()
        runs = [a for a in vectors if orc.call(tuple(a) if ty == "int" else tuple(float(x) for x in a), ty)[0] == "ok"]
        if not runs:
            p.count("frontend_crash_on_function_cpython_never_runs")
            return
        p.count("frontend_crashes")
        p.violation(locus(prog, runs[0], "frontend-crash/" + type(st[1]).__name__), "%s: python_to_ir raises %s (%s) instead of compiling this function; CPython runs it"
                    % (text, type(st[1]).__name__, exc_key("python_to_ir", st[1]).split("/", 2)[2]), dict(wit0, args=list(runs[0])), base)
        return
    m = st[1]
    for vi, args in enumerate(vectors):
        p.add()
        order = base + vi
        call_args = tuple(args) if ty == "int" else tuple(float(x) for x in args)
        o = orc.call(call_args, ty)
        if o[0] == "skip":
            p.count("excluded_" + o[1])
            continue
        want, ticks = o[1], o[2]
        r = run_ppci(m, call_args)
        wit = dict(wit0, args=list(args))
        head = "%s%r" % (text, call_args)
        if r[0] == "unsupported":
            p.count("unclassified_interp_unsupported")
            continue
        if r[0] == "horizon":
            if ticks * 40 + 2000 < INTERP_STEPS:
                p.violation(locus(prog, call_args, "diverges"), "%s: CPython returns %r after %d iterations, ppci's IR is still running after %d blocks"
                            % (head, want, ticks, INTERP_STEPS), wit, order)
            else:
                p.count("unclassified_interp_horizon")
            continue
        if r[0] == "undef":
            p.violation(locus(prog, call_args, "ir-undefined"), "%s: CPython returns %r, ppci's IR has no defined result: %s" % (head, want, r[1]), wit, order)
            continue
        got = r[1][0]
        exp = want if ty == "int" else fhex(want)
        if got != exp:
            so = second_opinion(m, call_args)
            if so is not None and type(so) is type(want) and (so if ty == "int" else fhex(so)) == exp:
                # ppci's own second executor of the same IR sides with CPython: the two IR executors disagree, nothing is concluded
                p.count("unclassified_ir_executors_disagree")
                continue
            shown = got if ty == "int" else (struct.unpack("<d", bytes.fromhex(got))[0] if got != "nan" else got)
            p.violation(locus(prog, call_args, "value"), "%s: ppci's IR returns %r, CPython returns %r" % (head, shown, want), wit, order)
        else:
            p.outcome((prog["fam"], prog["feat"], ty, exp))


def worker(p, shard):
    from vf.gen import pygen
    vectors = [(a, b) for a in pygen.ARGS for b in pygen.ARGS]
    # simplest vectors first: the witness recorded for a key is the one with the smallest operands
    vectors.sort(key=lambda v: (abs(v[0]) + abs(v[1]), v))
    for idx, prog in shard:
        # order of a witness = position in the global simplest-first enumeration
        check_program(p, prog, vectors, base=idx * 64)


def run(ctx):
    from vf.gen import pygen
    progs = pygen.programs(ctx.tier)
    fam = {}
    for g in progs:
        k = g["fam"] + "/" + g["ty"]
        fam[k] = fam.get(k, 0) + 1
    ctx.note("functions", len(progs))
    ctx.note("families", fam)
    ctx.note("argument_vectors", 64)
    for g in (progs[0], [q for q in progs if q["fam"] == "S" and "nested" in q["feat"]][0], [q for q in progs if q["fam"] == "C"][40]):
        ctx.sample({"src": g["src"], "family": g["fam"], "mechanisms": list(g["feat"])})
    ctx.pmap(worker, list(enumerate(progs)))


def replay(w):
    from vf.core import Partial
    p = Partial()
    prog = {"src": w["src"], "ty": w["ty"], "fam": w["fam"], "feat": tuple(w["feat"])}
    check_program(p, prog, [tuple(w["args"])])
    if p.violations:
        k = sorted(p.violations)[0]
        return True, k + ": " + p.violations[k][1]
    return False, "ppci's IR returns what CPython returns for this call (or the call is excluded)"
