"""C33 - IntegerSet vs frozenset: construction histories, algebra closure, large-integer translations."""
import itertools

ID = "C33"
LEVEL = "model_checking"
RULE = ("explicit-state search: states = denoted subsets of a 7-element universe; construction = every sequence of <=3 items "
        "(int or (a,b) pair incl. reversed/overlapping, 56 items); transitions = | & - ^ on every ordered pair of states in three "
        "presentations; every result must denote the frozenset result, be canonical and re-enter the state set; the universe is "
        "replayed translated/scaled to 2^31, 2^64, -2^63; distinct non-trivial = distinct (op, result set) with non-empty result")
ASSUMPTIONS = ["reference model: Python frozenset of the denoted integers",
               "universe of 7 points (affinely mapped for large integers); larger sets are not explored"]

U = list(range(7))
ITEMS = [a for a in U] + [(a, b) for a in U for b in U]


def denote_item(it):
    if isinstance(it, int):
        return {it}
    return set(range(it[0], it[1] + 1))


def canonical_ranges(s):
    out = []
    for v in sorted(s):
        if out and out[-1][1] == v - 1:
            out[-1][1] = v
        else:
            out.append([v, v])
    return tuple((a, b) for a, b in out)


def check_obj(p, obj, expect, how, witness, mapf=lambda x: x):
    """obj must denote `expect` (a set of universe points) and be canonical."""
    exp = frozenset(mapf(v) for v in expect)
    canon = canonical_ranges(exp)
    if not isinstance(obj.ranges, tuple) or tuple(obj.ranges) != canon:
        den = None
        try:
            den = set(obj)
        except Exception:  # noqa
            pass
        if den == set(exp):
            p.violation(how + "/non-canonical", "%s: ranges %r are not the canonical %r" % (how, obj.ranges, canon), witness)
        else:
            p.violation(how + "/wrong-set", "%s: ranges %r denote %r, expected %r" % (how, obj.ranges, sorted(den) if den is not None else None, sorted(exp)), witness)
        return False
    return True


def build(seq, mapf=lambda x: x):
    from ppci.utils.integer_set import IntegerSet
    args = []
    for it in seq:
        if isinstance(it, int):
            args.append(mapf(it))
        else:
            args.append((mapf(it[0]), mapf(it[1])))
    return IntegerSet(*args)


def construct_worker(p, shard):
    for seq in shard:
        p.add()
        exp = set()
        for it in seq:
            exp |= denote_item(it)
        w = {"kind": "construct", "seq": [list(i) if isinstance(i, tuple) else i for i in seq]}
        try:
            o = build(seq)
        except Exception as ex:  # noqa
            p.violation("construct/raises/" + type(ex).__name__, "IntegerSet%r raised %r" % (tuple(seq), ex), w)
            continue
        if check_obj(p, o, exp, "construct", w) and len(exp) > 0:
            p.outcome(("c", tuple(sorted(exp))))


def subset_from_mask(m):
    return frozenset(i for i in U if m >> i & 1)


def presentations(s):
    """Three argument lists denoting s: canonical ranges, single ints reversed, overlapping pairs."""
    canon = [r for r in canonical_ranges(s)]
    ints = sorted(s, reverse=True)
    over = []
    for a, b in canon:
        over.append((a, b))
        if b > a:
            over.append((a + 1, b))
            over.append((a, a))
    over.reverse()
    return [canon, ints, over]


OPS = {
    "|": (lambda a, b: a | b), "&": (lambda a, b: a & b), "-": (lambda a, b: a - b), "^": (lambda a, b: a ^ b),
}
MAPS = {
    "id": lambda x: x,
    "2^31": lambda x: (1 << 31) - 3 + x,
    "2^64": lambda x: (1 << 64) - 3 + x,
    "-2^63": lambda x: -(1 << 63) - 3 + x,
    "scaled": lambda x: x * (1 << 40) - 3 * (1 << 40),
}


def algebra_worker(p, shard, mapname):
    mapf = MAPS[mapname]
    scaled = mapname == "scaled"
    for ma in shard:
        A = subset_from_mask(ma)
        for mb in range(128):
            B = subset_from_mask(mb)
            for pi in range(3):
                if pi and mapname != "id" and (ma * 128 + mb) % 3 != pi:
                    continue  # non-identity maps: rotate the non-canonical presentation over pairs (deterministic)
                w = {"kind": "algebra", "a": ma, "b": mb, "pres": pi, "map": mapname}
                try:
                    if scaled:
                        a = build(sorted(A), mapf)
                        b = build(sorted(B), mapf)
                    else:
                        a = build(presentations(A)[pi], mapf)
                        b = build(presentations(B)[(pi * 2) % 3], mapf)
                except Exception as ex:  # noqa
                    p.violation("algebra/construct-raises/" + type(ex).__name__, "construction raised %r" % ex, w)
                    continue
                for opn, op in OPS.items():
                    p.add()
                    exp = op(A, B)
                    try:
                        r = op(a, b)
                    except Exception as ex:  # noqa
                        p.violation("op%s/raises/%s" % (opn, type(ex).__name__), "%r %s %r raised %r" % (a, opn, b, ex), w)
                        continue
                    if scaled:
                        ok = set(r) == {mapf(v) for v in exp} and tuple(r.ranges) == tuple((mapf(v), mapf(v)) for v in sorted(exp))
                        if not ok:
                            p.violation("op%s/wrong-set" % opn, "%r %s %r = %r" % (a, opn, b, r), w)
                        continue
                    if check_obj(p, r, exp, "op" + opn, w, mapf):
                        if exp:
                            p.outcome((opn, tuple(sorted(exp))))
                        # closure: the result is (equal to) the canonical state for exp
                        canon_state = build(canonical_ranges(exp), mapf)
                        if not (r == canon_state and hash(r) == hash(canon_state)):
                            p.violation("eq-hash", "%r != canonical state of the same set" % (r,), w)
                # observers on a
                p.add()
                try:
                    obs = (sorted(a), len(a), bool(a), a.empty(), a.cardinality())
                    exp_obs = (sorted(mapf(v) for v in A), len(A), bool(A), not A, len(A))
                    if obs != exp_obs:
                        p.violation("observers", "iteration/len/bool of %r = %r, expected %r" % (a, obs, exp_obs), w)
                    for v in range(-1, 8):
                        if (mapf(v) in a) != (v in A):
                            p.violation("contains", "%d in %r = %r, expected %r" % (mapf(v), a, mapf(v) in a, v in A), w)
                            break
                    if (a == b) != (A == B):
                        p.violation("eq", "%r == %r is %r, sets equal: %r" % (a, b, a == b, A == B), w)
                except Exception as ex:  # noqa
                    p.violation("observers/raises/" + type(ex).__name__, "observer raised %r on %r" % (ex, a), w)


def run(ctx):
    seqs = [()] + [(i,) for i in ITEMS] + list(itertools.product(ITEMS, repeat=2)) + list(itertools.product(ITEMS, repeat=3))
    if ctx.tier == "thorough":
        small = [a for a in range(4)] + [(a, b) for a in range(4) for b in range(4)]
        seqs += list(itertools.product(small, repeat=4))
        ctx.note("thorough_extra", "all length-4 construction sequences over the 4-point sub-universe (20 items)")
    ctx.note("construction_sequences", len(seqs))
    ctx.sample({"construct": [[5, 2], 3, [3, 4]], "denotes": [3, 4]})
    ctx.pmap(construct_worker, seqs)
    masks = list(range(128))
    for mapname in (["id", "2^64", "scaled"] if ctx.quick else list(MAPS)):
        ctx.pmap(algebra_worker, masks, extra=(mapname,))
    ctx.sample({"algebra": "{0..1,3..3} - {1..3}", "expect": "{0..0}"})
    # K2 bookkeeping: states = 2^7 subsets; transitions = binary op applications
    ctx.states = 128
    ctx.transitions = ctx.evaluations - len(seqs)
    ctx.traces = ctx.evaluations
    ctx.note("closure", "every op result compared equal (==, hash) to the canonical state of its denoted set: the state space closes at 128 states")


def replay(w):
    from vf.core import Partial
    p = Partial()
    if w["kind"] == "construct":
        construct_worker(p, [tuple(tuple(i) if isinstance(i, list) else i for i in w["seq"])])
    else:
        algebra_worker(p, [w["a"]], w["map"])  # the whole row of the first operand
    if p.violations:
        k = sorted(p.violations)[0]
        return True, k + ": " + p.violations[k][1]
    return False, "agrees with frozenset"
