"""C21 - WebAssembly modules round-trip through binary and text forms (ppci.wasm.Module).

Every module of the wasmgen bound is rendered by /verif code as canonical binary and as WAT in three styles and
pushed through ppci's reader/writer pairs; V8 (node) validates the reference binary and arbitrates whenever ppci's
binary for a text module differs from it."""
import os
import re

ID = "C21"
LEVEL = "exploration"
RULE = ("wasmgen bound: (T) every well-typed instruction tree of depth<=2 over MVP(+sign-ext,+sat-trunc) operators, loads/stores with "
        "align/offset variants, select/drop/global/local ops and constants over LEB/float boundaries [quick: one inner operator per tree; "
        "thorough: also both operands inner], (K) every control skeleton of nesting<=2 (quick: <=1 with all block types plus <=2 with void/i32 block types) over "
        "block/loop/if/if-else/br/br_if/br_table/return/call/call_indirect/unreachable with block types none/i32/f64, (S) module structure: "
        "imports x memory x data x table/elem x globals x start x locals x exports (quick: all single and pairwise deviations from a base; "
        "thorough: also triples); functions are packed 6 (quick) / 8 (thorough) per module; each module in binary + 3 text styles; second generation: (U) custom sections: "
        "one custom section at each of the 13 positions between the standard sections x 6 name/payload entries (name-section look-alike, empty payload, "
        "arbitrary bytes, empty name, multi-byte UTF-8 name, producers) on a module with every standard section, 2 entries on a one-function and an empty "
        "module; two custom sections at every ordered pair of positions (169) x 2 (thorough 4) entry pairs; data-count section with "
        "0/1/2/63/64/127/128 data segments alone and next to custom sections, and on the full module; (F) the input forms of ppci.wasm.Module: "
        "SExpression, one tuple of nested definition tuples, definitions as separate arguments, tuple of definition strings, for the 3 text styles of "
        "every depth-1 tree/constant module, nesting<=1 skeleton module and single structure deviation; (E) opcodes.eval_expr on every constant of the "
        "LEB/float boundary alphabets as global initialiser read from text and from binary, and on global.get of an imported global; "
        "distinct non-trivial = distinct canonical binary image")
ASSUMPTIONS = [
    "reference binary: own encoder in vf/gen/wasmgen.py; every reference binary is validated (compiled) by V8 before it is used",
    "reference engine: node v20 / V8 (no wabt or wasmtime in the sandbox); 'behaves like' = same results/traps on V3 argument vectors, same "
    "exported globals and memory afterwards, compared bit-exactly (same engine on both sides, so NaN payloads count)",
    "the WAT renderer is own code following the spec grammar (flat, folded, inline-abbreviation styles); no independent WAT parser is available, "
    "so text that ppci rejects is reported with the text for human inspection",
    "a NotImplementedError from ppci is counted as unsupported (unclassified), every other exception on a generated module is a violation",
    "custom and data-count sections have no text syntax: for them only binary->Module->binary is required to be the identity (position, order, name and "
    "payload of every custom section); the text form is required to keep the standard sections, and a to_string() that refuses a custom section with "
    "NotImplementedError is counted as unsupported",
    "input forms: the nested tuples are made by an own reader from the own WAT (string literals become plain str, decimal integers int, everything else "
    "str) and must give the same to_bytes() as Module(text); Module(<one definition tuple>) is not enumerated (a single tuple argument is by "
    "construction the tuple of definitions); RuntimeError 'Cannot evaluate' of eval_expr counts as an explicit unsupported diagnostic",
    "bulk-memory / reference-type instructions, passive segments and multi-value block types are not part of this check's bound (C22 feeds them as "
    "text); ppci's binary writer rejects them with TypeError/KeyError, its binary reader with NotImplementedError",
]
CLAIM = {"text": "binary->Module->binary is the identity on canonical binaries, text->Module->text->Module preserves the binary, and ppci's "
                 "binary for a text module is V8-valid and V8-indistinguishable from the reference binary, for every module in the bound; custom and "
                 "data-count sections survive binary->Module->binary unchanged and in place; tuple / s-expression input gives the module the text gives; "
                 "eval_expr returns the typed constant",
         "note": "trusted: own encoder (V8-validated per module), own WAT renderer, V8", "technique": "bounded exhaustive module enumeration, differential vs own encoder + V8",
         "engine": "K1 wasmgen + node adapter"}

STYLES = ("flat", "folded", "inline")
ORDER_BASE = 0          # workers add 10**6 so that the witnesses of the simplest-first pre-pass win


# ---------------------------------------------------------------- work items

def work_items(tier, seed, skip_struct=0):
    from vf.gen import wasmgen as W
    items = [("tree", g) for g in W.tree_groups(tier)]
    if tier == "quick":
        items += [("sk", 1, None, 0, 1)]
        items += [("sk", 2, "noF64", i, 16) for i in range(16)]
    else:
        items += [("sk", 2, None, i, 64) for i in range(64)]
    n = W.count(struct_configs(tier))
    step = 40
    items += [("struct", i, min(n, i + step)) for i in range(skip_struct, n, step)]
    nc = len(custom_cases(tier))
    items += [("custom", i, i + 60) for i in range(0, nc, 60)]
    nf = W.count(form_modules(tier))
    items += [("forms", i, i + 12) for i in range(0, nf, 12)]
    items += [("eval",)]
    return items


def struct_configs(tier):
    from vf.gen import wasmgen as W
    import itertools
    for c in W.structure_configs("quick"):
        yield c
    if tier == "thorough":
        keys = list(W.STRUCT_OPTIONS)
        base = {k: W.STRUCT_OPTIONS[k][0] for k in keys}
        for ks in itertools.combinations(keys, 3):
            for vs in itertools.product(*[W.STRUCT_OPTIONS[k][1:] for k in ks]):
                c = dict(base)
                c.update(zip(ks, vs))
                yield c


def sk_functions(depth, restrict):
    from vf.gen import wasmgen as W
    if restrict == "noF64":
        # depth-2 skeletons whose block types are none/i32 only (quick tier); the f64 variants are in thorough
        return [s for s in W.skeleton_functions(depth, (None, W.I32))]
    return list(W.skeleton_functions(depth))


def modules_of(item, tier):
    """Yield (witness, module, calls) for a work item."""
    from vf.gen import wasmgen as W
    per = 6 if tier == "quick" else 8
    if item[0] == "tree":
        fs = list(W.tree_functions(tier, tuple(item[1])))
        for i in range(0, len(fs), per):
            chunk = fs[i:i + per]
            yield tree_module(tier, item[1], chunk)
    elif item[0] == "sk":
        _, depth, restrict, part, parts = item
        fs = sk_functions(depth, restrict)
        fs = fs[part::parts]
        for i in range(0, len(fs), per):
            yield sk_module(depth, restrict, fs[i:i + per])
    else:
        cfgs = list(struct_configs(tier))[item[1]:item[2]]
        for cfg in cfgs:
            r = struct_module(cfg)
            if r is not None:
                yield r


def tree_module(tier, group, chunk):
    from vf.gen import wasmgen as W
    m = W.module_of_funcs([(ft, l, b) for _, ft, l, b in chunk], W.tree_env())
    calls = []
    for j, (tag, ft, l, b) in enumerate(chunk):
        for args in W.arg_vectors(ft.params, 3):
            calls.append(("e%d" % j, list(args), ft.results[0] if ft.results else None))
    wit = {"gen": "tree", "tier": tier, "group": list(group), "tags": [c[0] for c in chunk]}
    return wit, m, calls


def sk_module(depth, restrict, chunk):
    from vf.gen import wasmgen as W
    m = W.skeleton_module([(ft, l, b) for _, ft, l, b, _, _ in chunk])
    calls = []
    for j, (tag, ft, l, b, nc, ui) in enumerate(chunk):
        for args in W.skeleton_args(nc, ui):
            calls.append(("e%d" % (3 + j), list(args), ft.results[0] if ft.results else None))
    wit = {"gen": "sk", "depth": depth, "restrict": restrict, "tags": [c[0] for c in chunk]}
    return wit, m, calls


def struct_module(cfg):
    from vf.gen import wasmgen as W
    m = W.structure_module(cfg)
    if m is None:
        return None
    calls = []
    for name, ft in W.exported_funcs(m):
        for args in W.arg_vectors(ft.params, 3):
            calls.append((name, list(args), ft.results[0] if ft.results else None))
    return {"gen": "struct", "cfg": {k: (list(v) if isinstance(v, tuple) else v) for k, v in cfg.items()}}, m, calls


def rebuild(wit):
    from vf.gen import wasmgen as W
    if wit["gen"] == "tree":
        want = wit["tags"]
        fs = {f[0]: f for f in W.tree_functions(wit["tier"], tuple(wit["group"])) if f[0] in want}
        return tree_module(wit["tier"], wit["group"], [fs[t] for t in want])
    if wit["gen"] == "sk":
        want = wit["tags"]
        fs = {f[0]: f for f in sk_functions(wit["depth"], wit["restrict"]) if f[0] in want}
        return sk_module(wit["depth"], wit["restrict"], [fs[t] for t in want])
    cfg = {k: (tuple(v) if isinstance(v, list) else v) for k, v in wit["cfg"].items()}
    return struct_module(cfg)


# ---------------------------------------------------------------- features (locus vocabulary)

_VARIANT = re.compile(r"@[a-z0-9]+")


def atoms_of_tag(tag):
    """Operator names involved in a tree tag, outer first: 'd2:i32.add[0<-i32.load@o1]' -> ['i32.add', 'i32.load@o1']."""
    if tag.startswith("const:"):
        _, vt, v = tag.split(":")
        return [vt + ".const/" + const_class(vt, int(v))]
    body = tag.split(":", 1)[1]
    mm = re.match(r"^(.*?)\[(?:\d+<-)?(.*)\]$", body)
    if not mm:
        return [body]
    return [mm.group(1)] + mm.group(2).split(",")


def const_class(vt, v):
    if vt in ("i32", "i64"):
        n = len(_sleb(v))
        return ("neg" if v < 0 else "pos") + "-leb%d" % n
    ebits, mbits = (8, 23) if vt == "f32" else (11, 52)
    exp = (v >> mbits) & ((1 << ebits) - 1)
    man = v & ((1 << mbits) - 1)
    if exp == (1 << ebits) - 1 and man:
        sign = "neg-" if v >> (ebits + mbits) else ""
        if man == 1 << (mbits - 1):
            return sign + "nan"
        return sign + ("nan-payload" if man >> (mbits - 1) else "nan-signalling")
    if exp == (1 << ebits) - 1:
        return "inf"
    if exp == 0 and man:
        return "denormal"
    return "finite"


def _sleb(v):
    from vf.gen import wasmgen as W
    return W.sleb(v)


def sk_atoms(tag):
    """Construct vocabulary of a skeleton tag, innermost first: 'sk:i32:block{br_if0}' -> ['br_if', 'block']."""
    body = tag.split(":", 2)[2]
    words = re.findall(r"[a-z_]+(?:-[a-z0-9]+)?", body)
    words = [w for w in words if w not in ("plain", "d", "none", "loop") or w == "loop"]
    seen, out = set(), []
    for w in reversed(words):
        if w not in seen:
            seen.add(w)
            out.append(w)
    return out or ["plain"]


def struct_atoms(cfg):
    from vf.gen import wasmgen as W
    out = []
    for k in W.STRUCT_OPTIONS:
        v = cfg[k]
        base = W.STRUCT_OPTIONS[k][0]
        if (tuple(v) if isinstance(v, list) else v) != base:
            out.append("%s=%s" % (k, "+".join(v) if isinstance(v, (list, tuple)) else v))
    return out or ["base"]


def func_atoms(wit, j=None):
    """Atoms for function j of the witness module (or all)."""
    if wit["gen"] == "tree":
        tags = wit["tags"] if j is None else [wit["tags"][j]]
        return [a for t in tags for a in atoms_of_tag(t)]
    if wit["gen"] == "sk":
        tags = wit["tags"] if j is None else [wit["tags"][j]]
        return [a for t in tags for a in sk_atoms(t)]
    return struct_atoms(wit["cfg"])


def pick_feature(atoms, bad):
    """One locus per defect: prefer an atom already known to fail alone (from the depth-1 pre-pass)."""
    badn = set(norm_atom(b) for b in bad)
    for a in atoms:
        if a in bad or norm_atom(a) in badn:
            return a if "/" in a or "=" in a else norm_atom(a)
    fams = []
    for a in atoms:
        if norm_atom(a) not in fams:
            fams.append(norm_atom(a))
    return fams[0] if len(fams) == 1 else "+".join(fams[:2])


# ---------------------------------------------------------------- binary sections (for diagnostics)

SECTION_NAMES = {0: "custom", 1: "type", 2: "import", 3: "function", 4: "table", 5: "memory", 6: "global", 7: "export", 8: "start",
                 9: "elem", 10: "code", 11: "data", 12: "datacount"}


def sections(b):
    out, pos = [], 8
    try:
        while pos < len(b):
            sid = b[pos]
            pos += 1
            n = shift = 0
            while True:
                c = b[pos]
                pos += 1
                n |= (c & 0x7F) << shift
                shift += 7
                if not c & 0x80:
                    break
            out.append((sid, b[pos:pos + n]))
            pos += n
    except IndexError:
        out.append((-1, b""))
    return out


def code_bodies(payload):
    """Split a code section payload into function bodies."""
    pos = 0

    def leb():
        nonlocal pos
        n = shift = 0
        while True:
            c = payload[pos]
            pos += 1
            n |= (c & 0x7F) << shift
            shift += 7
            if not c & 0x80:
                return n
    try:
        cnt = leb()
        out = []
        for _ in range(cnt):
            n = leb()
            out.append(payload[pos:pos + n])
            pos += n
        return out
    except IndexError:
        return None


LAST_OFFSET = None


def norm_atom(a):
    """Family name of an operator atom: immediates dropped, loads/stores collapsed."""
    a = _VARIANT.sub("", a)
    if "." in a:
        name = a.split(".", 1)[1]
        if name.startswith("load"):
            return "load"
        if name.startswith("store"):
            return "store"
    return a


def located_feature(m, sec, fidx):
    """Locus from the position of the first differing byte: the instruction containing it, else the section."""
    from vf.gen import wasmgen as W
    if sec == "code" and fidx is not None and LAST_OFFSET is not None and fidx < len(m.funcs):
        n = W.locate(m, fidx, LAST_OFFSET)
        if n is None:
            return "locals-or-end"
        lab = W.node_label(n)
        if lab.endswith(".const") and not isinstance(n, (W.Blk, W.If)):
            return lab + "/" + const_class(lab[:3], n.imm)
        return norm_atom(lab)
    return "section:" + sec


def first_difference(ref, got):
    """(section name, function index or None) of the first difference between two binaries."""
    if ref[:8] != got[:8]:
        return "header", None
    a, b = sections(ref), sections(got)
    for (sa, pa), (sb, pb) in zip(a, b):
        if sa != sb:
            return "section-order(%s/%s)" % (SECTION_NAMES.get(sa, sa), SECTION_NAMES.get(sb, sb)), None
        if pa != pb:
            if sa == 10:
                ba, bb = code_bodies(pa), code_bodies(pb)
                if ba and bb and len(ba) == len(bb):
                    for j, (x, y) in enumerate(zip(ba, bb)):
                        if x != y:
                            global LAST_OFFSET
                            LAST_OFFSET = next((i for i, (c, d) in enumerate(zip(x, y)) if c != d), min(len(x), len(y)))
                            return "code", j
            return SECTION_NAMES.get(sa, str(sa)), None
    if len(a) != len(b):
        extra = (a if len(a) > len(b) else b)[min(len(a), len(b))][0]
        return "section-count(%s)" % SECTION_NAMES.get(extra, extra), None
    return "none", None



# ---------------------------------------------------------------- second-generation families: custom / data-count sections (U),
# ---------------------------------------------------------------- tuple and s-expression input forms (F), constant expressions (E)

NAME_SECTION = bytes([1, 6, 1, 0, 3]) + b"add" + bytes([0, 4, 3]) + b"mod"        # function-names subsection, then module-name subsection
CUSTOM_ALPHABET = [("name", NAME_SECTION), ("name", b""), ("x", bytes([0, 255, 128, 11, 0])), ("", b"\x01"), ("süß.中", b"abc"),
                   ("producers", bytes([1, 8]) + b"language" + bytes([1, 1]) + b"C" + bytes([0]))]
DATACOUNT_NS = (0, 1, 2, 63, 64, 127, 128)


def custom_bases():
    """name -> module AST: every standard section present / one function only / no section at all."""
    from vf.gen import wasmgen as W
    full = W.structure_module({"imports": ("func", "gi"), "mem": "1-2", "data": "two", "table": "2-2@1", "globals": "i32m", "start": "start",
                               "locals": "i32", "exports": "all"})
    one = W.module_of_funcs([(W.FT((W.I32,), (W.I32,)), (), [W.Ins("i32.add", None, [W.lget(0), W.i32c(1)])])])
    return {"full": full, "one-func": one, "empty": W.Module()}


def custom_cases(tier):
    """[(wit, module)]: 1 custom section at every slot x every alphabet entry; 2 custom sections at every ordered pair of slots (two different
    entries, and the same entry twice); data-count section with 0/1/2/63/64/127/128 data segments, with and without custom sections around it."""
    from vf.gen import wasmgen as W
    import copy
    out = []
    bases = custom_bases()

    def mk(base, customs, datacount=None, nseg=None):
        m = copy.copy(bases[base])
        m.customs = list(customs)
        m.datacount = datacount
        if nseg is not None:
            m = W.module_of_funcs([(W.FT((), ()), (), [])], {"mem": (1, None), "datas": [(i, bytes([i % 251])) for i in range(nseg)], "datacount": datacount})
            m.customs = list(customs)
        wit = {"gen": "custom", "base": base, "customs": [[sl, i] for sl, i in customs_idx], "datacount": datacount, "nseg": nseg}
        return wit, m

    slots = range(W.N_SLOTS)
    for base in ("full", "one-func", "empty"):
        for sl in slots:
            for ci in range(len(CUSTOM_ALPHABET)):
                if base != "full" and ci not in (0, 2):
                    continue
                customs_idx = [(sl, ci)]
                out.append(mk(base, [(sl,) + CUSTOM_ALPHABET[ci]]))
    for a in slots:
        for b in slots:
            for pair in ((2, 0), (4, 4)) if tier == "quick" else ((2, 0), (4, 4), (0, 5), (3, 1)):
                customs_idx = [(a, pair[0]), (b, pair[1])]
                out.append(mk("full", [(a,) + CUSTOM_ALPHABET[pair[0]], (b,) + CUSTOM_ALPHABET[pair[1]]]))
    for n in DATACOUNT_NS:
        for cust in ((), ((9, 2),), ((10, 2),), ((9, 2), (10, 0))):
            customs_idx = list(cust)
            out.append(mk("one-func", [(sl,) + CUSTOM_ALPHABET[ci] for sl, ci in cust], True, n))
    customs_idx = []
    out.append(mk("full", [], True))
    return out


def rebuild_custom(wit):
    for w, m in custom_cases("thorough"):
        if w == {k: wit.get(k) for k in w}:
            return w, m
    return None


def split_custom(b):
    """(standard sections [(id, payload)], custom sections [payload], positions of the custom sections among the standard ones)"""
    std, cus, pos = [], [], []
    for sid, pl in sections(b):
        if sid == 0:
            cus.append(pl)
            pos.append(len(std))
        else:
            std.append((sid, pl))
    return std, cus, pos


def check_custom(p, wit, m, pending):
    """binary -> Module -> binary for modules with custom / data-count sections.  Text has no syntax for them: the text form is only
    required to keep the standard sections (Module(Module(bin).to_string()).to_bytes() == binary without custom and data-count sections)."""
    from vf.core import exc_key, cpu_limit, CpuTimeout
    from vf.gen import wasmgen as W
    from ppci.wasm import Module
    import copy
    ref = W.encode(m)
    p.outcome(ref)
    pending.append({"wit": wit, "m": m, "ref": ref, "calls": [], "variants": [], "extra_refs": {}})
    what_mod = "base=%s customs=%s datacount=%s nseg=%s" % (wit["base"], [(sl, CUSTOM_ALPHABET[i][0]) for sl, i in wit["customs"]], wit["datacount"], wit["nseg"])

    def fail(key, what, exc=None):
        w = dict(wit)
        w["oracle"] = key.split("/")[0]
        p.violation(exc_key(key, exc) if exc is not None else key, what + "; " + what_mod + "; bin=" + ref.hex()[:400], w, order=p.evaluations + ORDER_BASE)

    p.add()
    mb = None
    feature = "section:datacount" if wit["datacount"] else "section:custom"
    try:
        with cpu_limit(20):
            mb = Module(ref)
            out = mb.to_bytes()
        if out != ref:
            s_ref, c_ref, pos_ref = split_custom(ref)
            s_out, c_out, pos_out = split_custom(out)
            if s_ref != s_out:
                ids = lambda ss: [SECTION_NAMES.get(i, i) for i, _ in ss]
                if sorted(s_ref) == sorted(s_out):
                    fail("bin-roundtrip/section-order/datacount", "Module(bin).to_bytes() writes the standard sections in the order %s, the binary has %s (the "
                         "data-count section belongs between the element and the code section; V8 rejects it elsewhere)" % (ids(s_out), ids(s_ref)))
                else:
                    sec, _ = first_difference(ref, out)
                    bad = next((SECTION_NAMES.get(a[0], a[0]) for a, b in zip(s_ref, s_out) if a != b), "count")
                    fail("bin-roundtrip/section:%s" % bad, "Module(bin).to_bytes() changes standard section %s; got=%s" % (bad, out.hex()[:400]))
            if sorted(c_ref) != sorted(c_out):
                fail("bin-roundtrip/custom-section/content", "Module(bin).to_bytes() changes or loses custom sections: %d in, %d out; got=%s" %
                     (len(c_ref), len(c_out), out.hex()[:400]))
            elif c_ref != c_out:
                fail("bin-roundtrip/custom-section/relative-order", "Module(bin).to_bytes() swaps custom sections")
            elif pos_ref != pos_out and s_ref == s_out:
                fail("bin-roundtrip/custom-section/position", "Module(bin).to_bytes() moves custom sections: they follow %s standard sections in the input "
                     "and %s in the output (a name section must come after the data section)" % (pos_ref, pos_out))
        else:
            p.count("custom_roundtrip_identical")
    except CpuTimeout:
        fail("bin-roundtrip/hang/" + feature, "Module(bin).to_bytes() exceeded 20 s CPU")
    except Exception as ex:  # noqa
        if is_unsupported(ex):
            p.count("unsupported")
            p.collect("unsupported", "bin-custom:%s:%s" % (type(ex).__name__, str(ex)[:60]))
        else:
            fail("bin-roundtrip/" + feature, "Module(bin) / to_bytes raised %s: %s" % (type(ex).__name__, str(ex)[:120]), exc=ex)
    if mb is None:
        return
    # text: standard sections only
    p.add()
    plain = copy.copy(m)
    plain.customs, plain.datacount = [], None
    want = W.encode(plain)
    try:
        with cpu_limit(20):
            txt = mb.to_string()
            back = Module(txt).to_bytes()
        if back != want:
            sec, fidx = first_difference(want, back)
            fail("bin-text-bin/" + feature, "Module(Module(bin).to_string()).to_bytes() differs from the binary without custom/data-count sections "
                 "(first difference in %s)" % sec)
    except CpuTimeout:
        fail("bin-text-bin/hang/" + feature, "to_string / re-parse exceeded 20 s CPU")
    except Exception as ex:  # noqa
        if is_unsupported(ex):
            p.count("unsupported")
            p.collect("unsupported", "custom-to-text:%s:%s" % (type(ex).__name__, str(ex)[:60]))
        else:
            fail("bin-text-bin/" + feature, "printing/re-parsing raised %s: %s" % (type(ex).__name__, str(ex)[:120]), exc=ex)


_TOK = re.compile(r'\(|\)|"(?:[^"\\]|\\.)*"|[^\s()"]+')
_INT = re.compile(r"^[+-]?\d+$")


def text_to_tuple(text):
    """Own reader for the WAT this framework renders (no comments): nested tuples, string literals -> their raw content, decimal integers -> int."""
    stack = [[]]
    for tok in _TOK.findall(text):
        if tok == "(":
            stack.append([])
        elif tok == ")":
            t = tuple(stack.pop())
            stack[-1].append(t)
        elif tok.startswith('"'):
            stack[-1].append(tok[1:-1])
        elif _INT.match(tok):
            stack[-1].append(int(tok))
        else:
            stack[-1].append(tok)
    assert len(stack) == 1 and len(stack[0]) == 1
    return stack[0][0]


def tuple_to_text(t):
    return "(" + " ".join(tuple_to_text(e) if isinstance(e, tuple) else str(e) for e in t) + ")"


FORMS = ("sexpr", "tuple", "varargs", "def-strings")


def form_modules(tier):
    """The modules given to ppci.wasm.Module in its alternative input forms: depth-1 trees and constants (6 functions per module), control skeletons
    of nesting <= 1, the base structure and every single deviation."""
    from vf.gen import wasmgen as W
    fs = list(W.tree_functions(tier, ("d1",)))
    for i in range(0, len(fs), 6):
        yield tree_module(tier, ("d1",), fs[i:i + 6])
    sk = sk_functions(1, None)
    for i in range(0, len(sk), 6):
        yield sk_module(1, None, sk[i:i + 6])
    keys = list(W.STRUCT_OPTIONS)
    base = {k: W.STRUCT_OPTIONS[k][0] for k in keys}
    yield struct_module(dict(base))
    for k in keys:
        for v in W.STRUCT_OPTIONS[k][1:]:
            c = dict(base)
            c[k] = v
            r = struct_module(c)
            if r is not None:
                yield r


def has_string_literal_needing_typ(t):
    return False


def check_forms(p, wit, m, bad):
    """Module(<tuples>) / Module(<SExpression>) must equal Module(<text>) for the same text (compared through to_bytes)."""
    from vf.core import exc_key, cpu_limit, CpuTimeout
    from vf.gen import wasmgen as W
    from ppci.wasm import Module
    from ppci.lang.sexpr import parse_sexpr
    atoms_all = func_atoms(wit)
    for style in STYLES:
        text = W.wat(m, style)
        try:
            with cpu_limit(20):
                want = Module(text).to_bytes()
        except BaseException:  # noqa   (text-parse failures belong to the families above)
            p.count("forms_text_not_parsed")
            continue
        tup = text_to_tuple(text)
        defs = tup[1:]
        assert tup[0] == "module"
        for form in FORMS:
            if form == "varargs" and len(defs) < 2:
                p.count("forms_varargs_needs_two_definitions")      # Module(x) with a single tuple takes x as the tuple of definitions
                continue
            p.add()
            w = dict(wit)
            w.update(style=style, oracle="input-form", form=form)
            try:
                with cpu_limit(20):
                    if form == "sexpr":
                        got = Module(parse_sexpr(text))
                    elif form == "tuple":
                        got = Module(defs)
                    elif form == "varargs":
                        got = Module(*defs)
                    else:
                        got = Module(tuple(tuple_to_text_lit(d) for d in defs))
                    b = got.to_bytes()
            except CpuTimeout:
                p.violation("input-form/%s/hang" % form, "Module(%s form) exceeded 20 s CPU" % form, w, order=p.evaluations + ORDER_BASE)
                continue
            except Exception as ex:  # noqa
                if is_unsupported(ex):
                    p.count("unsupported")
                    p.collect("unsupported", "form-%s:%s:%s" % (form, type(ex).__name__, str(ex)[:60]))
                else:
                    feat = pick_feature(atoms_all, bad.get("input-form", ()))
                    p.violation(exc_key("input-form/%s/%s" % (form, feat), ex), "Module(<%s form of %s-style text>) raised %s: %s while Module(text) parses; "
                                "first definition: %r" % (form, style, type(ex).__name__, str(ex)[:120], defs[0] if defs else None), w, order=p.evaluations + ORDER_BASE)
                    p.collect("failing_atoms:input-form", "|".join(atoms_all))
                continue
            if b == want:
                p.outcome((form, style, want))
                p.count("forms_equal_to_text")
            else:
                sec, fidx = first_difference(want, b)
                atoms = loc_atoms(wit, m, fidx)
                p.violation("input-form/%s/differs/%s" % (form, located_feature(m, sec, fidx)), "Module(<%s form of %s-style text>).to_bytes() differs from "
                            "Module(text).to_bytes() (first difference in %s section%s)" % (form, style, sec, "" if fidx is None else " func %d" % fidx), w,
                            order=p.evaluations + ORDER_BASE)
                p.collect("failing_atoms:input-form", "|".join(atoms))


def tuple_to_text_lit(t):
    """Definition tuple -> s-expression string, string literals re-quoted (they are the elements that are str and were literals: after
    import/export/data keywords)."""
    head = t[0] if t else None
    out = []
    for i, e in enumerate(t):
        if isinstance(e, tuple):
            out.append(tuple_to_text_lit(e))
        elif isinstance(e, str) and ((head in ("import", "export") and i >= 1) or (head == "data" and i >= 1 and not e.startswith("$"))):
            out.append('"%s"' % e)
        else:
            out.append(str(e))
    return "(" + " ".join(out) + ")"


def check_eval(p):
    """opcodes.eval_expr on the initialiser of a global parsed from text / read from binary: (type, value) of every constant of the alphabets."""
    import struct
    from vf.core import exc_key
    from vf.gen import wasmgen as W
    from ppci.wasm import Module, components
    from ppci.wasm.opcodes import eval_expr
    cases = [(vt, v) for vt, vals in W.const_alphabets("thorough").items() for v in vals]
    for vt, v in cases:
        m = W.module_of_funcs([], {"globs": [W.Glob(vt, False, W.const(vt, v))]})
        for form, src in (("text", W.wat(m, "flat")), ("binary", W.encode(m))):
            p.add()
            wit = {"gen": "eval", "vt": vt, "v": v, "form": form, "oracle": "eval-expr"}
            try:
                g = [d for d in Module(src) if isinstance(d, components.Global)][0]
                got = eval_expr(g.init)
            except Exception as ex:  # noqa
                if is_unsupported(ex) or (isinstance(ex, RuntimeError) and "Cannot evaluate" in str(ex)):
                    p.count("unsupported")
                    p.collect("unsupported", "eval:%s" % str(ex)[:60])
                else:
                    p.violation(exc_key("eval-expr/%s.const/%s" % (vt, const_class(vt, v)), ex), "eval_expr(init of %s) raised %s: %s" %
                                (W.wat(m, "flat").splitlines()[1].strip(), type(ex).__name__, str(ex)[:100]), wit)
                continue
            ok = isinstance(got, tuple) and len(got) == 2 and got[0] == vt
            if ok and vt in ("i32", "i64"):
                ok = got[1] == v
            elif ok:
                try:
                    bits = struct.unpack("<I" if vt == "f32" else "<Q", struct.pack("<f" if vt == "f32" else "<d", got[1]))[0]
                except Exception:  # noqa
                    bits = None
                isnan = const_class(vt, v).endswith(("nan", "nan-payload", "nan-signalling"))
                ok = bits == v or (isnan and got[1] != got[1])
            if ok:
                p.outcome(("eval", vt, v))
            else:
                p.violation("eval-expr/%s.const/%s" % (vt, const_class(vt, v)), "eval_expr(init of a %s global with value bits/int %d, %s form) = %r" %
                            (vt, v, form, got), wit)
    # global.get of an imported global: cannot be evaluated without an instance; an explicit diagnostic is accepted
    m = W.module_of_funcs([], {"imports": [W.Imp("env", "gi", "global", (W.I32, False))], "globs": [W.Glob(W.I32, False, W.Ins("global.get", 0))]})
    p.add()
    try:
        g = [d for d in Module(W.wat(m, "flat")) if isinstance(d, components.Global)][0]
        got = eval_expr(g.init)
        p.violation("eval-expr/global.get", "eval_expr((global.get 0)) of an imported global returned %r without knowing its value" % (got,),
                    {"gen": "eval", "vt": "global.get", "v": 0, "form": "text", "oracle": "eval-expr"})
    except Exception as ex:  # noqa
        if is_unsupported(ex) or (isinstance(ex, RuntimeError) and "Cannot evaluate" in str(ex)):
            p.count("unsupported")
            p.collect("unsupported", "eval:%s" % str(ex)[:60])
        else:
            p.violation(exc_key("eval-expr/global.get", ex), "eval_expr((global.get 0)) raised %s: %s" % (type(ex).__name__, str(ex)[:100]),
                        {"gen": "eval", "vt": "global.get", "v": 0, "form": "text", "oracle": "eval-expr"})


# ---------------------------------------------------------------- the per-module check

def is_unsupported(ex):
    return isinstance(ex, NotImplementedError)


def loc_atoms(wit, m, fidx):
    """Atoms for a difference located in defined function fidx (None = whole module)."""
    if fidx is None or wit["gen"] == "struct":
        return func_atoms(wit)
    if wit["gen"] == "sk":
        j = fidx - 3
        return func_atoms(wit, j) if 0 <= j < len(wit["tags"]) else ["helper"]
    return func_atoms(wit, fidx) if fidx < len(wit["tags"]) else func_atoms(wit)


def check_module(p, wit, m, calls, bad, pending):
    """Oracles (1) and (2) immediately; oracle (3) is queued in `pending` for the node batch of this shard."""
    from vf.core import exc_key, cpu_limit, CpuTimeout
    from vf.gen import wasmgen as W
    from ppci.wasm import Module
    ref = W.encode(m)
    p.outcome(ref)
    entry = {"wit": wit, "m": m, "ref": ref, "calls": calls, "variants": [], "extra_refs": {}}
    pending.append(entry)
    atoms_all = func_atoms(wit)

    def fail(oracle, what, style=None, fidx=None, exc=None, sec=None):
        atoms = loc_atoms(wit, m, fidx)
        if sec is not None:
            feat = located_feature(m, sec, fidx)
        else:
            feat = pick_feature(atoms, bad.get(oracle, ()))
        w = dict(wit)
        w["style"] = style
        w["oracle"] = oracle
        if exc is not None:
            key = exc_key("%s/%s" % (oracle, feat), exc)
        else:
            key = "%s/%s" % (oracle, feat)
        p.violation(key, what, w, order=p.evaluations + ORDER_BASE)
        p.collect("failing_atoms:" + oracle, "|".join(atoms))

    # (1) binary -> Module -> binary
    p.add()
    mb = None
    try:
        with cpu_limit(20):
            mb = Module(ref)
            out = mb.to_bytes()
        if out != ref:
            sec, fidx = first_difference(ref, out)
            fail("bin-roundtrip", "Module(bin).to_bytes() != bin (first difference in %s section%s); bin=%s got=%s" %
                 (sec, "" if fidx is None else " func %d" % fidx, ref.hex(), out.hex()), fidx=fidx, sec=sec)
    except CpuTimeout:
        fail("bin-roundtrip/hang", "Module(bin).to_bytes() exceeded 20 s CPU; bin=%s" % ref.hex())
    except Exception as ex:  # noqa
        if is_unsupported(ex):
            p.count("unsupported")
            p.collect("unsupported", "bin:%s:%s" % (type(ex).__name__, str(ex)[:60]))
        else:
            fail("bin-roundtrip", "Module(bin) / to_bytes raised %s: %s; bin=%s" % (type(ex).__name__, str(ex)[:120], ref.hex()), exc=ex)
    # (2b) binary -> Module -> text -> Module -> binary
    if mb is not None:
        p.add()
        try:
            with cpu_limit(20):
                s = mb.to_string()
                back = Module(s).to_bytes()
            if back != ref and mb.to_bytes() == ref:
                sec, fidx = first_difference(ref, back)
                fail("bin-text-bin", "Module(Module(bin).to_string()).to_bytes() != bin (first difference in %s section%s); bin=%s" %
                     (sec, "" if fidx is None else " func %d" % fidx, ref.hex()), fidx=fidx, sec=sec)
        except CpuTimeout:
            fail("bin-text-bin/hang", "to_string/re-parse exceeded 20 s CPU; bin=%s" % ref.hex())
        except Exception as ex:  # noqa
            if is_unsupported(ex):
                p.count("unsupported")
                p.collect("unsupported", "bin-text:%s:%s" % (type(ex).__name__, str(ex)[:60]))
            else:
                fail("bin-text-bin", "printing/re-parsing a module read from binary raised %s: %s; bin=%s" %
                     (type(ex).__name__, str(ex)[:120], ref.hex()), exc=ex)
    # (2) text -> Module -> text -> Module, (3) text -> binary
    for style in STYLES:
        text = W.wat(m, style)
        p.add()
        try:
            with cpu_limit(20):
                t = Module(text)
                b1 = t.to_bytes()
        except CpuTimeout:
            fail("text-parse/hang", "Module(wat) exceeded 20 s CPU", style)
            continue
        except Exception as ex:  # noqa
            if is_unsupported(ex):
                p.count("unsupported")
                p.collect("unsupported", "text:%s:%s" % (type(ex).__name__, str(ex)[:60]))
            else:
                fail("text-parse/" + style, "Module(wat).to_bytes() raised %s: %s on %s-style text of %s" %
                     (type(ex).__name__, str(ex)[:120], style, "|".join(atoms_all)[:200]), style, exc=ex)
            continue
        p.add()
        try:
            with cpu_limit(20):
                s1 = t.to_string()
                t2 = Module(s1)
                b2 = t2.to_bytes()
                s2 = t2.to_string()
            if b2 != b1:
                sec, fidx = first_difference(b1, b2)
                fail("text-fixpoint", "t=Module(wat): Module(t.to_string()).to_bytes() != t.to_bytes() (first difference in %s section%s)" %
                     (sec, "" if fidx is None else " func %d" % fidx), style, fidx=fidx, sec=sec)
            if s2 != s1:
                p.count("to_string_not_textual_fixpoint")
        except CpuTimeout:
            fail("text-fixpoint/hang", "to_string / re-parse exceeded 20 s CPU", style)
        except Exception as ex:  # noqa
            if is_unsupported(ex):
                p.count("unsupported")
                p.collect("unsupported", "totext:%s:%s" % (type(ex).__name__, str(ex)[:60]))
            else:
                fail("text-fixpoint", "to_string / re-parse of Module(wat) raised %s: %s" % (type(ex).__name__, str(ex)[:120]), style, exc=ex)
        p.add()
        sref = ref if style != "inline" else W.encode(W.for_style(m, style))
        if b1 == sref:
            p.count("text_binary_identical_to_reference")
        else:
            if sref != ref:
                entry["extra_refs"][style] = sref
            entry["variants"].append((style, b1))


def judge(p, pending, bad):
    """Oracle (3): run the node batch for a shard and judge the queued entries."""
    from vf.oracles import node
    if not pending:
        return
    jobs, index = [], []
    for ei, e in enumerate(pending):
        full = bool(e["variants"])
        jobs.append(node.job_for(e["m"], e["ref"], e["calls"] if full else (), validate_only=not full))
        index.append((ei, None))
        seen = set()
        for style, b in e["variants"]:
            if b in seen:
                continue
            seen.add(b)
            jobs.append(node.job_for(e["m"], b, e["calls"]))
            index.append((ei, b))
    results = node.run(jobs, timeout=240, on_hang="mark")
    by_entry = {}
    for (ei, b), r in zip(index, results):
        by_entry.setdefault(ei, {})[b] = r
    for ei, e in enumerate(pending):
        rs = by_entry[ei]
        mine = rs[None]
        wit = e["wit"]
        if mine.get("hang"):
            p.count("reference_binary_does_not_terminate_in_v8")
            continue
        if not mine["valid"] or (e["variants"] and mine["stage"] != "run"):
            p.count("reference_binary_rejected_by_v8")
            p.collect("reference_rejected", "%s: %s %s" % ("|".join(func_atoms(wit))[:80], mine["stage"], mine.get("error")))
            continue
        p.count("reference_binaries_validated_by_v8")
        for style, b in e["variants"]:
            r = rs[b]
            sec, fidx = first_difference(e["extra_refs"].get(style, e["ref"]), b)
            atoms = loc_atoms(wit, e["m"], fidx)
            located = located_feature(e["m"], sec, fidx)
            w = dict(wit)
            w["style"] = style
            w["oracle"] = "text-to-binary"
            if r.get("hang"):
                p.violation("text-to-binary/behaviour/" + located,
                            "binary from %s-style text does not terminate in V8 (no result after 30 s alone) while the reference binary finishes; first difference "
                            "in %s section%s; ppci=%s ref=%s" % (style, sec, "" if fidx is None else " func %d" % fidx, b.hex(), e["ref"].hex()), w,
                            order=p.evaluations + ORDER_BASE)
                p.collect("failing_atoms:text-to-binary", "|".join(atoms))
                continue
            if not r["valid"] or r["stage"] != "run":
                p.violation("text-to-binary/v8-rejects/" + located,
                            "Module(wat).to_bytes() of %s-style text is rejected by V8 (%s: %s) while the reference binary is accepted; first difference "
                            "in %s section%s; ppci=%s ref=%s" % (style, r["stage"], r.get("error"), sec, "" if fidx is None else " func %d" % fidx,
                                                                 b.hex(), e["ref"].hex()), w, order=p.evaluations + ORDER_BASE)
                p.collect("failing_atoms:text-to-binary", "|".join(atoms))
                continue
            d = behaviour_difference(mine, r)
            if d:
                p.violation("text-to-binary/behaviour/" + located,
                            "binary from %s-style text behaves differently in V8 than the reference binary: %s; first difference in %s section%s; "
                            "ppci=%s ref=%s" % (style, d, sec, "" if fidx is None else " func %d" % fidx, b.hex(), e["ref"].hex()), w, order=p.evaluations + ORDER_BASE)
                p.collect("failing_atoms:text-to-binary", "|".join(atoms))
            else:
                p.count("text_binary_differs_but_v8_equivalent")
                p.collect("equivalent_difference_in", sec)


def behaviour_difference(a, b):
    from vf.oracles import node
    for i, (ca, cb) in enumerate(zip(a["calls"], b["calls"])):
        oa, ob = node.call_outcome(ca), node.call_outcome(cb)
        if oa[0] != ob[0] or (oa[0] == "value" and oa[1] != ob[1]):      # same engine on both sides: bit-exact, NaN payloads included
            return "call #%d: reference %s, ppci %s" % (i, oa, ob)
        if ca.get("host") != cb.get("host"):
            return "call #%d: host calls differ" % i
    fa, fb = a.get("final"), b.get("final")
    if (fa is None) != (fb is None):
        return "final state missing"
    if fa:
        for k in fa["globals"]:
            if fa["globals"][k] != fb["globals"].get(k):
                return "global %s: reference %s, ppci %s" % (k, fa["globals"][k], fb["globals"].get(k))
        if fa["mem"] != fb["mem"]:
            return "memory differs"
    return None


def worker(p, shard, tier, bad):
    global ORDER_BASE
    from vf.core import use_repo
    use_repo()
    ORDER_BASE = 10 ** 6
    pending = []
    for item in shard:
        if item[0] == "custom":
            for wit, m in custom_cases(tier)[item[1]:item[2]]:
                check_custom(p, wit, m, pending)
            continue
        if item[0] == "forms":
            for wit, m, calls in list(form_modules(tier))[item[1]:item[2]]:
                check_forms(p, wit, m, bad)
            continue
        if item[0] == "eval":
            check_eval(p)
            continue
        for wit, m, calls in modules_of(item, tier):
            check_module(p, wit, m, calls, bad, pending)
            if len(pending) >= 300:
                judge(p, pending, bad)
                pending = []
    judge(p, pending, bad)


def prepass(ctx, tier):
    """Depth-1 trees one function per module: which single operators already fail which oracle (locus attribution)."""
    from vf.core import Partial
    from vf.gen import wasmgen as W
    p = Partial()
    pending = []
    fs = list(W.tree_functions(tier, ("d1",)))
    for f in fs:
        wit, m, calls = tree_module(tier, ("d1",), [f])
        check_module(p, wit, m, calls, {}, pending)
    # module structure: the base configuration and every single deviation from it
    keys = list(W.STRUCT_OPTIONS)
    base = {k: W.STRUCT_OPTIONS[k][0] for k in keys}
    singles = [dict(base)]
    for k in keys:
        for v in W.STRUCT_OPTIONS[k][1:]:
            c = dict(base)
            c[k] = v
            singles.append(c)
    for cfg in singles:
        r = struct_module(cfg)
        if r is not None:
            check_module(p, r[0], r[1], r[2], {}, pending)
    judge(p, pending, {})
    bad = {}
    for name, items in p.sets.items():
        if name.startswith("failing_atoms:"):
            bad[name.split(":", 1)[1]] = set(a for it in items for a in it.split("|"))
    # text-parse keys carry the style: share the atom set
    for k in list(bad):
        if k.startswith("text-parse/"):
            bad.setdefault("text-parse", set()).update(bad[k])
    for k in list(bad):
        if k.startswith("text-parse/"):
            bad[k] = bad["text-parse"]
    return bad, p, len(singles)


def run(ctx):
    from vf.core import HarnessError
    from vf.oracles import node
    from vf.gen import wasmgen as W
    node.selfcheck()
    tier = ctx.tier
    bad, pre, n_singles = prepass(ctx, tier)
    ctx.merge(pre)
    ctx.note("operators_failing_alone", {k: sorted(v)[:60] for k, v in bad.items()})
    items = [it for it in work_items(tier, ctx.seed, n_singles) if it != ("tree", ("d1",))]
    ctx.note("work_items", len(items))
    m0 = W.module_of_funcs([(W.FT((W.I32,), (W.I32,)), (), [W.Ins("i32.add", None, [W.lget(0), W.i32c(1)])])])
    ctx.sample({"wat": W.wat(m0, "folded"), "binary": W.encode(m0).hex()})
    heavy = [i for i in items if i[0] == "tree" and i[1][0] == "d2b"]
    light = [i for i in items if i not in heavy]
    ctx.pmap(worker, heavy + light, extra=(tier, bad))
    n_rej = ctx.counters.get("reference_binary_rejected_by_v8", 0)
    if n_rej:
        raise HarnessError("own encoder produced %d binaries that V8 rejects: %s" % (n_rej, sorted(ctx.sets.get("reference_rejected", ()))[:5]))


def replay(w):
    from vf.core import Partial, use_repo
    use_repo()
    p = Partial()
    if w.get("gen") == "custom":
        r = rebuild_custom({k: v for k, v in w.items() if k != "oracle"})
        if r is None:
            return False, "no such custom-section case"
        pending = []
        check_custom(p, r[0], r[1], pending)
        judge(p, pending, {})
        hits = sorted(p.violations.items())
        return (True, "%s :: %s" % (hits[0][0], hits[0][1][1][:600])) if hits else (False, "custom sections survive the binary round trip")
    if w.get("gen") == "eval":
        check_eval(p)
        hits = [(k, v) for k, v in sorted(p.violations.items()) if v[2].get("vt") == w.get("vt") and v[2].get("v") == w.get("v")]
        return (True, "%s :: %s" % (hits[0][0], hits[0][1][1][:600])) if hits else (False, "eval_expr gives the constant")
    if w.get("oracle") == "input-form":
        wit = {k: v for k, v in w.items() if k not in ("style", "oracle", "form")}
        r = rebuild(wit)
        check_forms(p, r[0], r[1], {})
        hits = [(k, v) for k, v in sorted(p.violations.items()) if v[2].get("form") == w.get("form") and v[2].get("style") == w.get("style")]
        return (True, "%s :: %s" % (hits[0][0], hits[0][1][1][:600])) if hits else (False, "the input form gives the same module as the text")
    wit = {k: v for k, v in w.items() if k not in ("style", "oracle")}
    r = rebuild(wit)
    if r is None:
        return False, "configuration does not denote a module"
    pending = []
    check_module(p, r[0], r[1], r[2], {}, pending)
    judge(p, pending, {})
    want = w.get("oracle")
    hits = [(k, v) for k, v in sorted(p.violations.items()) if want is None or k.startswith(want)]
    if hits:
        return True, "%s :: %s" % (hits[0][0], hits[0][1][1][:600])
    return False, "module round-trips (binary, text fixpoint, V8 equivalence)"
