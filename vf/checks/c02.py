"""C02 - optimiser preserves IR behaviour: K2 search over pass sequences, Interp as the observer."""
from vf.checks import _passgraph_common as common

ID = "C02"
LEVEL = "model_checking"
RULE = common.RULE + " C02 invariant: every function x argument vector observed by the reference interpreter (result, globals' bytes, external-call trace) equals the observation of the initial module, whenever the initial run is defined."
ASSUMPTIONS = common.ASSUMPTIONS + ["argument vectors: V3 x V3 per function plus two mixed-sign pairs (thorough: V7), full product capped at 16 (49)",
                                    "runs of the INITIAL module that are undefined (UB, uninitialised read) or exceed the step horizon are never compared"]
CLAIM = {"engine": "K2 explicit-state search over optimisation-pass sequences (vf/passgraph.py)",
         "technique": "explicit-state model checking: BFS over pass sequences on the real passes, canonical-state dedup, behavioural invariant via reference interpreter",
         "text": "Every reachable module state (all pass sequences to the stated depth, all prefixes of the real 24-pass pipeline, optimize(1/2/s)) from every enumerated initial module is executed by an independent IR interpreter on boundary argument vectors and must behave as its initial module.",
         "note": "trusted: vf/sem/irinterp.py (validated against gcc by C01 and against ir2py by C24), vf/sem/irtools.py clone/canon (clone is asserted canon-identical on every initial module)"}


def run(ctx):
    common.run(ctx, "C02")


def replay(w):
    return common.replay(w, "C02")
